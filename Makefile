# Offline build of the static checker (vendored sources; no network, no module cache needed for nsa itself).
GOENV = GOFLAGS=-mod=vendor GOPROXY=off GOSUMDB=off GOTOOLCHAIN=local GOWORK=off CGO_ENABLED=0

.PHONY: build clean
build:
	cd nsa && env -u GOWORK $(GOENV) go build -o ../bin/nscheck ./cmd/nscheck

clean:
	rm -rf bin
