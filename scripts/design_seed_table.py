#!/usr/bin/env python3
"""Rewrites DESIGN.md section 10.5 (round-1 seeded changes) from /verif/seeded/*/meta.json plus the hand-written notes below."""
import json, glob

first = {"C01-1": "-", "C01-2": "-", "C02-1": "C01 C04 (not C02)", "C02-2": "C02 C07", "C03-1": "-",
         "C03-2": "C01 C02 C04 C05 C06 C07 (not C03)", "C04-1": "-", "C04-2": "C01 C02 C04 C05 C06 C07", "C05-1": "C04 C05",
         "C05-2": "-", "C06-1": "C01 C02 C04 C05 C06 C07", "C06-2": "C06 C13", "C07-1": "C02 C07", "C07-2": "C02 C06 C07 C12",
         "C08-1": "-", "C08-2": "-", "C09-1": "C01 C08 C09", "C09-2": "-", "C10-1": "C09 C10 C11", "C10-2": "C10", "C11-1": "C11",
         "C11-2": "C11", "C12-1": "-", "C12-2": "C03 C12", "C13-1": "-", "C13-2": "C13 C20", "C14-1": "C14 C18", "C14-2": "-",
         "C15-1": "-", "C15-2": "C14 C15", "C16-1": "-", "C16-2": "C16 C19", "C17-1": "-", "C17-2": "-", "C18-1": "C18",
         "C18-2": "C06 C12 C18", "C19-1": "C19", "C19-2": "C16 C19", "C20-1": "C20", "C20-2": "-"}
what = {
 "C01-1": "Reconcile kept branch: remainder kept-sender pushed back on the SENDERS stack (sender billed an unchecked amount)",
 "C01-2": "getAvailableBalance: early return for balance <= 0 before the pending-senders scan",
 "C02-1": "helper refactor: clamp(balance+overdraft) THEN subtract pending draws (negative sender)",
 "C02-2": "Reconcile kept branch: switch simplified to if/else, equality pushes a zero sender back",
 "C03-1": "Reconcile subtracts in place on the popped receiver amount (aliases the variable's digits)",
 "C03-2": "draw clamp tests `balance` instead of `balance+overdraft` (spurious missing funds)",
 "C04-1": "pending-senders scan `break`s after the first match",
 "C04-2": "clamp moved onto balance before the overdraft is added",
 "C05-1": "in-place cap.Set(remaining) instead of MinBigInt (corrupts the variable holding the cap)",
 "C05-2": "Reconcile kept branch: whole popped receiver pushed back (kept counted twice)",
 "C06-1": "makeAllotment memoises shares per portion text: equal portions share one *big.Int, leftover unit added to all",
 "C06-2": "ParsePercentageRatio scale taken from the parsed fraction (leading zeros of decimals lost)",
 "C07-1": "kept loop compares with the original kept amount instead of the remainder",
 "C07-2": "pushSender merges a second draw of an account into its first entry (pairing order changes)",
 "C08-1": "save: floor at zero removed after the subtraction",
 "C08-2": "save: in-place amt.Set(balance) clamp corrupts the variable holding the amount",
 "C09-1": "getPostings reuses the save helper that floors at zero for the SOURCE side",
 "C09-2": "batchQuery appends the asset to a local copy that is never stored back",
 "C10-1": "fetch asks only for missing assets AND replaces the per-account map (two sites)",
 "C10-2": "getBalance fast path: skips the fetch when the ACCOUNT (not the pair) is cached",
 "C11-1": "setAccountMeta also writes into the metadata map obtained from the store",
 "C11-2": "negative-balance check moved into getBalance, guarded by the feature flag",
 "C12-1": "makeAllotment skips a second `remaining` with continue (shares shorter than items: index panic)",
 "C12-2": "getBalance builds QueryBalanceError without the wrapped store error",
 "C13-1": "percentage scale computed in an int64 loop (overflows at 17 decimals)",
 "C13-2": "Portion.String uses RatString (\"1\" instead of \"1/1\")",
 "C14-1": "string literal body via strconv.Unquote + panic",
 "C14-2": "separate lexer/parser listeners merged by a function that drops leftover lexer errors",
 "C15-1": "string literal body via strings.Trim (strips escaped quotes at the ends)",
 "C15-2": "range end computed in UTF-16 units",
 "C16-1": "withCloneUnboundedSend restores from a per-statement flag instead of the saved value",
 "C16-2": "duplicate test looks in unusedVars instead of declaredVars",
 "C17-1": "declarations hoisted into a first pass before origins are checked",
 "C17-2": "send-all unbounded-overdraft error only for account literals",
 "C18-1": "checkFnCallArity only trims trailing nil arguments",
 "C18-2": "hoverOnSource binary search calls GetRange on nil placeholders",
 "C19-1": "didChange takes the first content change",
 "C19-2": "varResolution recorded after the unknown-type early return",
 "C20-1": "os.Exit(errorsCount) wraps at 256",
 "C20-2": "-b balances copied through Int64()",
}
rule = {
 "C01-1": "C01.7 push-back discipline (a remainder goes back to the list its minuend came from)",
 "C01-2": "C01.3b pending scan complete (every return follows the full scan)",
 "C02-1": "C02.2 sign: a value that is non-negative only by a clamp is not subtracted from optimistically",
 "C02-2": "C02.1 zero filter",
 "C03-1": "C03.6 evaluated / queued numbers are never rewritten in place",
 "C03-2": "C03.7 a clamp tests the very number it resets; C03.8 sign",
 "C04-1": "C04.5d pending scan complete (no break)",
 "C04-2": "C04.6 sign",
 "C05-1": "C05.5 evaluated numbers read-only; C05.3 min-of-cap",
 "C05-2": "C05.6 push-back discipline (never a popped element as is)",
 "C06-1": "C06.2 sign / C06.3 panic inventory",
 "C06-2": "C06.5b scale = 2 + len(fraction text)",
 "C07-1": "C07.1b zero filter",
 "C07-2": "C07.1b zero filter",
 "C08-1": "C08.1b sign: a rewritten balance must be non-negative at every return",
 "C08-2": "C08.5 evaluated numbers read-only",
 "C09-1": "C09.1 postings applied to the cache by Sub/Add on the reader's cell",
 "C09-2": "C09.4c registration records the pair on every path",
 "C10-1": "C10.3 merge-only cache",
 "C10-2": "C10.2 fetch precedes every on-demand read",
 "C11-1": "C11.2 W2 taint",
 "C11-2": "C11.4 flag read only by the gated builtin",
 "C12-1": "C12.1b one portion per item on every non-error path",
 "C12-2": "C12.3a the error returned derives from the failed call's error",
 "C13-1": "C13.5 no machine multiplication feeds a big number",
 "C13-2": "C13.2 N3 exact rendering",
 "C14-1": "C14.1 new explicit panic site",
 "C14-2": "C14.4 one collecting listener on lexer and parser",
 "C15-1": "C15.7 string body = token text minus one delimiter at each end",
 "C15-2": "C15.1 units (term of unknown unit)",
 "C16-1": "C16.5 save/restore closures restore the entry value",
 "C16-2": "C16.3 name bookkeeping",
 "C17-1": "C17.6 origin checked before declaration, in the same loop",
 "C17-2": "C17.7 send-all diagnostic not conditional on the address kind",
 "C18-1": "C18.1 nilguard",
 "C18-2": "C18.1 nilguard",
 "C19-1": "C19.1 last content change",
 "C19-2": "C19.7 resolution on the hit edge",
 "C20-1": "C20.1 non-zero constant exit status",
 "C20-2": "C20.4 no narrowing to 64 bits",
}

out = """### 10.5 Seeded changes and which checks catch them (round 1)

Twenty fresh sub-agents (one per property) were each given only the text of their property and a private scratch
worktree of /repo - nothing from /verif - and asked for two changes that break the property, still compile, pass the
whole suite, and need something specific to manifest, with a demonstration test. I re-confirmed every one in a fresh
worktree (`scripts/triage.sh`: demo passes unpatched, suite passes patched, demo fails patched): 40 of 40 confirmed. They
are kept under `/verif/seeded/<id>/` (patch.diff, the demonstration as `*_test.go.txt`, README.md, meta.json).

First triage, with the checks as they were when the agents ran: 22 of 40 were reported by at least one check, 21 by the
check of the property they were written for. Every miss was analysed; where a sound structural rule existed it was added
(none of the additions fires on the unchanged tree) and the whole set was re-run: **40 of 40 are now reported by their own
property's check** (`scripts/seedcheck.sh <id>` applies the patch to a scratch worktree and runs the checks with `-repo`).
One miss exposed a genuine defect of the pinned tree instead (D16 below).

| id | change | reported at first triage by | rule that reports it now (own property) |
|---|---|---|---|
"""
for d in sorted(glob.glob('/verif/seeded/C*')):
    m = json.load(open(d + '/meta.json'))
    i = m['id']
    if i not in what:
        continue
    out += f"| {i} | {what[i]} | {first.get(i, '?')} | {rule.get(i, ' '.join(m['checks_that_fire']))} |\n"
out += """
**D16 (found through C17-1, fixed).** Triage of C17-1 showed that the pinned checker itself declared a variable before
checking its own origin call: `vars { account $a = meta($a, "k") }` passed the check and failed at run time with
'Unbound variable'. A genuine violation of C17 on the pinned tree; repaired by the `fix:` commit "a variable origin
cannot refer to the variable being declared" (origin checked first), recorded in known_findings.json, demonstrated by
`TestDefectD16...` in defects/zdefects_test.go, and guarded by the new rule C17.6.

Rules added in this round (`rules/extra.go`, `rules/sign.go`, `rules/taint.go`): push-back discipline, pending scan
complete, registration on every path, one portion per item, machine arithmetic / narrowing of numerals, single collecting
listener, string-literal body idiom, save/restore closures, origin-before-declaration, unconditional send-all diagnostic,
clamp-tests-itself, evaluated numbers read-only (W2 with the evaluator's results as sources), the `ref` bit of the sign
analysis (non-negative only by test or clamp: no optimistic subtraction) and the exit obligation on the saved balance.
"""
s = open('/verif/DESIGN.md').read()
i = s.index('### 10.5 Seeded changes and which checks catch them')
j = s.find('### 10.6', i)
s = s[:i] + out + (s[j:] if j > 0 else '')
open('/verif/DESIGN.md', 'w').write(s)
print('ok')
