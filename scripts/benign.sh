#!/bin/bash
# usage: benign.sh <patch.diff> <label>  -- a behaviour-preserving refactoring: every check must stay silent
export GOFLAGS=-mod=mod GOPROXY=off GOSUMDB=off GOTOOLCHAIN=local; unset GOWORK
PATCH=$(readlink -f $1); L=$2; VW=/tmp/bn-$L
git -C /repo worktree add -q --detach $VW HEAD || exit 2
trap 'git -C /repo worktree remove --force '$VW' 2>/dev/null; rm -rf '$VW EXIT
cd $VW
git apply $PATCH 2>/dev/null || { echo "BENIGN $L patch-does-not-apply"; exit 0; }
go build ./... || { echo "BENIGN $L does-not-compile"; exit 0; }
suite=$(go test -vet=off -count=1 ./... 2>&1 | grep -v "no test files" | grep -vc "^ok")
[ "$suite" != "0" ] && { echo "BENIGN $L suite-fails($suite): not benign, skipped"; exit 0; }
mkdir -p $VW/.vout; cp /verif/known_findings.json $VW/.vout/
alarms=""
for p in $(/verif/bin/nscheck -list); do
  out=$(/verif/bin/nscheck -prop $p -repo $VW -verif $VW/.vout 2>&1); rc=$?
  if [ $rc -ne 0 ]; then alarms="$alarms $p"; echo "$out" | grep -E "^\s+(violated|undecided)" | head -4 | cut -c1-300 | sed "s/^/   [$L $p]/"; fi
done
echo "BENIGN $L alarms:${alarms:- none}"
