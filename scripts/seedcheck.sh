#!/bin/bash
# usage: seedcheck.sh <seeded-id> [prop ...]   -- apply /verif/seeded/<id>/patch.diff to a scratch worktree and run checks
export GOFLAGS=-mod=mod GOPROXY=off GOSUMDB=off GOTOOLCHAIN=local; unset GOWORK
ID=$1; shift; VW=/tmp/sc-$ID
git -C /repo worktree add -q --detach $VW HEAD || exit 2
trap 'git -C /repo worktree remove --force '$VW' 2>/dev/null; rm -rf '$VW EXIT
cd $VW
git apply /verif/seeded/$ID/patch.diff 2>/dev/null || git apply -3 /verif/seeded/$ID/patch.diff 2>/dev/null || { echo "SEED $ID patch-does-not-apply (tree changed)"; exit 0; }
go build ./... || { echo "SEED $ID does-not-compile"; exit 0; }
mkdir -p $VW/.vout; cp /verif/known_findings.json /verif/properties.jsonl $VW/.vout/
props="$@"; [ -z "$props" ] && props=$(/verif/bin/nscheck -list)
caught=""
for p in $props; do
  out=$(/verif/bin/nscheck -prop $p -repo $VW -verif $VW/.vout 2>&1); rc=$?
  if [ $rc -ne 0 ]; then caught="$caught $p"; [ -n "$VERBOSE" ] && echo "$out" | grep -E "^\s+(violated|undecided)" | head -3 | cut -c1-240 | sed "s/^/   [$p]/"; fi
done
own=${ID%%-*}
case " $caught " in *" $own "*) o=OWN;; *) o=own-miss;; esac
echo "SEED $ID $o caught_by:${caught:- NONE}"
