#!/usr/bin/env python3-vt
"""Runs every registered quick (or thorough) command and validates manifest + evidence against the schemas."""
import json, subprocess, sys, time, os, jsonschema
tier = sys.argv[1] if len(sys.argv) > 1 else 'quick'
man = json.load(open('/verif/MANIFEST.json'))
jsonschema.validate(man, json.load(open('/root/.vp/MANIFEST.schema.json')))
evs = json.load(open('/root/.vp/EVIDENCE.schema.json'))
bad = 0
for c in man['checks']:
    cmd = c['quick_cmd'] if tier == 'quick' else c.get('thorough_cmd', c['quick_cmd'])
    try: os.remove(c['evidence_file'])
    except FileNotFoundError: pass
    t = time.time()
    r = subprocess.run(cmd, shell=True, cwd='/verif', capture_output=True, text=True)
    dt = time.time() - t
    status = 'ok'
    if r.returncode != 0 or 'VIOLATION' in r.stdout:
        status = f'ALARM rc={r.returncode}'; bad += 1
    try:
        jsonschema.validate(json.load(open(c['evidence_file'])), evs)
    except Exception as e:
        status += f' EVIDENCE-INVALID {str(e)[:80]}'; bad += 1
    last = r.stdout.strip().split('\n')[-1][:150]
    print(f"{c['property_id']} {status} {dt:.1f}s  {last}")
print('na:', [n['property_id'] for n in man.get('not_applicable', [])])
sys.exit(1 if bad else 0)
