#!/bin/bash
# usage: mutant.sh (-R <commit> | <patch.diff>) [prop ...]
# Applies a change to /repo's working tree (reverse of a fix commit, or a patch), checks that it
# compiles, runs the named checks (default: all registered), and restores the tree.
export GOFLAGS=-mod=mod GOPROXY=off GOSUMDB=off GOTOOLCHAIN=local; unset GOWORK
cd /repo || exit 2
if ! git diff --quiet; then echo "/repo not clean"; exit 2; fi
if [ "$1" = "-R" ]; then
  git show "$2" | git apply -R || { echo "cannot revert $2"; exit 2; }
  shift 2
else
  git apply "$1" || { echo "cannot apply $1"; exit 2; }
  shift
fi
trap 'git -C /repo checkout -- . ; git -C /repo clean -fdq' EXIT
go build ./... || { echo "MUTANT DOES NOT COMPILE"; exit 3; }
if [ -n "$MUTANT_TESTS" ]; then go test -vet=off -count=1 ./... 2>&1 | grep -v "no test files" | grep -v "^ok" | head -5; fi
props="$@"
if [ -z "$props" ]; then props=$(/verif/bin/nscheck -list); fi
for p in $props; do
  out=$(cd /verif && bin/nscheck -prop $p 2>&1)
  rc=$?
  if [ $rc -ne 0 ]; then echo "[$p] CAUGHT rc=$rc"; echo "$out" | grep -E "^\s+(violated|undecided)" | cut -c1-300 | head -6; else echo "[$p] silent"; fi
done
