#!/usr/bin/env python3
"""Regenerates /verif/MANIFEST.json from the properties the checker implements (bin/nscheck -list)
and the per-property texts below. Run after adding a property to nsa/props."""
import json, subprocess, sys

props = [json.loads(l) for l in open('/verif/properties.jsonl')]
built = subprocess.run(['/verif/bin/nscheck', '-list'], capture_output=True, text=True).stdout.split()

# technique / level text / note per property (level is always "other": a stated structural
# necessary condition, decided from source; see DESIGN.md section 4)
T = {
 'C01': ('sign/balance-origin dataflow on SSA + control-dependence of the overdraft gate', '4 C01'),
 'C02': ('may-be-negative taint dataflow (SSA, path-sensitive sanitisers) to the sender/receiver push sinks; ordered-subtraction rule', '4 C02'),
 'C03': ('must-check of the exactness comparison on the SSA CFG; error-discipline rules', '4 C03'),
 'C04': ('closed-sum traversal coverage (go/types) + cap-clamp and min-select rules on SSA', '4 C04'),
 'C05': ('closed-sum traversal coverage + destination-cap sign rule on SSA', '4 C05'),
 'C06': ('must-check of the allotment sum on the SSA CFG; divisor discharge', '4 C06'),
 'C07': ('ordered-subtraction (three-way comparison) rule in the reconciler, SSA path conditions', '4 C07'),
 'C08': ('monotone-write rule on the save runner (SSA path conditions)', '4 C08'),
 'C09': ('cache-update / reset must-pass rules and who-may-write field rules on SSA', '4 C09'),
 'C10': ('prefetch-vs-draw sibling cross-check over AST sums; merge-only cache write rule; world gate', '4 C10'),
 'C11': ('write/alias effect analysis from the run entry (globals, inputs, store results)', '4 C11'),
 'C12': ('may-panic site inventory with mechanical discharge over the VTA call graph; error discipline', '4 C12'),
 'C13': ('base/range rules on every text<->number conversion call (SSA constant arguments) + type-table bijection', '4 C13'),
 'C14': ('may-panic site inventory of the conversion layer; closed-sum exhaustiveness over generated contexts', '4 C14'),
 'C15': ('unit typing (runes vs bytes) of position values by SSA backward slicing; field-mapping rules', '4 C15'),
 'C16': ('checker-vs-interpreter typing-table cross-check (checker never stricter), control dependence of diagnostics', '4 C16'),
 'C17': ('checker-vs-interpreter typing-table cross-check (checker never weaker), builtin table agreement', '4 C17'),
 'C18': ('nil-guard dataflow on partial ASTs + may-panic inventory from the analysis entry points', '4 C18'),
 'C19': ('data-origin and field-mapping rules in the LSP handlers; hover traversal coverage', '4 C19'),
 'C20': ('exit-status control dependence and result pass-through rules in the CLI', '4 C20'),
}

def level_text(pid):
    return ("Static analysis of /repo's source (no execution): decides the structural necessary conditions listed in "
            "DESIGN.md section " + T[pid][1] + " for this property - every obligation is a rule over the type-checked "
            "program / SSA / call graph whose violation implies an input on which the property fails. It does not decide "
            "the behavioural statement itself (arithmetic identities, value round trips, histories): those clauses are "
            "listed as NOT DECIDED in the evidence. Level 'other' because the claim is 'these necessary conditions hold on "
            "every path', not exploration and not a proof of the property.")

checks = []
for p in props:
    pid = p['id']
    if pid not in built:
        continue
    checks.append({
        'property_id': pid,
        'quick_cmd': f'bin/nscheck -prop {pid} -tier quick',
        'thorough_cmd': f'bin/nscheck -prop {pid} -tier thorough',
        'evidence_file': f'/verif/evidence/{pid}.json',
        'replay_cmd_template': 'bin/nscheck -explain {path}',
        'engine': 'nscheck',
        'level_claimed': {'category': 'other', 'text': level_text(pid), 'design_ref': 'DESIGN.md section ' + T[pid][1]},
        'level_note': 'Trusted: go/packages, go/types, go/ssa and the VTA call graph of x/tools v0.29.0; the rule implementations (tested by must-fire fixtures and the seeded mutants under /verif/seeded); assumptions A1-A4 of DESIGN.md section 6 (ANTLR runtime and generated parser, math/big and the standard library behave as documented).',
        'technique': 'static analysis: ' + T[pid][0],
    })

na_reason = {}
m = {
 'version': 1,
 'setup_cmd': 'make -C /verif build',
 'hooks': {'guard': 'verif', 'enable': 'none needed: the checker reads /repo\'s source; no hook or instrumentation exists in /repo (thorough also analyses the tree with -tags verif)',
           'baseline_off_cmd': 'cd /repo && GOFLAGS=-mod=mod GOPROXY=off GOSUMDB=off go test -vet=off -count=1 ./...',
           'source_commits': [], 'add_only': True},
 'engines': [{'name': 'nscheck', 'path': '/verif/nsa', 'serves_properties': [c['property_id'] for c in checks],
              'kind_free_text': 'repository-specific static analyser (go/packages + go/types + go/ssa + VTA call graph) deciding structural necessary conditions of each property from /repo\'s working tree; never runs numscript'}],
 'checks': checks,
 'notes': 'All checks are static (family: static analysis). known_findings.json lists the genuine defects: 14 repaired by fix: commits in /repo, 1 recorded (D11). See DESIGN.md.',
 'not_applicable': [{'property_id': p['id'], 'reason': na_reason.get(p['id'], 'no check registered yet in this round: the static obligations planned for it (DESIGN.md section 4) are not implemented, so nothing is claimed')} for p in props if p['id'] not in built],
}
json.dump(m, open('/verif/MANIFEST.json', 'w'), indent=1)
print('checks:', [c['property_id'] for c in checks])
