#!/usr/bin/env python3
"""Rewrites DESIGN.md sections 10.6-10.9 (benign corpus, round-2 seeded changes, anchors) from /verif/seeded/*/meta.json and the notes below."""
import json, glob, re

def title(sid):
    for l in open(f'/verif/seeded/{sid}/README.md'):
        if l.startswith('# '):
            t = l[2:].strip()
            t = re.sub(r'^MUTANT\d+\s*[-:\u2013\u2014]\s*', '', t)
            return t.replace('|', '/')
    return '(see README.md)'

added = {
 "C01-5": "C01.8 merge-only cache (shared with C09/C10)",
 "C03-5": "C03.9 postings applied to the cache in place (shared with C01/C09)",
 "C04-5": "C04.5e reader returns cached - pending, unaltered (new)",
 "C05-4": "C05.7 clause loop left early only when nothing is left (new)",
 "C05-5": "C05.5 no in-place operation on a shallow copy of a number (new)",
 "C06-5": "C06.6 portions validated before every successful return of an allotment arm (new)",
 "C07-5": "C07.4 a child handed on on some path is handed on on every successful path (new)",
 "C08-3": "C08.6 fetch before the first cache read on every call path (new, call-graph summaries)",
 "C09-3": "C09.4e query sent keeps the whole pending list per account (new)",
 "C10-3": "C10.2d collecting traversal leaves child loops only when exhausted or with an error (new)",
 "C11-5": "C11.1 extended: address of a package-level variable handed to a call",
 "C12-4": "C12.3c store answer used only where its error was tested nil (new)",
 "C13-4": "C13.6 account metadata text is value.String() (new)",
 "C15-4": "C15.9 machine arithmetic on numerals (shared with C13.5)",
 "C15-5": "C15.8 / C14.5 the lexer reads the text parameter itself (new)",
 "C16-3": "C16.6 state overwritten inside recursive traversals must be save/restored (new)",
 "C16-4": "C16.7 every evaluated position is visited by the checker (table shared with C17.1)",
 "C17-3": "C17.9 save/restore closures (shared with C16.5)",
 "C17-5": "C17.8 inferred type of a variable is its declared type (new)",
 "C18-4": "C18.4 units of diagnostic columns (shared with C14.3/C15.1)",
 "C19-3": "C19.1 every path through a notification arm stores the document (new)",
 "C20-4": "C20.4 narrowing rule extended to the value renderers",
}

added.update({
 "C01-6": "C01.3d a number that may be the cached balance is rewritten only by the cache owners (new)",
 "C01-7": "C01.3e only a number that already contains the grant is reset to zero (new)",
 "C02-7": "C02.2 sign: the meet of the analysis no longer forgets a cell rewritten on one path only (analysis made sound)",
 "C03-7": "C03.10 the unbounded gate (shared with C01.2/C04.5b)",
 "C04-6": "C04.5f cache owners (new)",
 "C04-7": "C04.5h @world recognised on the evaluated name (new)",
 "C09-6": "C09.6 evaluated numbers read-only (shared)",
 "C10-6": "C10.2e an account enters the query where an asset was found missing (new)",
 "C11-7": "C11.5 query completeness (shared with C09/C10)",
 "C13-6": "C13.7 the text of a variable reaches its reader unmodified (new)",
 "C13-7": "C13.8 evaluated numbers read-only / no in-place operation on a shallow copy (shared)",
 "C14-6": "C14.6 the renderer cuts lines at the character the lexer counts (new)",
 "C16-7": "C16.8 an infix expression is inferred the type of its left operand (new)",
 "C17-7": "C17.10 a diagnostic about an @world address does not depend on the bound (new)",
 "C19-6": "C19.9 the checker is never handed the address of a local copy of a node (new)",
 "C20-7": "C20.6 no message is used as a format string (new)",
})

added.update({
 "C03-8": "C03.11 a result that may be the argument itself is not read after the argument is rewritten (new)",
 "C05-9": "C05.6 a pushed-back sender/receiver keeps the name of the one that was popped (push-back rule extended)",
 "C13-8": "C13.8 evaluated numbers read-only: ownership now follows the one-element array of append into the slice (analysis made more precise)",
 "C16-9": "C16.9 per-statement state of the checker is assigned before it is read (new, must-assign / reads-unassigned summaries)",
 "C19-9": "C19.10 a loop over sibling nodes is left only with an answer (new)",
})

def table(rnd):
    rows = []
    own1 = tot = ownNow = any1 = 0
    for d in sorted(glob.glob('/verif/seeded/C*')):
        m = json.load(open(d + '/meta.json'))
        if m.get('round') != rnd:
            continue
        tot += 1
        first = m.get('first_triage_checks_that_fire', [])
        if first:
            any1 += 1
        if m['breaks_property'] in first:
            own1 += 1
        if m.get('own_property_check_fires'):
            ownNow += 1
        i = m['id']
        rows.append(f"| {i} | {title(i)} | {' '.join(first) or 'none'} | {' '.join(m['checks_that_fire']) or 'none'} | {added.get(i, '')} |")
    return rows, own1, any1, tot, ownNow

rows3, own3, any3, tot3, ownNow3 = table(3)
rows4, own4, any4, tot4, ownNow4 = table(4)
nSeeded = len(glob.glob('/verif/seeded/C*'))
nOwnAll = sum(1 for d in glob.glob('/verif/seeded/C*') if json.load(open(d + '/meta.json')).get('own_property_check_fires'))
nBenign = len(glob.glob('/verif/benign/*.diff'))

rows = []
own1 = tot = ownNow = 0
for d in sorted(glob.glob('/verif/seeded/C*')):
    m = json.load(open(d + '/meta.json'))
    if m.get('round') != 2:
        continue
    tot += 1
    first = m.get('first_triage_checks_that_fire', [])
    if m['breaks_property'] in first:
        own1 += 1
    if m.get('own_property_check_fires'):
        ownNow += 1
    i = m['id']
    rows.append(f"| {i} | {title(i)} | {' '.join(first) or 'none'} | {' '.join(m['checks_that_fire']) or 'none'} | {added.get(i, '')} |")

out = f"""### 10.6 The benign corpus: refactorings on which every check must stay silent

"Never raise an alarm on code where the property holds" was tested the same way as detection. Ten fresh sub-agents, each
given one area of the code base (draw functions, reconciler, balance batching, checker, hover, parser, language server,
CLI, values, save) and nothing from /verif, produced four **behaviour-preserving refactorings** each - the kind a
maintainer does: extract a method, rename, turn a one-case type switch into a comma-ok assertion, hoist a loop into a
helper, move functions to a new file, replace a counter field, split `Handle`. They are kept as `/verif/benign/<area>-<n>.diff`
(40 patches; `scripts/benign.sh <patch> <label>` applies one to a scratch worktree, requires the whole suite to pass, and
runs all twenty checks, which must all be silent).

First run: **23 of the 40 refactorings raised at least one false alarm**. Every alarm was a rule that had recognised the
code by a *name* or by *one syntactic form*. None was "fixed" by an allow-list: the rules were rewritten to recognise the
construct by what it does. The changes (all in `rules/`), roughly by frequency:

* **Name-keyed exceptions -> structural discharges.** The panic inventory no longer has exceptions keyed by the name of
  the function that contains the site. `allot[i]` is discharged by *length facts* (`rules/lenfacts.go`): a slice built
  from empty by one append per iteration of a complete range has the length of the ranged slice (a no-match edge of a type
  switch over a closed sum counts as infeasible), `make([]T, len(w))` has the length of `w`, the result of a module
  function has the length of the parameter its successful returns have (summary), an index that is a loop index or a
  variable holding a loop index or the sentinel -1 (excluded by the path) is in range. `GetText()[1:]` is discharged from
  Numscript.g4: the static type of the receiver (`*XContext`, a token, or every call site of an interface-typed
  parameter) gives the alternative, its leading token, and that token's shortest text (regexp/syntax). A counter field
  (only ever `f = f + k`, never address-taken) is non-negative. The remaining parser exceptions are keyed by the *shape* of
  the site (`explicit panic reached only when a base-ten SetString failed`, `constant index into strings.Split(_, const)`)
  with the same lexer-class side conditions as before. The nil-guard exception for `typeOf` became a guard idiom: a
  comparison of `f(v)` with a constant proves `v != nil` when `f` answers a known constant for a nil argument.
* **Functions found by role, not by name.** Builtin dispatch = a comparison of `FnCallIdentifier.Name` with a constant,
  anywhere in the interpreter, whose arm calls a function that parses arguments (directly or through a shared helper);
  leaf expectations = one type assertion on the Value parameter + one constant `TypeError.Expected` (switch or comma-ok
  form); the CLI entry points = the functions of `internal/cmd` that call `CheckSource` / `RunProgram`; the allotment
  function = the one that switches over the allotment item kinds and appends to a slice of numbers.
* **Rules follow helpers.** Every rule that looked at "the arm" or "the function" now follows module helpers the arm
  delegates to (bounded depth, never the traversal itself): child coverage S2, cap rules, balance origin
  (`getDrawableAmount`), postings applied to the cache (a per-posting helper called on every iteration), send-all
  diagnostics, CLI printing/exit (`exitWithRuntimeError` counts only if *every* path of it ends in a non-zero exit),
  LSP lookup (`lookupDocument(uri)`), diagnostics conversion (a helper proved to return one element per element).
* **The feature-flag rule (C11.4)** follows the flag map from the exported entry points through parameters, fields and
  locals; lookups must have constant keys; the outcome may only set a boolean field; that field may only be read by the
  implementation of a builtin.
* **E2** accepts a result that is a component of the very call whose error is returned (the callee is held to E2).
* Vacuity floors that counted syntactic instances (number of type switches, of stores) were lowered to what the rule
  needs to be non-vacuous.

After these changes: **40 of 40 refactorings are silent** and all seeded changes of round 1 are still reported by their own
property's check. The corpus is re-run after every rule change (`ls benign/*.diff | xargs ... scripts/benign.sh`).

**Second benign round (48 more refactorings + 1 rename patch).** After the round-2 rules were added, twelve more fresh
sub-agents produced four refactorings each of the areas those rules look at (ordered destinations, allotments, balance
fetching, builtins, the checker's scopes, type inference, parser set-up, LSP dispatch, statement dispatch, value
arithmetic, reconciler, sources), kept as `benign/r3-<area>-<n>.diff`; `benign/rename-1.diff` (mine) renames every
private state field the rules refer to. First run: **22 of 48 raised a false alarm** - again all "recognised by one form":
a closure turned into a method, a loop hoisted into a helper, `a || b` gates, `x := cond1 && cond2; if x`, a table
of builtin functions returned by a lookup function, `return helper()` instead of `err := helper(); if err != nil`, a
save/restore snapshot struct, `new(big.Int)` for zero, index loops instead of range, appends done by a local closure.
Fixes, all structural: path conditions now expand boolean phis (`&&`/`||` stored in a variable); roles are found through
wrappers (`ReachesWithin`), dispatch through lookup tables and name parameters; the reset of the pending lists may be a
helper that resets on every path; the reconciler rules range over the reconciler *and* the helpers it hands the pending
lists to, and accept inline pops at the same end; index facts work for classic counters, across a call (an index
parameter is in range if every call site passes a loop index - or -1, excluded in the callee - over a slice as long as the
slice argument) and for slices kept in a variable that closures append to; the sign analysis shares element buckets
between a function and its closures, gives closure parameters the join of the arguments of their direct calls, and names
the cell of a once-assigned captured pointer variable; `@world` counts as the unbounded gate; an untouched
`new(big.Int)` is the constant zero; the private state fields are found by type/role when the name is gone
(`core/load.go: fieldRoles`). After the fixes all 89 patches then in the corpus were silent and 99 of the 100 seeded
changes were still reported by their own property's check.

**Third benign round (48 refactorings aimed at the rules of rounds 2 and 3).** Twelve more sub-agents, areas chosen
after the newest rules (how an account is drawn, the balance readers, the query filter, the reader of variable text, the
error renderer, type inference, the checker's @world handling, the CLI, variable uses, save, hover, values), kept as
`benign/r4-<area>-<n>.diff`; plus `benign/rename-2.diff` (private struct types renamed). First run: **18 of 48 raised a
false alarm**. Fixed structurally again: the pending-draw scan accepts "add up, subtract once" and an early exit on an
empty list; postings may be applied by nested helpers that are handed the posting's fields one by one; the save rules
range over an evaluate/apply split (the balance may be a parameter of the helper that rewrites it, the amount's sign may
be guaranteed by the helper that produced it) and accept "compute in a fresh number, then Set"; the exit obligation of
the sign analysis is per path; tuple results carry per-component taint; the reader of variable text may be a table of
functions; the return type of an origin builtin comes from its implementation's signature; the renderer's exceptions
are keyed by role (reachable only from the exported method of Range that renders it) with a side condition on what a
Repeat count is built from; the CLI rules follow phase helpers; the hover constructor may be a helper whose callers test
Contains; nil facts follow forwarded parameters, constructor parameters and slices built by helpers; the typing table
follows a required type passed through a helper parameter. Two of these fixes removed *coincidental* detections - the
refactorings had been flagged, and two seeded changes (C05-6, C19-2/C19-5) caught, by imprecision rather than by the
rule's stated reason; both seeded changes now have a rule of their own (C05.9 an amount handed to a function that
rewrites it is not used afterwards; C19.7 a resolution is recorded on every path after the lookup hit). After the fixes
**all 139 patches of the corpus are silent** and 138 of the 140 seeded changes are reported by their own property's check.

**Fourth benign round (40 general refactorings, not aimed at any rule).** Ten more sub-agents were given one area of
the code base each (three for the interpreter, the balance prefetch and the facade, two for the checker, hover, parser,
language server, CLI) and asked for medium-sized structural changes of their own choice; kept as `benign/r5-<area>-<n>.diff`.
First run: **10 of 40 raised a false alarm** (down from 23/40, 22/48, 18/48 in the earlier rounds). Fixed structurally:
the *reconciler* is now a role (returns postings, works on both pending lists, builds the postings itself or through a
helper of its package; the outermost such function) and every rule about it ranges over the reconciler, the helpers it
hands the pending lists to, and the helpers that build or merge postings for it - a parameter of such a helper stands for
what every call in the module passes (`argSites`; a function used as a value has unknown callers and is not resolved);
the statement-prefetch role reaches the prefetch traversal through per-statement helpers; a builtin may be dispatched by
selecting its implementation into a function variable under the name comparison; the nil answer of the type-inference
function is followed through a loop that replaces recursion; values read from the invariant-carrying symbol table keep
their facts through a helper parameter; an explicit `default: continue` arm of a switch over a closed sum is the no-match
edge; the save/restore idiom has a second recognised form (an *enter* helper returning a snapshot struct taken before its
own writes, an *exit* helper storing the snapshot back, and every scope that is entered left on every path to a return);
the origin-before-declaration rule accepts a per-declaration helper; the language server's lookup helper may be keyed by
a field of its parameter and a handler may work on a local copy of part of the document found; a context range may be
built by a helper that is handed the start and the stop token. After the fixes **all {nBenign} patches of the corpus are
silent**.

What still recognises code by name (a rename there gives `undecided`, exit 1 - a false alarm I could not remove without
giving up the rule): the struct types `programState`, `CheckResult`, `State` themselves (their private fields fall
back to a type/role match, see `fieldRoles`); exported API names (`RunProgram`, `Parse`, `CheckSource`, `GetErrorsCount`, `MinBigInt`,
`Position`, `Range`, the error and diagnostic types); the builtin-name constants. Exported names are part of the library's
interface; the private fields are the residual risk.

### 10.7 Seeded changes, round 2 (three per property)

Twenty more fresh sub-agents (same isolation) were asked for **three** changes each, harder to notice than round 1:
two-site interactions, fast paths that only differ beyond a threshold, state that leaks across nesting, error paths.
All 60 were confirmed by me in scratch worktrees (`scripts/triage.sh <Cxx> <i> w2`) and are kept as
`/verif/seeded/Cxx-3..5`. With the checks as they were when the agents ran: **{own1} of {tot} were reported by the check of
their own property**, 47 by at least one check, 13 by none. After the additions below: **{ownNow} of {tot}** by their own
property's check (and every one of the 100 seeded changes of both rounds by at least one check); the benign corpus stayed
silent throughout.

| id | change | reported at first triage by | reported now by | rule added or shared for the own property |
|---|---|---|---|---|
""" + "\n".join(rows) + """

Not reported by its own property's check: **C19-4** (HoverOn replaced by a binary search whose predicate only compares
`End.Line`). The only static rule I found that separates it from a *correct* binary search - "positions are compared only
through the verified helpers `GtEq`/`Contains`" - would fire on a correct refactoring that compares lines directly, so it
was not added. The change is reported by C18 (the search predicate dereferences nil placeholders of a partial tree) and
by the panic inventory.

New rules of round 2 are in `rules/round2.go`, `rules/lenfacts.go`, `rules/flags.go`; each was run against the benign
corpus before it was kept. Two first versions did raise false alarms there and were narrowed: *fetch-first* first counted
helpers that read the cache on behalf of the fetch function itself (now: leaf readers that return a number; the fetch
function is atomic; a callee "must fetch" if its successful returns do and the caller leaves on its error), and
*descend-on-every-path* first fired on the balance-collecting traversal, which legitimately skips the address of an
unbounded overdraft (now: not applied to that traversal, which has its own rules C10.1/C10.2d).

### 10.8 Seeded changes, round 3 (two per property, told what earlier rounds had found)

Twenty more fresh sub-agents were told which kinds of change rounds 1 and 2 had already produced (removed clamps, swapped
comparisons, machine-word fast paths, dropped error checks, early returns, state shared between nested constructs) and
asked for something else: ordering, aliasing, one-combination conditions, two functions that must agree. All 40 were
confirmed (`scripts/triage.sh <Cxx> <i> w3`) and kept as `/verif/seeded/Cxx-6..7`. With the checks as they were:
**""" + f"{own3} of {tot3}" + """ reported by their own property's check**, """ + f"{any3}" + """ by at least one. After the additions
(`rules/round3.go`, each run against the whole benign corpus before it was kept): **""" + f"{ownNow3} of {tot3}" + """**.

| id | change | reported at first triage by | reported now by | rule added or shared for the own property |
|---|---|---|---|---|
""" + "\n".join(rows3) + """

One of these exposed a **soundness hole of the sign analysis itself** (C02-7): at a control-flow merge, a cell that had
been rewritten in place on one path only was dropped from the state and its sign recomputed from its definition (a fresh
`new(big.Int)`: zero). The meet now joins the written sign with the definitional sign on the other side. A second hole
found while fixing a benign case: elements appended through the one-element array of `append` landed in a different
bucket than the slice they were appended to; buckets are now keyed by element type.

Not reported by its own property's check: **C06-6** (the leftover-unit loop skips clauses whose portion is zero). "Leftover
units go to the earliest clauses in order" is the loop-shape rule C06.4 that was dropped as brittle in 10.3; I found no
formulation that stays silent on the refactorings of the corpus (`r3-allot-*` rewrite that loop three different ways).
Still not reported by C19: C19-4 (see 10.7).

### 10.9 Seeded changes, round 4 (two for each of ten properties, after the rules of rounds 1-3)

Ten more fresh sub-agents (C01, C03, C05, C07, C09, C12, C13, C16, C17, C19 - same isolation, told what the earlier rounds
had produced) delivered two changes each; all 20 were confirmed (`scripts/triage.sh <Cxx> <i> w4`) and kept as
`/verif/seeded/Cxx-8..9`. With the checks as they were: **""" + f"{own4} of {tot4}" + """ reported by their own property's check**,
""" + f"{any4}" + """ by at least one. After the additions (`rules/round4.go` and extensions of existing rules, each run against the
whole benign corpus before it was kept): **""" + f"{ownNow4} of {tot4}" + """**.

| id | change | reported at first triage by | reported now by | rule added or shared for the own property |
|---|---|---|---|---|
""" + "\n".join(rows4) + """

Over all four rounds: **""" + f"{nOwnAll} of {nSeeded}" + """ seeded changes are reported by the check of the property they break**
(the two exceptions are C06-6 and C19-4, above), and all """ + f"{nBenign}" + """ behaviour-preserving patches are silent.
"""
s = open('/verif/DESIGN.md').read()
i = s.find('### 10.6')
if i < 0:
    s = s.rstrip('\n') + '\n\n' + out
else:
    s = s[:i] + out
open('/verif/DESIGN.md', 'w').write(s)
print('ok', own1, tot, ownNow)
