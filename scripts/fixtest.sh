#!/bin/bash
# usage: fixtest.sh <TestDefectRegex>  -- runs the pinned suite and the named defect demonstrations against /repo
export GOFLAGS=-mod=mod GOPROXY=off GOSUMDB=off GOTOOLCHAIN=local; unset GOWORK
cd /repo || exit 2
echo "== suite"; go build ./... && go test -vet=off -count=1 ./... 2>&1 | grep -v "no test files" | tail -8
cp /verif/defects/zdefects_test.go . 
echo "== demo $1"; go test -vet=off -count=1 -run "$1" . 2>&1 | grep -E "^(---|\s+zdefects|ok|FAIL|panic)" | head -40
rm -f zdefects_test.go
