#!/usr/bin/env python3
"""mkmut.py <repo-relative-file> <out.diff>  (reads OLD and NEW from stdin separated by a line '=====')
Creates a unified diff replacing OLD by NEW in the file; indentation-insensitive match (line by line, stripped)."""
import sys, subprocess, tempfile, os, re
rel, out = sys.argv[1], sys.argv[2]
old, new = sys.stdin.read().split('\n=====\n')
src = open('/repo/' + rel).read().split('\n')
ol = [l.strip() for l in old.strip('\n').split('\n')]
hits = [i for i in range(len(src) - len(ol) + 1) if all(src[i + k].strip() == ol[k] for k in range(len(ol)))]
if len(hits) != 1:
    sys.exit(f'pattern matched {len(hits)} times in {rel}')
i = hits[0]
indent = re.match(r'\s*', src[i]).group(0)
nl = new.strip('\n').split('\n')
base = min((len(l) - len(l.lstrip()) for l in nl if l.strip()), default=0)
nl = [(indent + l[base:]) if l.strip() else '' for l in nl] if new.strip() else []
res = src[:i] + nl + src[i + len(ol):]
with tempfile.NamedTemporaryFile('w', delete=False, suffix='.go') as f:
    f.write('\n'.join(res)); tmp = f.name
subprocess.run(['gofmt', '-w', tmp])
d = subprocess.run(['diff', '-u', '/repo/' + rel, tmp], capture_output=True, text=True).stdout
d = d.replace('--- /repo/' + rel, '--- a/' + rel).replace('+++ ' + tmp, '+++ b/' + rel)
open(out, 'w').write(d); os.unlink(tmp)
print('wrote', out, len(d.split('\n')), 'lines')
