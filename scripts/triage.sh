#!/bin/bash
# usage: triage.sh <Cxx> <i>   -- confirm a sub-agent mutant in a fresh scratch worktree, then run every check against it
export GOFLAGS=-mod=mod GOPROXY=off GOSUMDB=off GOTOOLCHAIN=local; unset GOWORK
P=$1; I=$2; PRE=${3:-wt}; SRC=/tmp/$PRE-$P/MUTANT$I; VW=/tmp/vw-$PRE-$P-$I
RACE=""; grep -q -- "-race" $SRC/README.md 2>/dev/null && RACE="-race"
[ -f $SRC/patch.diff ] || { echo "no patch at $SRC"; exit 2; }
demo=$(ls $SRC/*_test.go 2>/dev/null | head -1)
# where does the demo go? default: repo root; READMEs that say internal/<pkg> are honoured
dest=.
pk=$(grep -m1 '^package ' "$demo" | awk '{print $2}')
case "$pk" in
  numscript_test|numscript) dest=. ;;
  interpreter|interpreter_test) dest=internal/interpreter ;;
  parser|parser_test) dest=internal/parser ;;
  analysis|analysis_test) dest=internal/analysis ;;
  lsp|lsp_test) dest=internal/lsp ;;
  cmd|cmd_test) dest=internal/cmd ;;
esac
git -C /repo worktree add -q --detach $VW HEAD || exit 2
trap 'git -C /repo worktree remove --force '$VW' 2>/dev/null; rm -rf '$VW EXIT
cd $VW
cp "$demo" $dest/zz_demo_test.go
go test $RACE -vet=off -count=1 ./$dest > /tmp/triage-base-$P-$I.log 2>&1; basefail=$(grep -c "^--- FAIL\|^FAIL\|panic:" /tmp/triage-base-$P-$I.log)
rm -f $dest/zz_demo_test.go
git apply $SRC/patch.diff || { echo "RESULT $P-$I patch-does-not-apply"; exit 1; }
go build ./... || { echo "RESULT $P-$I does-not-compile"; exit 1; }
suite=$(go test -vet=off -count=1 ./... 2>&1 | grep -v "no test files" | grep -vc "^ok")
cp "$demo" $dest/zz_demo_test.go
go test $RACE -vet=off -count=1 ./$dest > /tmp/triage-mut-$P-$I.log 2>&1; mutfail=$(grep -c "^--- FAIL\|^FAIL\|panic:" /tmp/triage-mut-$P-$I.log)
rm -f $dest/zz_demo_test.go
echo "CONFIRM $P-$I demo_pkg=$dest demo_fails_at_HEAD=$basefail suite_nonok_with_patch=$suite demo_fails_with_patch=$mutfail"
if [ "$basefail" != "0" ] || [ "$suite" != "0" ] || [ "$mutfail" = "0" ]; then echo "RESULT $P-$I NOT-CONFIRMED"; exit 1; fi
# run all checks against the patched scratch worktree (not /repo: triages run in parallel)
mkdir -p $VW/.vout; cp /verif/known_findings.json /verif/properties.jsonl $VW/.vout/
caught=""
for p in $(/verif/bin/nscheck -list); do
  out=$(/verif/bin/nscheck -prop $p -repo $VW -verif $VW/.vout 2>&1); rc=$?
  if [ $rc -ne 0 ]; then caught="$caught $p"; echo "$out" | grep -E "^\s+(violated|undecided)" | head -3 | cut -c1-260 | sed "s/^/   [$p]/"; fi
done
echo "RESULT $P-$I CONFIRMED caught_by:${caught:- NONE}"
