package rules

import (
	"go/ast"
	"go/types"

	"nsa/core"
)

// Mapping: in a composite literal of struct S, a field F initialised from a selection y.G
// (possibly through conversions / one-argument converter calls) where y's struct type also
// has a field named F must take G == F (toLspPosition, toLspRange, StaticStore{Balances:
// opt.Balances}, Diagnostic{Range: toLspRange(d.Range)}, ...). Swapped fields compile when
// the types coincide; this is the rule that sees them.
func (c *Ctx) Mapping(ob *core.Obligation, rels map[string]bool) {
	for _, pkg := range c.P.Pkgs {
		rel, _ := core.Rel(pkg.Types)
		if !rels[rel] {
			continue
		}
		info := pkg.TypesInfo
		for _, f := range pkg.Syntax {
			if isGeneratedFile(f) {
				continue
			}
			ast.Inspect(f, func(n ast.Node) bool {
				cl, ok := n.(*ast.CompositeLit)
				if !ok {
					return true
				}
				tv, ok := info.Types[cl]
				if !ok {
					return true
				}
				st, ok := types.Unalias(tv.Type).Underlying().(*types.Struct)
				if !ok {
					return true
				}
				_ = st
				tname := typeShort(tv.Type)
				fd := c.P.EnclosingFunc(cl)
				fname := "pkg:" + rel
				if fd != nil {
					if o, ok := info.Defs[fd.Name].(*types.Func); ok {
						fname = core.FuncName(o)
					}
				}
				for _, e := range cl.Elts {
					kv, ok := e.(*ast.KeyValueExpr)
					if !ok {
						continue
					}
					key, ok := kv.Key.(*ast.Ident)
					if !ok {
						continue
					}
					sel := principalSelector(info, kv.Value)
					if sel == nil {
						continue
					}
					selection := info.Selections[sel]
					if selection == nil || selection.Kind() != types.FieldVal {
						continue
					}
					// does the selected-from struct have a field named like the key?
					recv := selection.Recv()
					obj, _, _ := types.LookupFieldOrMethod(recv, true, pkg.Types, key.Name)
					if _, isField := obj.(*types.Var); !isField {
						continue
					}
					ckey := "map:" + fname + ":" + tname + "." + key.Name
					pos := c.P.Pos(kv.Pos())
					if sel.Sel.Name == key.Name {
						ob.Pass(ckey, pos, key.Name+" <- ."+sel.Sel.Name)
					} else {
						ob.Fail(ckey, pos, "field "+key.Name+" of "+tname+" is initialised from ."+sel.Sel.Name+" although the source value has a field "+key.Name+": swapped/mismatched field mapping")
					}
				}
				return true
			})
		}
	}
}

func isGeneratedFile(f *ast.File) bool {
	for _, cg := range f.Comments {
		if cg.Pos() > f.Package {
			break
		}
		for _, cm := range cg.List {
			if len(cm.Text) > 8 && (contains(cm.Text, "Code generated") || contains(cm.Text, "DO NOT EDIT")) {
				return true
			}
		}
	}
	return false
}

func contains(s, sub string) bool {
	for i := 0; i+len(sub) <= len(s); i++ {
		if s[i:i+len(sub)] == sub {
			return true
		}
	}
	return false
}

// principalSelector strips conversions and single-argument calls and returns the selector at the core.
func principalSelector(info *types.Info, e ast.Expr) *ast.SelectorExpr {
	for i := 0; i < 6; i++ {
		e = ast.Unparen(e)
		switch x := e.(type) {
		case *ast.SelectorExpr:
			if info.Selections[x] != nil {
				return x
			}
			return nil
		case *ast.CallExpr:
			if len(x.Args) != 1 {
				return nil
			}
			e = x.Args[0]
		case *ast.StarExpr:
			e = x.X
		case *ast.UnaryExpr:
			e = x.X
		default:
			return nil
		}
	}
	return nil
}

func typeShort(t types.Type) string {
	if n, ok := types.Unalias(t).(*types.Named); ok {
		return n.Obj().Name()
	}
	return t.String()
}
