package rules

import (
	"fmt"
	"go/token"
	"go/types"
	"strings"

	"nsa/core"

	"golang.org/x/tools/go/ssa"
)

// ---------- min / max classification (cmpselect) ----------

// IsMinSelect: fn(a, b *big.Int) *big.Int returns a (copy of) parameter only on paths where a
// comparison of the two parameters shows it is the smaller or equal one.
func (c *Ctx) IsMinSelect(fn *ssa.Function) (bool, string) {
	if fn == nil || fn.Blocks == nil || len(fn.Params) < 2 {
		return false, "not a two-parameter function"
	}
	pc := core.NewPathConds(fn)
	writes := 0
	var litOK func(p *ssa.Parameter) func(l core.Lit) bool
	check := func(p *ssa.Parameter, b *ssa.BasicBlock) bool {
		return pc.Requires(b, litOK(p))
	}
	// selected: v is a parameter shown to be the smaller one at b, or a phi each edge of which
	// carries a parameter shown to be the smaller one on that edge
	selected := func(v ssa.Value, b *ssa.BasicBlock) (bool, string) {
		switch x := core.Strip(v).(type) {
		case *ssa.Parameter:
			if !check(x, b) {
				return false, x.Name()
			}
			return true, ""
		case *ssa.Phi:
			for i, e := range x.Edges {
				p, ok := core.Strip(e).(*ssa.Parameter)
				if !ok {
					return false, "a value that is not a parameter"
				}
				if !pc.EdgeRequires(x.Block().Preds[i], x.Block(), litOK(p)) {
					return false, p.Name()
				}
			}
			return len(x.Edges) > 0, ""
		}
		return false, ""
	}
	litOK = func(p *ssa.Parameter) func(l core.Lit) bool {
		return func(l core.Lit) bool {
			cmp, rel, ok := core.DecodeCond(l.Cond)
			if !ok || cmp.B == nil {
				return false
			}
			if !l.Val {
				rel = core.ANY &^ rel
			}
			a, bb := core.Strip(cmp.A), core.Strip(cmp.B)
			if a == p {
				_, isP := bb.(*ssa.Parameter)
				return isP && rel&core.GT == 0 // p <= other
			}
			if bb == p {
				_, isP := a.(*ssa.Parameter)
				return isP && rel&core.LT == 0 // other >= p
			}
			return false
		}
	}
	isSel := func(v ssa.Value) (int, bool) {
		switch x := core.Strip(v).(type) {
		case *ssa.Parameter:
			return 1, true
		case *ssa.Phi:
			for _, e := range x.Edges {
				if _, ok := core.Strip(e).(*ssa.Parameter); !ok {
					return 0, false
				}
			}
			return len(x.Edges), len(x.Edges) > 0
		}
		return 0, false
	}
	for _, b := range fn.Blocks {
		for _, in := range b.Instrs {
			switch x := in.(type) {
			case *ssa.Call:
				if tn, m := core.BigMethod(&x.Call); tn == "Int" && m == "Set" {
					src := core.CallArgs(&x.Call)[1]
					if n, ok := isSel(src); ok {
						writes += n
						if good, who := selected(src, b); !good {
							return false, "copies parameter " + who + " into the result on a path where it was not shown to be the smaller one"
						}
					}
				}
			case *ssa.Return:
				if len(x.Results) == 1 {
					if n, ok := isSel(x.Results[0]); ok {
						writes += n
						if good, who := selected(x.Results[0], b); !good {
							return false, "returns parameter " + who + " on a path where it was not shown to be the smaller one"
						}
					}
				}
			}
		}
	}
	if writes < 2 {
		return false, "does not select between its two parameters"
	}
	return true, ""
}

// minCallOperands: v is (the cell written by) a call to a verified min function; returns its two operands.
func (c *Ctx) minCallOperands(v ssa.Value, minOK map[*ssa.Function]bool) (ssa.Value, ssa.Value, bool) {
	call, ok := core.Strip(v).(*ssa.Call)
	if !ok {
		return nil, nil, false
	}
	sc := call.Call.StaticCallee()
	if sc == nil || len(call.Call.Args) != 2 {
		return nil, nil, false
	}
	if _, seen := minOK[sc]; !seen {
		good, _ := c.IsMinSelect(sc)
		minOK[sc] = good
	}
	if !minOK[sc] {
		return nil, nil, false
	}
	return call.Call.Args[0], call.Call.Args[1], true
}

// evaluatedFrom: v is the result of evaluating the AST field key ("SourceCapped.Cap").
func (c *Ctx) evaluatedFrom(v ssa.Value, fn *ssa.Function, key string) bool {
	v = core.Strip(v)
	// follow a phi introduced by a clamp (cap = zero on the negative edge)
	if ph, ok := v.(*ssa.Phi); ok {
		okAny := false
		for _, e := range ph.Edges {
			if c.evaluatedFrom(e, fn, key) {
				okAny = true
				continue
			}
			if _, isConst := constSign(cellKey(e)); isConst {
				continue
			}
			return false
		}
		return okAny
	}
	ex, ok := v.(*ssa.Extract)
	if !ok || ex.Index != 0 {
		return false
	}
	call, ok := ex.Tuple.(*ssa.Call)
	if !ok || len(call.Call.Args) < 2 {
		return false
	}
	sc := call.Call.StaticCallee()
	if sc == nil || sc.Origin() == nil && sc.Name() != "evaluateExprAs" {
		if sc == nil {
			return false
		}
	}
	keys := c.exprKeys(call.Call.Args[1], fn, map[ssa.Value]bool{}, 0)
	return keys[key]
}

// CapRules (C04.3 / C05.3): below a `max` node the amount handed on is the smaller of the
// incoming amount and the evaluated cap (fixed-amount draw, ordered destination), or the cap
// itself (send-all); the clamp at zero is the sign rule's business.
func (c *Ctx) CapRules(ob *core.Obligation, fixedDraw, sendAll, receive *ssa.Function) {
	src := c.P.Named("internal/parser", "Source")
	dst := c.P.Named("internal/parser", "Destination")
	minOK := map[*ssa.Function]bool{}
	// fixed draw, capped arm
	if fixedDraw != nil && src != nil {
		c.Touch(fixedDraw)
		key := "cap:" + core.SSAName(fixedDraw) + ":SourceCapped"
		entry := clauseEntries(fixedDraw, src)["SourceCapped"]
		amtIdx := bigParamIndex(fixedDraw)
		if entry == nil || amtIdx < 0 {
			ob.Fail(key, c.P.Pos(fixedDraw.Pos()), "no arm for capped sources / no amount parameter in the fixed-amount draw")
		} else {
			n := 0
			// the arm itself, or a helper of the package the arm hands its amount to
			type site struct {
				fn     *ssa.Function
				entry  *ssa.BasicBlock
				needed ssa.Value
			}
			sites := []site{{fixedDraw, entry, fixedDraw.Params[amtIdx]}}
			for _, call := range callsIn(fixedDraw, entry, func(sc *ssa.Function) bool {
				return sc != fixedDraw && len(sc.Blocks) > 0 && relOfFn(sc) == relOfFn(fixedDraw) && len(clauseEntries(sc, src)) <= 1
			}) {
				sc := call.Call.StaticCallee()
				for ai, a := range call.Call.Args {
					if a == ssa.Value(fixedDraw.Params[amtIdx]) && ai < len(sc.Params) {
						sites = append(sites, site{sc, sc.Blocks[0], sc.Params[ai]})
						c.Touch(sc)
					}
				}
			}
			for _, st := range sites {
				for _, call := range callsIn(st.fn, st.entry, func(sc *ssa.Function) bool { return sc == fixedDraw }) {
					n++
					arg := call.Call.Args[amtIdx]
					a, b, isMin := c.minCallOperands(writerOrSelf(arg), minOK)
					switch {
					case !isMin:
						ob.Fail(key, c.P.Pos(call.Pos()), "the amount drawn below a max cap is not the result of a (verified) minimum of the needed amount and the cap")
					case (a == st.needed && c.evaluatedFrom(b, st.fn, "SourceCapped.Cap")) || (b == st.needed && c.evaluatedFrom(a, st.fn, "SourceCapped.Cap")):
						ob.Pass(key, c.P.Pos(call.Pos()), "sub-draw amount = min(needed amount, evaluated cap)")
					default:
						ob.Fail(key, c.P.Pos(call.Pos()), "the minimum below a max cap is not taken between the needed amount and the cap of this very node")
					}
				}
			}
			if n == 0 {
				ob.Fail(key, c.P.Pos(firstPos(entry)), "the capped arm does not draw from its sub-source")
			}
		}
	}
	// send-all, capped arm: switches to the fixed draw with the cap as amount
	if sendAll != nil && fixedDraw != nil && src != nil {
		c.Touch(sendAll)
		key := "cap:" + core.SSAName(sendAll) + ":SourceCapped"
		entry := clauseEntries(sendAll, src)["SourceCapped"]
		amtIdx := bigParamIndex(fixedDraw)
		if entry == nil {
			ob.Fail(key, c.P.Pos(sendAll.Pos()), "no arm for capped sources in the send-all draw")
		} else {
			n := 0
			for _, call := range callsIn(sendAll, entry, func(sc *ssa.Function) bool { return sc == fixedDraw }) {
				n++
				if c.evaluatedFrom(call.Call.Args[amtIdx], sendAll, "SourceCapped.Cap") {
					ob.Pass(key, c.P.Pos(call.Pos()), "below a max cap, send-all draws up to the evaluated cap with the fixed-amount traversal")
				} else {
					ob.Fail(key, c.P.Pos(call.Pos()), "below a max cap, send-all does not draw up to the cap of this node")
				}
			}
			if n == 0 {
				ob.Fail(key, c.P.Pos(firstPos(entry)), "the capped arm of send-all does not switch to the bounded draw: everything would be taken regardless of the cap")
			}
		}
	}
	// ordered destination: each clause receives min(cap, remaining)
	if receive != nil && dst != nil {
		c.Touch(receive)
		key := "cap:" + core.SSAName(receive) + ":DestinationInorder"
		entry := clauseEntries(receive, dst)["DestinationInorder"]
		if entry == nil {
			ob.Fail(key, c.P.Pos(receive.Pos()), "no arm for ordered destinations")
			return
		}
		found := false
		type region struct {
			fn    *ssa.Function
			entry *ssa.BasicBlock
		}
		regions := []region{{receive, entry}}
		// helpers of the package the arm delegates to (not the traversal itself)
		for i := 0; i < len(regions) && len(regions) < 6; i++ {
			rg := regions[i]
			for _, b := range rg.fn.Blocks {
				if rg.entry != nil && !rg.entry.Dominates(b) {
					continue
				}
				for _, in := range b.Instrs {
					call, ok := in.(*ssa.Call)
					if !ok {
						continue
					}
					sc := call.Call.StaticCallee()
					if sc == nil || sc == receive || len(sc.Blocks) == 0 || relOfFn(sc) != relOfFn(receive) || len(clauseEntries(sc, dst)) > 1 {
						continue
					}
					dup := false
					for _, r2 := range regions {
						if r2.fn == sc {
							dup = true
						}
					}
					if !dup {
						regions = append(regions, region{sc, nil})
					}
				}
			}
		}
		for _, rg := range regions {
			for _, b := range rg.fn.Blocks {
				if rg.entry != nil && !rg.entry.Dominates(b) {
					continue
				}
				for _, in := range b.Instrs {
					call, ok := in.(*ssa.Call)
					if !ok {
						continue
					}
					for _, arg := range call.Call.Args {
						if !isBigPtrStd(arg.Type()) {
							continue
						}
						a, bb, isMin := c.minCallOperands(arg, minOK)
						if !isMin {
							continue
						}
						if c.evaluatedFrom(a, rg.fn, "DestinationInorderClause.Cap") || c.evaluatedFrom(bb, rg.fn, "DestinationInorderClause.Cap") {
							found = true
							c.Touch(rg.fn)
							ob.Pass(key, c.P.Pos(call.Pos()), "each clause is handed min(its cap, what is left)")
						}
					}
				}
			}
		}
		if !found {
			ob.Fail(key, c.P.Pos(firstPos(entry)), "no clause of an ordered destination is handed the (verified) minimum of its cap and the remaining amount")
		}
	}
}

func bigParamIndex(fn *ssa.Function) int {
	for i, p := range fn.Params {
		if isBigPtrStd(p.Type()) {
			return i
		}
	}
	return -1
}

// callsIn: static calls satisfying pred in the blocks dominated by entry.
func callsIn(fn *ssa.Function, entry *ssa.BasicBlock, pred func(*ssa.Function) bool) []*ssa.Call {
	var out []*ssa.Call
	for _, b := range fn.Blocks {
		if !entry.Dominates(b) {
			continue
		}
		for _, in := range b.Instrs {
			if call, ok := in.(*ssa.Call); ok {
				if sc := call.Call.StaticCallee(); sc != nil && pred(sc) {
					out = append(out, call)
				}
			}
		}
	}
	return out
}

// writerOrSelf: for a value that is a fresh cell written by exactly one call, that call.
func writerOrSelf(v ssa.Value) ssa.Value { return core.Strip(v) }

// ---------- C01.1 / C01.3 balance origin ----------

// BalanceBoundsDraws: at every call of the sender push from a draw helper, the amount is
// either (a) selected under the unbounded gate (grant == nil), or (b) bounded by
// balance(account)+grant where the balance is read for the very account pushed, by a reader
// that also takes into account what this statement already drew (pending senders).
func (c *Ctx) BalanceBoundsDraws(ob *core.Obligation, r *Roles) {
	if r == nil {
		return
	}
	minOK := map[*ssa.Function]bool{}
	n := 0
	for _, fn := range c.P.ModuleFunctions() {
		if relOfFn(fn) != "internal/interpreter" || fn == r.PushSender.Fn {
			continue
		}
		for _, b := range fn.Blocks {
			for _, in := range b.Instrs {
				call, ok := in.(*ssa.Call)
				if !ok || call.Call.StaticCallee() != r.PushSender.Fn {
					continue
				}
				n++
				c.Touch(fn)
				key := "balance-origin:" + core.SSAName(fn)
				name := call.Call.Args[r.PushSender.NameIdx]
				amt := call.Call.Args[r.PushSender.AmtIdx]
				pc := core.NewPathConds(fn)
				why := c.boundedByBalance(amt, name, fn, b, pc, r, minOK, 0)
				if why == "" {
					ob.Pass(key, c.P.Pos(call.Pos()), "the amount drawn is bounded by balance(account)+grant for the account debited (pending draws included), or taken under the unbounded gate")
				} else {
					ob.Fail(key, c.P.Pos(call.Pos()), why)
				}
			}
		}
	}
	if n == 0 {
		ob.Unknown("balance-origin:none", "-", "no call of the sender push found")
	}
}

func (c *Ctx) boundedByBalance(v, name ssa.Value, fn *ssa.Function, b *ssa.BasicBlock, pc *core.PathConds, r *Roles, minOK map[*ssa.Function]bool, d int) string {
	if d > 8 {
		return "amount of unknown origin"
	}
	v = core.Strip(v)
	switch x := v.(type) {
	case *ssa.Phi:
		for i, e := range x.Edges {
			pred := x.Block().Preds[i]
			// alternative taken under the unbounded gate?
			if c.underNilGate(pred, x.Block(), fn, pc) {
				continue
			}
			if why := c.boundedByBalance(e, name, fn, pred, pc, r, minOK, d+1); why != "" {
				return why
			}
		}
		return ""
	case *ssa.Call:
		if a, bb, isMin := c.minCallOperands(x, minOK); isMin {
			if c.boundedByBalance(a, name, fn, b, pc, r, minOK, d+1) == "" || c.boundedByBalance(bb, name, fn, b, pc, r, minOK, d+1) == "" {
				return ""
			}
			return "neither operand of the minimum is balance+grant of the account debited"
		}
		// the balance of the account debited itself (a fresh copy handed out by the reader, to
		// which the grant is then added in place)
		if c.isBalanceOf(x, name, r) {
			return ""
		}
		if tn, m := core.BigMethod(&x.Call); tn == "Int" {
			args := core.CallArgs(&x.Call)
			switch m {
			case "Add":
				if c.isBalanceOf(args[1], name, r) || c.isBalanceOf(args[2], name, r) {
					return ""
				}
				return "the sum that bounds the draw does not contain the balance of the account debited (" + core.ShortVal(x) + ")"
			case "Set":
				if c.underNilGate(b, nil, fn, pc) {
					return ""
				}
				return c.boundedByBalance(args[1], name, fn, b, pc, r, minOK, d+1)
			}
		}
		// a helper of the module that computes the amount: every value it returns is judged
		// in the helper, with the account name mapped to the corresponding parameter
		if sc := x.Call.StaticCallee(); sc != nil && c.P.InModule(sc) && len(sc.Blocks) > 0 && sc != fn && isBigPtrStd(x.Type()) {
			var pname ssa.Value
			for ai, a := range x.Call.Args {
				if ai < len(sc.Params) && core.Canon(a) == core.Canon(name) {
					pname = sc.Params[ai]
				}
			}
			if pname != nil {
				c.Touch(sc)
				pc2 := core.NewPathConds(sc)
				for _, ret := range core.Returns(sc) {
					if len(ret.Results) == 0 {
						continue
					}
					if why := c.boundedByBalance(ret.Results[0], pname, sc, ret.Block(), pc2, r, minOK, d+2); why != "" {
						return why + " (in " + sc.Name() + ")"
					}
				}
				return ""
			}
		}
		return "amount computed by " + core.ShortVal(x) + ", not bounded by a balance"
	case *ssa.Alloc:
		// a fresh number: look at its writers
		var adds, others []*ssa.Call
		if x.Referrers() != nil {
			for _, ref := range *x.Referrers() {
				call, ok := ref.(*ssa.Call)
				if !ok {
					continue
				}
				tn, m := core.BigMethod(&call.Call)
				if tn == "" || bigReadersOnly[m] || core.CallArgs(&call.Call)[0] != x {
					continue
				}
				if m == "Add" {
					adds = append(adds, call)
				} else {
					others = append(others, call)
				}
			}
		}
		for _, o := range others {
			_, m := core.BigMethod(&o.Call)
			args := core.CallArgs(&o.Call)
			if m == "Set" {
				if _, isConst := constSign(cellKey(args[1])); isConst {
					continue // clamp to a constant
				}
				if c.underNilGate(o.Block(), nil, fn, pc) {
					continue
				}
				if why := c.boundedByBalance(args[1], name, fn, o.Block(), pc, r, minOK, d+1); why != "" {
					return why
				}
				continue
			}
			return "the amount is rewritten by big.Int." + m + " at " + c.P.Pos(o.Pos())
		}
		if len(adds) == 0 && len(others) == 0 {
			return "amount of unknown origin"
		}
		for _, a := range adds {
			args := core.CallArgs(&a.Call)
			if !c.isBalanceOf(args[1], name, r) && !c.isBalanceOf(args[2], name, r) {
				return "the sum that bounds the draw does not contain the balance of the account debited"
			}
		}
		return ""
	}
	return "amount of unknown origin (" + core.ShortVal(v) + ")"
}

// isBalanceOf: v is a call to a balance reader whose account argument is the same value as
// name, and the reader takes pending senders into account.
func (c *Ctx) isBalanceOf(v, name ssa.Value, r *Roles) bool {
	call, ok := core.Strip(v).(*ssa.Call)
	if !ok {
		return false
	}
	sc := call.Call.StaticCallee()
	if sc == nil || !r.IsBalanceReader(sc) {
		return false
	}
	same := false
	for _, a := range call.Call.Args {
		if core.Canon(a) == core.Canon(name) {
			same = true
		}
	}
	return same
}

// underNilGate: the block (or the edge pred->succ) is only reached when a *big.Int parameter
// (or its world-merged phi) is nil: the unbounded-overdraft gate.
func (c *Ctx) underNilGate(pred, succ *ssa.BasicBlock, fn *ssa.Function, pc *core.PathConds) bool {
	p := func(l core.Lit) bool {
		bo, ok := l.Cond.(*ssa.BinOp)
		if !ok || (bo.Op != token.EQL && bo.Op != token.NEQ) {
			return false
		}
		// the account is @world, which is unbounded whatever grant it was given
		if k, ok := core.ConstString(bo.Y); ok && k == "world" {
			return (bo.Op == token.EQL) == l.Val
		}
		if k, ok := core.ConstString(bo.X); ok && k == "world" {
			return (bo.Op == token.EQL) == l.Val
		}
		var other ssa.Value
		if core.IsNilConst(bo.Y) {
			other = bo.X
		} else if core.IsNilConst(bo.X) {
			other = bo.Y
		} else {
			return false
		}
		if !isBigPtrStd(other.Type()) {
			return false
		}
		isGate := false
		for _, prm := range fn.Params {
			if valueIsParamOrNilPhi(other, prm) {
				isGate = true
			}
		}
		return isGate && (bo.Op == token.EQL) == l.Val
	}
	if succ != nil {
		return pc.EdgeRequires(pred, succ, p)
	}
	return pc.Requires(pred, p)
}

// ReaderSeesPending (C01.3): every balance reader used to bound a draw reads the pending senders.
func (c *Ctx) ReaderSeesPending(ob *core.Obligation, r *Roles) {
	if r == nil {
		return
	}
	n := 0
	for _, fn := range c.P.ModuleFunctions() {
		if relOfFn(fn) != "internal/interpreter" {
			continue
		}
		pushes := false
		for _, ci := range core.Calls(fn) {
			if ci.Common().StaticCallee() == r.PushSender.Fn {
				pushes = true
			}
		}
		if !pushes {
			continue
		}
		for _, ci := range core.Calls(fn) {
			sc := ci.Common().StaticCallee()
			if sc == nil || !r.IsBalanceReader(sc) {
				continue
			}
			n++
			c.Touch(fn)
			key := "pending:" + core.SSAName(fn)
			if r.readsField(sc, r.SendersF, 0) {
				ob.Pass(key, c.P.Pos(ci.Pos()), "the balance used to bound the draw ("+sc.Name()+") subtracts what this statement already drew from the account")
			} else {
				ob.Fail(key, c.P.Pos(ci.Pos()), "the draw is bounded by the cached balance only ("+sc.Name()+"): an account named twice in one source can be drawn twice beyond its balance, the cache being updated only when the statement completes")
			}
		}
	}
	if n == 0 {
		ob.Unknown("pending:none", "-", "no balance read in a draw helper found")
	}
}

// SendAllGate (C01.2 / C04.5): in a helper that pushes balance+grant without a minimum (the
// send-all account helper) the push is unreachable for @world and for a nil (unbounded) grant.
func (c *Ctx) SendAllGate(ob *core.Obligation, r *Roles, helper *ssa.Function) {
	if r == nil || helper == nil {
		return
	}
	c.Touch(helper)
	pc := core.NewPathConds(helper)
	key := "sendall-gate:" + core.SSAName(helper)
	n := 0
	for _, b := range helper.Blocks {
		for _, in := range b.Instrs {
			call, ok := in.(*ssa.Call)
			if !ok || call.Call.StaticCallee() != r.PushSender.Fn {
				continue
			}
			n++
			name := call.Call.Args[r.PushSender.NameIdx]
			notWorld := pc.Requires(b, func(l core.Lit) bool { return StringNeqConst(l, "world", name) })
			notNil := pc.Requires(b, func(l core.Lit) bool {
				bo, ok := l.Cond.(*ssa.BinOp)
				if !ok || (bo.Op != token.EQL && bo.Op != token.NEQ) {
					return false
				}
				var other ssa.Value
				if core.IsNilConst(bo.Y) {
					other = bo.X
				} else if core.IsNilConst(bo.X) {
					other = bo.Y
				} else {
					return false
				}
				_, isParam := other.(*ssa.Parameter)
				return isParam && isBigPtrStd(other.Type()) && (bo.Op == token.NEQ) == l.Val
			})
			switch {
			case !notWorld:
				ob.Fail(key, c.P.Pos(call.Pos()), "send-all can take 'everything' from @world: the push is not excluded for the world account")
			case !notNil:
				ob.Fail(key, c.P.Pos(call.Pos()), "send-all can take 'everything' from an account with unbounded overdraft: the push is not excluded for a nil grant")
			default:
				ob.Pass(key, c.P.Pos(call.Pos()), "rejected for @world and for an unbounded grant before anything is pushed")
			}
		}
	}
	if n == 0 {
		ob.Unknown(key, c.P.Pos(helper.Pos()), "no push found in the send-all account helper")
	}
}

// ---------- C01.4 / C09.1 postings applied to the cache ----------

func (c *Ctx) PostingsAppliedToCache(ob *core.Obligation, r *Roles) {
	if r == nil {
		return
	}
	n := 0
	for _, fn := range c.P.ModuleFunctions() {
		if relOfFn(fn) != "internal/interpreter" {
			continue
		}
		var rec *ssa.Call
		for _, ci := range core.Calls(fn) {
			if call, ok := ci.(*ssa.Call); ok {
				if sc := call.Call.StaticCallee(); sc != nil && sc != fn && c.IsReconciler(sc, r) {
					if rec == nil {
						rec = call
					}
				}
			}
		}
		if rec == nil {
			continue
		}
		n++
		c.Touch(fn)
		key := "apply-postings:" + core.SSAName(fn)
		var subOK, addOK bool
		bad := ""
		var applier *ssa.Function
		var applierHead *ssa.BasicBlock
		var applierCall *ssa.Call
		// the loop over the reconciler's result
		var head *ssa.BasicBlock
		for _, b := range fn.Blocks {
			if iff, ok := b.Instrs[len(b.Instrs)-1].(*ssa.If); ok && isRangeCond(iff.Cond) {
				bo := iff.Cond.(*ssa.BinOp)
				if lc, ok := core.Strip(bo.Y).(*ssa.Call); ok && len(lc.Call.Args) == 1 {
					if ex, ok := lc.Call.Args[0].(*ssa.Extract); ok && ex.Tuple == rec {
						head = b
					}
				}
			}
		}
		// the whole loop may live in a helper that is handed the list of postings
		if head == nil {
			for _, ci := range core.Calls(fn) {
				call, ok := ci.(*ssa.Call)
				if !ok {
					continue
				}
				sc := call.Call.StaticCallee()
				if sc == nil || sc == fn || len(sc.Blocks) == 0 || relOfFn(sc) != "internal/interpreter" {
					continue
				}
				for ai, a := range call.Call.Args {
					ex, isEx := a.(*ssa.Extract)
					if !isEx || ex.Tuple != ssa.Value(rec) || ex.Index != 0 || ai >= len(sc.Params) {
						continue
					}
					// the helper's loop over that parameter, passed on every path of the helper
					for _, hb := range sc.Blocks {
						iff, ok := hb.Instrs[len(hb.Instrs)-1].(*ssa.If)
						if !ok || !isRangeCond(iff.Cond) {
							continue
						}
						bo := iff.Cond.(*ssa.BinOp)
						if lc, ok := core.Strip(bo.Y).(*ssa.Call); ok && len(lc.Call.Args) == 1 && lc.Call.Args[0] == ssa.Value(sc.Params[ai]) && blockOnEveryPath(sc, hb) {
							applier, applierHead, applierCall = sc, hb, call
						}
					}
				}
			}
		}
		// the body may be a helper that is handed the posting, called on every iteration
		subst := map[ssa.Value]ssa.Value{}
		pf := func(v ssa.Value) *types.Var {
			if a, ok := subst[core.Strip(v)]; ok {
				return postingFieldOf(a)
			}
			return postingFieldOf(v)
		}
		var scan []ssa.CallInstruction
		if applier != nil {
			c.Touch(applier)
			for _, c2 := range core.Calls(applier) {
				if applierHead.Dominates(c2.Block()) {
					scan = append(scan, c2)
				}
			}
			scan = append(scan, c.perPostingHelperCalls(applier, applierHead, subst, r)...)
		}
		scan = append(scan, core.Calls(fn)...)
		if head != nil {
			scan = append(scan, c.perPostingHelperCalls(fn, head, subst, r)...)
		}
		if false {
			for _, ci := range core.Calls(fn) {
				sc := ci.Common().StaticCallee()
				if sc == nil || sc == fn || len(sc.Blocks) == 0 || relOfFn(sc) != "internal/interpreter" {
					continue
				}
				takesPosting := false
				for _, prm := range sc.Params {
					if typeShort(derefT(prm.Type())) == "Posting" {
						takesPosting = true
					}
				}
				// on every iteration: in the loop, and not under any condition other than the loop's own
				if !takesPosting || !head.Dominates(ci.Block()) || !core.ReachableAvoiding(ci.Block(), head, nil) {
					continue
				}
				if ci.Block() != head.Succs[0] && core.ReachableAvoiding(head.Succs[0], head, map[*ssa.BasicBlock]bool{ci.Block(): true}) {
					continue
				}
				c.Touch(sc)
				for _, c2 := range core.Calls(sc) {
					if sc.Blocks[0].Dominates(c2.Block()) && blockOnEveryPath(sc, c2.Block()) {
						scan = append(scan, c2)
					}
				}
			}
		}
		for _, ci := range scan {
			call, ok := ci.(*ssa.Call)
			if !ok {
				continue
			}
			tn, m := core.BigMethod(&call.Call)
			if tn != "Int" || (m != "Sub" && m != "Add") {
				continue
			}
			args := core.CallArgs(&call.Call)
			rd, ok := core.Strip(args[0]).(*ssa.Call)
			if !ok || rd.Call.StaticCallee() == nil || !r.IsBalanceReader(rd.Call.StaticCallee()) {
				continue
			}
			var who, asset, amount bool
			var whoF *types.Var
			for _, a := range rd.Call.Args {
				if f := pf(a); f == r.PostSrc || f == r.PostDst {
					who, whoF = true, f
				} else if f == r.PostAsset {
					asset = true
				}
			}
			if f := pf(args[2]); f == r.PostAmt {
				amount = true
			}
			if !who || !asset || !amount || cellKey(args[1]) != cellKey(args[0]) {
				continue
			}
			switch {
			case m == "Sub" && whoF == r.PostSrc:
				subOK = true
			case m == "Add" && whoF == r.PostDst:
				addOK = true
			default:
				bad = "the balance of a posting's " + whoF.Name() + " is moved the wrong way (" + m + ") at " + c.P.Pos(call.Pos())
			}
		}
		// every success return is dominated by the loop over the reconciler's result
		loopOK := true
		if head == nil && applierCall != nil {
			// the helper call must precede every successful return
			ei := errIndex(fn.Signature)
			for _, ret := range core.Returns(fn) {
				if ei >= 0 && core.IsNilConst(ret.Results[ei]) && !applierCall.Block().Dominates(ret.Block()) {
					loopOK = false
				}
			}
		} else if head == nil {
			loopOK = false
		} else {
			ei := errIndex(fn.Signature)
			for _, ret := range core.Returns(fn) {
				if ei >= 0 && core.IsNilConst(ret.Results[ei]) && !head.Dominates(ret.Block()) {
					loopOK = false
				}
			}
		}
		switch {
		case bad != "":
			ob.Fail(key, c.P.Pos(rec.Pos()), bad)
		case !subOK:
			ob.Fail(key, c.P.Pos(rec.Pos()), "the amount of a posting is not subtracted from the cached balance of its source (same asset): a later statement could spend the money again")
		case !addOK:
			ob.Fail(key, c.P.Pos(rec.Pos()), "the amount of a posting is not added to the cached balance of its destination (same asset): money received earlier in the script could not be spent later")
		case !loopOK:
			ob.Fail(key, c.P.Pos(rec.Pos()), "the cache is not updated by a loop over all the postings of the statement before every successful return")
		default:
			ob.Pass(key, c.P.Pos(rec.Pos()), "every posting of the statement is applied to the cache: source -= amount, destination += amount, in the posting's asset, before the statement returns")
		}
	}
	if n == 0 {
		ob.Unknown("apply-postings:none", "-", "no function that reconciles and applies postings found")
	}
}

// perPostingHelperCalls: the calls made by helpers of the package that are handed one posting
// on every iteration of the loop headed by head in fn (each call lying on every path of its
// helper).
func (c *Ctx) perPostingHelperCalls(fn *ssa.Function, head *ssa.BasicBlock, subst map[ssa.Value]ssa.Value, r *Roles) []ssa.CallInstruction {
	var out []ssa.CallInstruction
	for _, ci := range core.Calls(fn) {
		sc := ci.Common().StaticCallee()
		if sc == nil || sc == fn || len(sc.Blocks) == 0 || relOfFn(sc) != "internal/interpreter" {
			continue
		}
		takesPosting := false
		for _, prm := range sc.Params {
			if typeShort(derefT(prm.Type())) == "Posting" {
				takesPosting = true
			}
		}
		// or it is handed the fields of the posting one by one
		for ai, a := range ci.Common().Args {
			if f := postingFieldOf(a); f != nil && r != nil && (f == r.PostSrc || f == r.PostDst || f == r.PostAmt || f == r.PostAsset) && ai < len(sc.Params) {
				takesPosting = true
				if subst != nil {
					subst[sc.Params[ai]] = a
				}
			}
		}
		// on every iteration: in the loop, and not under any condition other than the loop's own
		if !takesPosting || !head.Dominates(ci.Block()) || !core.ReachableAvoiding(ci.Block(), head, nil) {
			continue
		}
		if ci.Block() != head.Succs[0] && core.ReachableAvoiding(head.Succs[0], head, map[*ssa.BasicBlock]bool{ci.Block(): true}) {
			continue
		}
		c.Touch(sc)
		for _, c2 := range core.Calls(sc) {
			if sc.Blocks[0].Dominates(c2.Block()) && blockOnEveryPath(sc, c2.Block()) {
				out = append(out, c2)
			}
		}
	}
	return out
}

// blockOnEveryPath: every path from the entry of fn to a return passes through b.
func blockOnEveryPath(fn *ssa.Function, b *ssa.BasicBlock) bool {
	avoid := map[*ssa.BasicBlock]bool{b: true}
	if b == fn.Blocks[0] {
		return true
	}
	for _, ret := range core.Returns(fn) {
		if ret.Block() == b {
			continue
		}
		if core.ReachableAvoiding(fn.Blocks[0], ret.Block(), avoid) {
			return false
		}
	}
	return true
}

func returnsPostings(fn *ssa.Function) bool {
	if fn == nil || fn.Signature.Results().Len() == 0 {
		return false
	}
	s, ok := fn.Signature.Results().At(0).Type().Underlying().(*types.Slice)
	return ok && typeShort(s.Elem()) == "Posting"
}

func buildsPostings(fn *ssa.Function, r *Roles) bool {
	for _, b := range fn.Blocks {
		for _, in := range b.Instrs {
			if st, ok := in.(*ssa.Store); ok && core.FieldOf(st.Addr) == r.PostAmt {
				return true
			}
		}
	}
	return false
}

// postingFieldOf: v is (a load of) a field of a Posting value.
func postingFieldOf(v ssa.Value) *types.Var {
	v = core.Strip(v)
	switch x := v.(type) {
	case *ssa.Field:
		return core.FieldOf(x)
	case *ssa.UnOp:
		if x.Op == token.MUL {
			return core.FieldOf(x.X)
		}
	}
	return nil
}

var _ = fmt.Sprint
var _ = strings.Join
