package rules

import (
	"go/token"
	"go/types"
	"strings"

	"nsa/core"

	"golang.org/x/tools/go/ssa"
)

// SeverityIs: the Severity method of each named diagnostic kind returns the named constant.
func (c *Ctx) SeverityIs(ob *core.Obligation, want map[string]string) {
	pkg := c.P.Pkg("internal/analysis")
	if pkg == nil {
		ob.Unknown("anchor:analysis", "-", "package not found")
		return
	}
	for _, tn := range keysOf(want) {
		key := "severity:" + tn
		k, ok := pkg.Types.Scope().Lookup(want[tn]).(*types.Const)
		f := c.P.LookupFunc("internal/analysis", "(*"+tn+").Severity")
		if !ok || f == nil {
			ob.Unknown(key, "-", "diagnostic kind or severity constant not found")
			continue
		}
		sf := c.P.SSAFunc(f)
		c.Touch(sf)
		good := sf != nil
		if sf != nil {
			for _, ret := range core.Returns(sf) {
				kc, isC := ret.Results[0].(*ssa.Const)
				if !isC || kc.Value == nil || kc.Value.ExactString() != k.Val().ExactString() {
					good = false
				}
			}
		}
		if good {
			ob.Pass(key, c.P.Pos(f.Pos()), tn+" has severity "+want[tn])
		} else {
			ob.Fail(key, c.P.Pos(f.Pos()), tn+".Severity() does not return "+want[tn]+": the CLI exit status and the 'no error' premise of the run-time guarantee no longer see it")
		}
	}
}

// errorKinds: diagnostic kind type names whose Severity() returns the error constant.
func (c *Ctx) errorKinds() map[string]bool {
	out := map[string]bool{}
	pkg := c.P.Pkg("internal/analysis")
	if pkg == nil {
		return out
	}
	k, ok := pkg.Types.Scope().Lookup("ErrorSeverity").(*types.Const)
	if !ok {
		return out
	}
	for _, name := range pkg.Types.Scope().Names() {
		tn, ok := pkg.Types.Scope().Lookup(name).(*types.TypeName)
		if !ok {
			continue
		}
		f := c.P.LookupFunc("internal/analysis", "(*"+tn.Name()+").Severity")
		if f == nil {
			continue
		}
		sf := c.P.SSAFunc(f)
		if sf == nil {
			continue
		}
		all := true
		for _, ret := range core.Returns(sf) {
			kc, isC := ret.Results[0].(*ssa.Const)
			if !isC || kc.Value == nil || kc.Value.ExactString() != k.Val().ExactString() {
				all = false
			}
		}
		if all {
			out[tn.Name()] = true
		}
	}
	return out
}

// checkerSourceFn: the checker function with the type switch over parser.Source.
func (c *Ctx) checkerSwitchFn(ob *core.Obligation, sumName string) *ssa.Function {
	for _, sw := range c.Switches() {
		if relOf(sw) == "internal/analysis" && sw.Sum.Iface.Obj().Name() == sumName && sw.Func != nil {
			if sig, ok := sw.Func.Type().(*types.Signature); ok && sig.Recv() != nil {
				if _, tn := core.RecvNamed(sw.Func); tn == "CheckResult" {
					return c.P.SSAFunc(sw.Func)
				}
			}
		}
	}
	ob.Unknown("anchor:checker-"+sumName+"-switch", "-", "no CheckResult method with a type switch over "+sumName)
	return nil
}

// OverdraftSendAllConditional (C16.2): in the checker's arm for SourceOverdraft every
// error-severity diagnostic about the send-all shape is created only under Bounded == nil.
func (c *Ctx) OverdraftSendAllConditional(ob *core.Obligation) {
	fn := c.checkerSwitchFn(ob, "Source")
	if fn == nil {
		return
	}
	c.Touch(fn)
	src := c.P.Named("internal/parser", "Source")
	entry := clauseEntries(fn, src)["SourceOverdraft"]
	if entry == nil {
		ob.Unknown("sendall:SourceOverdraft", "-", "no arm for SourceOverdraft in "+fn.Name())
		return
	}
	errKinds := c.errorKinds()
	n := 0
	type region struct {
		fn    *ssa.Function
		entry *ssa.BasicBlock
	}
	regions := []region{{fn, entry}}
	// a helper of the package the arm hands the node to (not a traversal over the sources)
	for _, call := range callsIn(fn, entry, func(sc *ssa.Function) bool {
		return sc != fn && len(sc.Blocks) > 0 && relOfFn(sc) == relOfFn(fn) && len(clauseEntries(sc, src)) <= 1
	}) {
		for _, prm := range call.Call.StaticCallee().Params {
			if typeShort(derefT(prm.Type())) == "SourceOverdraft" {
				regions = append(regions, region{call.Call.StaticCallee(), nil})
				c.Touch(call.Call.StaticCallee())
			}
		}
	}
	for _, rg := range regions {
		fn, entry := rg.fn, rg.entry
		pc := core.NewPathConds(fn)
		for _, b := range fn.Blocks {
			if entry != nil && !entry.Dominates(b) {
				continue
			}
			for _, in := range b.Instrs {
				al, ok := in.(*ssa.Alloc)
				if !ok {
					continue
				}
				tn := typeShort(derefT(al.Type()))
				if !errKinds[tn] || tn == "TypeMismatch" || tn == "UnboundVariable" {
					continue
				}
				n++
				key := "sendall:SourceOverdraft:" + tn
				ok2 := pc.Requires(b, func(l core.Lit) bool {
					f, is := nilFieldLiteral(l, "SourceOverdraft")
					return is && f == "Bounded"
				})
				if ok2 {
					ob.Pass(key, c.P.Pos(al.Pos()), "error diagnostic emitted only for an unbounded overdraft, which the interpreter rejects in send-all mode")
				} else {
					ob.Fail(key, c.P.Pos(al.Pos()), "the error diagnostic "+tn+" is emitted for every overdraft source, but the interpreter accepts a bounded overdraft in send-all mode (balance + overdraft): a script that runs is reported as erroneous")
				}
			}
		}
	}
	if n == 0 {
		ob.Pass("sendall:SourceOverdraft:none", c.P.Pos(firstPos(entry)), "no error-severity diagnostic in the overdraft arm")
	}
}

// SendAllRejectionsDiagnosed (C17.4): every Source kind whose send-all arm can reject (return
// an error literal, directly or in the account helper it calls) has, in the checker's arm for
// that kind, a diagnostic emission conditional on the send-all flag.
func (c *Ctx) SendAllRejectionsDiagnosed(ob *core.Obligation) {
	ir := c.IRoles(ob)
	if ir == nil || ir.SendAll == nil {
		return
	}
	sendAll := ir.SendAll
	chk := c.checkerSwitchFn(ob, "Source")
	if chk == nil {
		return
	}
	c.Touch(sendAll)
	c.Touch(chk)
	src := c.P.Named("internal/parser", "Source")
	rEntries := clauseEntries(sendAll, src)
	kEntries := clauseEntries(chk, src)
	flagF := c.P.Field("internal/analysis", "CheckResult", "unboundedSend")
	diagF := c.P.Field("internal/analysis", "CheckResult", "Diagnostics")
	if flagF == nil || diagF == nil {
		ob.Unknown("anchor:analysis.CheckResult.unboundedSend", "-", "checker state fields not found")
		return
	}
	for _, kind := range sortedBlockKeys(rEntries) {
		entry := rEntries[kind]
		rejects := false
		for _, b := range sendAll.Blocks {
			if !entry.Dominates(b) {
				continue
			}
			for _, in := range b.Instrs {
				switch x := in.(type) {
				case *ssa.Return:
					if rejectingReturn(x, sendAll) {
						rejects = true
					}
				case *ssa.Call:
					if sc := x.Call.StaticCallee(); sc != nil && c.P.InModule(sc) && sc != sendAll && relOfFn(sc) == "internal/interpreter" {
						if _, isTraversal := clauseEntries(sc, src)["SourceAccount"]; isTraversal {
							continue // switching to the fixed-amount traversal (capped sources)
						}
						for _, ret := range core.Returns(sc) {
							if rejectingReturn(ret, sc) && strings.Contains(typeShort(rejectType(ret, sc)), "SendAll") {
								rejects = true
							}
						}
					}
				}
			}
		}
		if !rejects {
			continue
		}
		key := "sendall-diag:" + kind
		kentry := kEntries[kind]
		if kentry == nil {
			ob.Fail(key, c.P.Pos(chk.Pos()), "the interpreter rejects "+kind+" sources in send-all mode but the checker has no arm for that kind")
			continue
		}
		found := c.diagUnderFlag(chk, kentry, diagF, flagF, src, false, 0)
		if found {
			ob.Pass(key, c.P.Pos(firstPos(kentry)), "a diagnostic is emitted for "+kind+" under the send-all flag")
		} else {
			ob.Fail(key, c.P.Pos(firstPos(kentry)), "the interpreter can reject a "+kind+" source in send-all mode, but the checker's arm for it emits no diagnostic conditional on the send-all flag: nothing reported, yet the run fails on the shape of the source")
		}
	}
}

// diagUnderFlag: in the blocks of fn dominated by entry (the whole function when entry is nil)
// a diagnostic is appended on a path that requires the flag field to be true; helper methods
// called from the region (not the traversal functions over the sum) are followed.
func (c *Ctx) diagUnderFlag(fn *ssa.Function, entry *ssa.BasicBlock, diagF, flagF *types.Var, sum *types.Named, underFlag bool, depth int) bool {
	if fn == nil || len(fn.Blocks) == 0 || depth > 3 {
		return false
	}
	pc := core.NewPathConds(fn)
	isFlag := func(l core.Lit) bool {
		ld, ok := l.Cond.(*ssa.UnOp)
		return ok && ld.Op == token.MUL && core.FieldOf(ld.X) == flagF && l.Val
	}
	for _, b := range fn.Blocks {
		if entry != nil && !entry.Dominates(b) {
			continue
		}
		for _, in := range b.Instrs {
			switch x := in.(type) {
			case *ssa.Store:
				if core.FieldOf(x.Addr) == diagF && (underFlag || pc.Requires(b, isFlag)) {
					return true
				}
			case *ssa.Call:
				sc := x.Call.StaticCallee()
				if sc == nil || sc == fn || !c.P.InModule(sc) || relOfFn(sc) != relOfFn(fn) {
					continue
				}
				if len(clauseEntries(sc, sum)) > 1 {
					continue // a traversal over the sum: its arms are judged on their own
				}
				if c.diagUnderFlag(sc, nil, diagF, flagF, sum, underFlag || pc.Requires(b, isFlag), depth+1) {
					return true
				}
			}
		}
	}
	return false
}

func sortedBlockKeys(m map[string]*ssa.BasicBlock) []string {
	var out []string
	for k := range m {
		out = append(out, k)
	}
	sortStrings(out)
	return out
}

// rejectingReturn: a return whose error operand is a freshly built error literal.
func rejectingReturn(ret *ssa.Return, fn *ssa.Function) bool {
	return rejectType(ret, fn) != nil
}

func rejectType(ret *ssa.Return, fn *ssa.Function) types.Type {
	ei := errIndex(fn.Signature)
	if ei < 0 || ei >= len(ret.Results) {
		return nil
	}
	mi, ok := ret.Results[ei].(*ssa.MakeInterface)
	if !ok {
		return nil
	}
	// an error value built on the spot: a struct literal (possibly the zero literal, a constant)
	if _, isStruct := mi.X.Type().Underlying().(*types.Struct); !isStruct {
		return nil
	}
	switch x := mi.X.(type) {
	case *ssa.Const:
		return mi.X.Type()
	case *ssa.UnOp:
		if _, isAlloc := x.X.(*ssa.Alloc); isAlloc {
			return mi.X.Type()
		}
	}
	return nil
}

// NameBookkeeping (C16.3 / C19.7).
func (c *Ctx) NameBookkeeping(ob *core.Obligation) {
	declF := c.P.Field("internal/analysis", "CheckResult", "declaredVars")
	unusedF := c.P.Field("internal/analysis", "CheckResult", "unusedVars")
	resF := c.P.Field("internal/analysis", "CheckResult", "varResolution")
	if declF == nil || unusedF == nil || resF == nil {
		ob.Unknown("anchor:analysis.CheckResult.declaredVars", "-", "symbol-table fields not found")
		return
	}
	isLoadOf := func(v ssa.Value, f *types.Var) bool {
		ld, ok := v.(*ssa.UnOp)
		return ok && ld.Op == token.MUL && core.FieldOf(ld.X) == f
	}
	// the ok component of a comma-ok lookup in the map field f
	lookupOK := func(l core.Lit, f *types.Var) (*ssa.Lookup, bool, bool) {
		ex, ok := l.Cond.(*ssa.Extract)
		if !ok || ex.Index != 1 {
			return nil, false, false
		}
		lk, ok := ex.Tuple.(*ssa.Lookup)
		if !ok || !lk.CommaOk || !isLoadOf(lk.X, f) {
			return nil, false, false
		}
		return lk, l.Val, true
	}
	nUnbound, nRes, nDup, nUnused := 0, 0, 0, 0
	for _, fn := range c.P.ModuleFunctions() {
		if relOfFn(fn) != "internal/analysis" {
			continue
		}
		var pcs *core.PathConds
		pc := func() *core.PathConds {
			if pcs == nil {
				pcs = core.NewPathConds(fn)
			}
			return pcs
		}
		name := core.SSAName(fn)
		for _, b := range fn.Blocks {
			for _, in := range b.Instrs {
				switch x := in.(type) {
				case *ssa.Alloc:
					switch typeShort(derefT(x.Type())) {
					case "UnboundVariable":
						nUnbound++
						c.Touch(fn)
						key := "names:unbound:" + name
						var lk *ssa.Lookup
						miss := pc().Requires(b, func(l core.Lit) bool {
							k, val, ok := lookupOK(l, declF)
							if ok && !val {
								lk = k
							}
							return ok && !val
						})
						if !miss || lk == nil {
							ob.Fail(key, c.P.Pos(x.Pos()), "the 'not declared' diagnostic is not confined to the edge where the lookup in the declared variables missed: declared variables would be reported (or undeclared ones not)")
							continue
						}
						// the name reported is the name looked up
						stored := fieldStoredInto(x, "Name")
						if stored == nil || core.Canon(stored) != core.Canon(lk.Index) {
							ob.Fail(key, c.P.Pos(x.Pos()), "the name placed in the diagnostic is not the name that was looked up")
							continue
						}
						// the name leaves the unused set on both edges: a delete keyed by the same name, not guarded by the lookup
						if why := c.deleteOnBothEdges(fn, pc(), unusedF, lk, declF, lookupOK); why != "" {
							ob.Fail(key, c.P.Pos(x.Pos()), why)
							continue
						}
						ob.Pass(key, c.P.Pos(x.Pos()), "created on the lookup-miss edge for the name looked up; the name leaves the unused set on both edges")
					case "DuplicateVariable":
						nDup++
						c.Touch(fn)
						key := "names:duplicate:" + name
						var lk *ssa.Lookup
						hit := pc().Requires(b, func(l core.Lit) bool {
							k, val, ok := lookupOK(l, declF)
							if ok && val {
								lk = k
							}
							return ok && val
						})
						if !hit || lk == nil {
							ob.Fail(key, c.P.Pos(x.Pos()), "the duplicate-declaration diagnostic is not confined to the edge where the name was already declared")
							continue
						}
						// on the miss edge the name enters both maps under the same key
						okDecl, okUnused := false, false
						for _, b2 := range fn.Blocks {
							for _, in2 := range b2.Instrs {
								mu, ok := in2.(*ssa.MapUpdate)
								if !ok || core.Canon(mu.Key) != core.Canon(lk.Index) {
									continue
								}
								onMiss := pc().Requires(b2, func(l core.Lit) bool {
									k, val, ok := lookupOK(l, declF)
									return ok && !val && k == lk
								})
								if isLoadOf(mu.Map, declF) && onMiss {
									okDecl = true
								}
								if isLoadOf(mu.Map, unusedF) && onMiss {
									okUnused = true
								}
							}
						}
						if !okDecl || !okUnused {
							ob.Fail(key, c.P.Pos(x.Pos()), "a first declaration does not enter both the declared set and the unused set under its own name")
							continue
						}
						ob.Pass(key, c.P.Pos(x.Pos()), "reported on the already-declared edge; first declarations enter declared and unused sets under the same name")
					case "UnusedVar":
						nUnused++
						c.Touch(fn)
						key := "names:unused:" + name
						// inside a loop over the unused set, after which no traversal call can follow... i.e. no traversal call is reachable from the loop
						inLoop := false
						for _, b2 := range fn.Blocks {
							for _, in2 := range b2.Instrs {
								if rg, ok := in2.(*ssa.Range); ok && isLoadOf(rg.X, unusedF) && b2.Dominates(b) {
									inLoop = true
									// no call that can delete from / add to the unused set is reachable after the loop started
									for _, b3 := range fn.Blocks {
										if !core.ReachableAvoiding(b2, b3, nil) || b3 == b2 {
											continue
										}
										for _, in3 := range b3.Instrs {
											if call, ok := in3.(*ssa.Call); ok {
												if sc := call.Call.StaticCallee(); sc != nil && c.P.InModule(sc) && c.touchesField(sc, unusedF, 0, map[*ssa.Function]bool{}) {
													inLoop = false
												}
											}
										}
									}
								}
							}
						}
						if inLoop {
							ob.Pass(key, c.P.Pos(x.Pos()), "produced by a loop over the unused set that runs after every declaration and statement was traversed")
						} else {
							ob.Fail(key, c.P.Pos(x.Pos()), "unused-variable diagnostics are not produced by a final loop over the unused set (a later use would not clear them, or the loop runs before the traversal)")
						}
					}
				case *ssa.MapUpdate:
					if !isLoadOf(x.Map, resF) {
						continue
					}
					nRes++
					c.Touch(fn)
					key := "names:resolution:" + name
					var lk *ssa.Lookup
					hit := pc().Requires(b, func(l core.Lit) bool {
						k, val, ok := lookupOK(l, declF)
						if ok && val {
							lk = k
						}
						return ok && val
					})
					switch {
					case !hit || lk == nil:
						ob.Fail(key, c.P.Pos(x.Pos()), "a variable use is resolved outside the edge where its name was found among the declarations")
					case !extractOf(x.Value, lk):
						ob.Fail(key, c.P.Pos(x.Pos()), "the declaration recorded for the use is not the one found by the lookup")
					case !isFieldLoadOf(lk.Index, x.Key, "Name"):
						ob.Fail(key, c.P.Pos(x.Pos()), "the resolution is recorded under a node other than the one whose name was looked up")
					case leavesUnresolved(fn, lk, b):
						ob.Fail(key, c.P.Pos(x.Pos()), "after its name was found among the declarations, a use can leave the checker without the resolution having been recorded (an early return comes first): hover and go-to-definition then find nothing for that use")
					default:
						ob.Pass(key, c.P.Pos(x.Pos()), "use -> declaration recorded on the hit edge, for the node whose own name was looked up")
					}
				}
			}
		}
	}
	if nUnbound == 0 || nRes == 0 || nDup == 0 || nUnused == 0 {
		ob.Unknown("names:sites", "-", "bookkeeping sites not all found (unbound/resolution/duplicate/unused)")
	}
}

// fieldStoredInto: the value stored into field name of the struct allocated by al.
func fieldStoredInto(al *ssa.Alloc, name string) ssa.Value {
	if al.Referrers() == nil {
		return nil
	}
	for _, r := range *al.Referrers() {
		fa, ok := r.(*ssa.FieldAddr)
		if !ok {
			continue
		}
		if f := core.FieldOf(fa); f == nil || f.Name() != name || fa.Referrers() == nil {
			continue
		}
		for _, r2 := range *fa.Referrers() {
			if st, ok := r2.(*ssa.Store); ok && st.Addr == fa {
				return st.Val
			}
		}
	}
	return nil
}

// leavesUnresolved: from the edge on which the lookup succeeded, some return is reachable
// without passing the block that records the resolution.
func leavesUnresolved(fn *ssa.Function, lk *ssa.Lookup, rec *ssa.BasicBlock) bool {
	var hit *ssa.BasicBlock
	if lk.Referrers() != nil {
		for _, r := range *lk.Referrers() {
			ex, ok := r.(*ssa.Extract)
			if !ok || ex.Index != 1 || ex.Referrers() == nil {
				continue
			}
			for _, r2 := range *ex.Referrers() {
				if iff, ok := r2.(*ssa.If); ok {
					hit = iff.Block().Succs[0]
				}
			}
		}
	}
	if hit == nil {
		return false
	}
	avoid := map[*ssa.BasicBlock]bool{rec: true}
	for _, ret := range core.Returns(fn) {
		if ret.Block() == rec {
			continue
		}
		if hit.Dominates(ret.Block()) && core.ReachableAvoiding(hit, ret.Block(), avoid) {
			return true
		}
	}
	return false
}

func extractOf(v ssa.Value, lk *ssa.Lookup) bool {
	ex, ok := resolveLocal(v).(*ssa.Extract)
	return ok && ex.Tuple == lk && ex.Index == 0
}

// isFieldLoadOf: v is the load of field name of the node value base.
func isFieldLoadOf(v ssa.Value, base ssa.Value, name string) bool {
	ld, ok := v.(*ssa.UnOp)
	if !ok || ld.Op != token.MUL {
		return false
	}
	fa, ok := ld.X.(*ssa.FieldAddr)
	if !ok {
		return false
	}
	f := core.FieldOf(fa)
	return f != nil && f.Name() == name && fa.X == base
}

// deleteOnBothEdges: the function deletes the looked-up name from the set in field setF at a
// point that is reached whether or not the lookup succeeded.
func (c *Ctx) deleteOnBothEdges(fn *ssa.Function, pc *core.PathConds, setF *types.Var, lk *ssa.Lookup, declF *types.Var,
	lookupOK func(core.Lit, *types.Var) (*ssa.Lookup, bool, bool)) string {
	for _, b := range fn.Blocks {
		for _, in := range b.Instrs {
			call, ok := in.(*ssa.Call)
			if !ok {
				continue
			}
			bi, ok := call.Call.Value.(*ssa.Builtin)
			if !ok || bi.Name() != "delete" {
				continue
			}
			ld, ok := call.Call.Args[0].(*ssa.UnOp)
			if !ok || core.FieldOf(ld.X) != setF {
				continue
			}
			if core.Canon(call.Call.Args[1]) != core.Canon(lk.Index) {
				continue
			}
			// must not be conditional on the lookup result
			cond := false
			for _, term := range pc.At(b) {
				for _, l := range term {
					if k, _, ok := lookupOK(l, declF); ok && k == lk {
						cond = true
					}
				}
			}
			if !cond && lk.Block().Dominates(b) {
				return ""
			}
		}
	}
	return "the used name is not removed from the unused set on both edges of the lookup (an undeclared/declared use would leave or produce a wrong 'never used' report)"
}

// touchesField: fn (transitively, within the module) writes or deletes from the map field f.
func (c *Ctx) touchesField(fn *ssa.Function, f *types.Var, depth int, seen map[*ssa.Function]bool) bool {
	if depth > 6 || seen[fn] || fn.Blocks == nil {
		return false
	}
	seen[fn] = true
	for _, b := range fn.Blocks {
		for _, in := range b.Instrs {
			switch x := in.(type) {
			case *ssa.MapUpdate:
				if ld, ok := x.Map.(*ssa.UnOp); ok && core.FieldOf(ld.X) == f {
					return true
				}
			case *ssa.Call:
				if bi, ok := x.Call.Value.(*ssa.Builtin); ok && bi.Name() == "delete" {
					if ld, ok := x.Call.Args[0].(*ssa.UnOp); ok && core.FieldOf(ld.X) == f {
						return true
					}
				}
				if sc := x.Call.StaticCallee(); sc != nil && c.P.InModule(sc) && c.touchesField(sc, f, depth+1, seen) {
					return true
				}
			}
		}
	}
	return false
}
