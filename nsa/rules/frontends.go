package rules

import (
	"go/token"
	"go/types"
	"strings"

	"nsa/core"

	"golang.org/x/tools/go/ssa"
)

// ---------- helpers ----------

// rootAlloc follows field/index addressing and loads back to a local variable.
func rootAlloc(v ssa.Value) *ssa.Alloc {
	for i := 0; i < 12; i++ {
		switch x := v.(type) {
		case *ssa.Alloc:
			return x
		case *ssa.FieldAddr:
			v = x.X
		case *ssa.IndexAddr:
			v = x.X
		case *ssa.UnOp:
			v = x.X
		case *ssa.Field:
			v = x.X
		case *ssa.ChangeType:
			v = x.X
		case *ssa.Convert:
			v = x.X
		case *ssa.MakeInterface:
			v = x.X
		default:
			return nil
		}
	}
	return nil
}

// rootOf follows field/index addressing and loads back to the value they start from: a local
// variable (or the one value it was initialised with), a call result or a parameter.
func rootOf(v ssa.Value) ssa.Value {
	for i := 0; i < 14; i++ {
		switch x := v.(type) {
		case *ssa.Alloc:
			if st := onlyStore(x); st != nil {
				switch sv := st.Val.(type) {
				case *ssa.Call, *ssa.Parameter:
					return st.Val
				case *ssa.UnOp, *ssa.Field:
					// a local copy of part of another value
					v = sv
					continue
				}
			}
			return x
		case *ssa.Call, *ssa.Parameter:
			return v
		case *ssa.FieldAddr:
			v = x.X
		case *ssa.IndexAddr:
			v = x.X
		case *ssa.UnOp:
			v = x.X
		case *ssa.Field:
			v = x.X
		case *ssa.ChangeType:
			v = x.X
		case *ssa.Convert:
			v = x.X
		case *ssa.MakeInterface:
			v = x.X
		default:
			return nil
		}
	}
	return nil
}

// fieldPath returns the field names selected from the root ("TextDocument.URI").
func fieldPath(v ssa.Value) string {
	var parts []string
	for i := 0; i < 12; i++ {
		switch x := v.(type) {
		case *ssa.FieldAddr:
			if f := core.FieldOf(x); f != nil {
				parts = append([]string{f.Name()}, parts...)
			}
			v = x.X
		case *ssa.Field:
			if f := core.FieldOf(x); f != nil {
				parts = append([]string{f.Name()}, parts...)
			}
			v = x.X
		case *ssa.IndexAddr:
			parts = append([]string{"[]"}, parts...)
			v = x.X
		case *ssa.UnOp:
			v = x.X
		case *ssa.ChangeType:
			v = x.X
		case *ssa.Convert:
			v = x.X
		case *ssa.Alloc:
			// a local copy of part of another value
			if st := onlyStore(x); st != nil {
				switch st.Val.(type) {
				case *ssa.UnOp, *ssa.Field:
					v = st.Val
					continue
				}
			}
			return strings.Join(parts, ".")
		default:
			return strings.Join(parts, ".")
		}
	}
	return strings.Join(parts, ".")
}

// paramRoot: v is (a field path of) parameter p of fn (possibly spilled to a local).
func paramRoot(v ssa.Value, fn *ssa.Function) *ssa.Parameter {
	for i := 0; i < 12; i++ {
		switch x := v.(type) {
		case *ssa.Parameter:
			return x
		case *ssa.Alloc:
			if st := onlyStore(x); st != nil {
				switch sv := st.Val.(type) {
				case *ssa.Parameter:
					return sv
				case *ssa.UnOp, *ssa.Field:
					v = sv // a local copy of part of another value
					continue
				}
			}
			return nil
		case *ssa.FieldAddr:
			v = x.X
		case *ssa.Field:
			v = x.X
		case *ssa.UnOp:
			v = x.X
		case *ssa.ChangeType:
			v = x.X
		case *ssa.Convert:
			v = x.X
		default:
			return nil
		}
	}
	return nil
}

func isOsExit(call *ssa.CallCommon) (int64, bool) {
	if core.IsFunc(core.CalleeObj(call), "os", "Exit") {
		k, ok := core.ConstInt(call.Args[0])
		return k, ok
	}
	return 0, false
}

// exitBlocks: blocks of fn that call os.Exit with a non-zero constant, or a helper of the
// module every path of which ends in such a call.
func exitBlocks(fn *ssa.Function) map[*ssa.BasicBlock]bool {
	return exitBlocksD(fn, 0)
}

func exitBlocksD(fn *ssa.Function, depth int) map[*ssa.BasicBlock]bool {
	out := map[*ssa.BasicBlock]bool{}
	for _, ci := range core.Calls(fn) {
		if _, isCall := ci.(*ssa.Call); !isCall {
			continue // deferred / go calls do not end the path here
		}
		if k, ok := isOsExit(ci.Common()); ok && k != 0 {
			out[ci.Block()] = true
			continue
		}
		if sc := ci.Common().StaticCallee(); sc != nil && sc != fn && len(sc.Blocks) > 0 && depth < 2 && alwaysExits(sc, depth+1) {
			out[ci.Block()] = true
		}
	}
	return out
}

// alwaysExits: no return of fn is reachable from its entry without passing a non-zero exit.
func alwaysExits(fn *ssa.Function, depth int) bool {
	ex := exitBlocksD(fn, depth)
	if len(ex) == 0 {
		return false
	}
	if ex[fn.Blocks[0]] {
		return true
	}
	for _, ret := range core.Returns(fn) {
		if core.ReachableAvoiding(fn.Blocks[0], ret.Block(), ex) {
			return false
		}
	}
	return true
}

// mustExitFrom: every path from b ends in os.Exit(non-zero) before the function can return.
func mustExitFrom(fn *ssa.Function, b *ssa.BasicBlock) bool {
	ex := exitBlocks(fn)
	if len(ex) == 0 {
		return false
	}
	for _, ret := range core.Returns(fn) {
		if core.ReachableAvoiding(b, ret.Block(), ex) {
			// reaching the return block itself is fine if the exit call is in that very block before the return
			return false
		}
	}
	return true
}

// ---------- C20 ----------

// cmdCaller: the function of the CLI package that calls the named library entry point.
func (c *Ctx) cmdCaller(rel, name string) *ssa.Function {
	for _, fn := range c.P.ModuleFunctions() {
		if relOfFn(fn) != "internal/cmd" {
			continue
		}
		for _, ci := range core.Calls(fn) {
			if o := core.CalleeObj(ci.Common()); o != nil && o.Name() == name && o.Pkg() != nil {
				if r, _ := core.Rel(o.Pkg()); r == rel {
					return fn
				}
			}
		}
	}
	return nil
}

// withCmdCallees: fn and the functions of its package it calls, transitively (bounded).
func (c *Ctx) withCmdCallees(fn *ssa.Function) []*ssa.Function {
	out := []*ssa.Function{fn}
	seen := map[*ssa.Function]bool{fn: true}
	for i := 0; i < len(out) && len(out) < 40; i++ {
		for _, ci := range core.Calls(out[i]) {
			sc := ci.Common().StaticCallee()
			if sc != nil && !seen[sc] && len(sc.Blocks) > 0 && relOfFn(sc) == relOfFn(fn) {
				seen[sc] = true
				out = append(out, sc)
			}
		}
	}
	return out
}

// CLICheckExitStatus (C20.1 + C20.2).
func (c *Ctx) CLICheckExitStatus(ob *core.Obligation) {
	fn := c.cmdCaller("internal/analysis", "CheckSource")
	if fn == nil {
		ob.Unknown("anchor:cmd.check", "-", "CLI check function not found")
		return
	}
	c.Touch(fn)
	pc := core.NewPathConds(fn)
	// the error count: a call of GetErrorsCount on the result of CheckSource(text of the file)
	var count *ssa.Call
	for _, ci := range core.Calls(fn) {
		if call, ok := ci.(*ssa.Call); ok {
			if o := core.CalleeObj(&call.Call); o != nil && o.Name() == "GetErrorsCount" {
				count = call
			}
		}
	}
	key := "cli-check:exit"
	if count == nil {
		ob.Fail(key, c.P.Pos(fn.Pos()), "the exit status is not derived from the checker's error count")
		return
	}
	// receiver derives from CheckSource(...)
	fromCheck := false
	if al := rootAlloc(core.CallArgs(&count.Call)[0]); al != nil {
		for _, r := range *al.Referrers() {
			if st, ok := r.(*ssa.Store); ok && st.Addr == al {
				if call, ok := st.Val.(*ssa.Call); ok {
					if o := core.CalleeObj(&call.Call); o != nil && o.Name() == "CheckSource" {
						fromCheck = true
					}
				}
			}
		}
	}
	if !fromCheck {
		ob.Fail(key, c.P.Pos(count.Pos()), "the error count is not taken from the result of analysing the file")
		return
	}
	isCountNonZero := func(l core.Lit) (bool, bool) {
		bo, ok := l.Cond.(*ssa.BinOp)
		if !ok || bo.X != count {
			return false, false
		}
		k, ok := core.ConstInt(bo.Y)
		if !ok || k != 0 {
			return false, false
		}
		switch bo.Op {
		case token.NEQ, token.GTR:
			return true, l.Val
		case token.EQL, token.LEQ:
			return true, !l.Val
		}
		return false, false
	}
	n := 0
	for _, ci := range core.Calls(fn) {
		k, ok := isOsExit(ci.Common())
		if !ok {
			continue
		}
		n++
		if k == 0 {
			continue
		}
		good := pc.Requires(ci.Block(), func(l core.Lit) bool {
			is, nz := isCountNonZero(l)
			return is && nz
		})
		if !good {
			ob.Fail(key, c.P.Pos(ci.Pos()), "a non-zero exit is reachable although the file has no error-severity diagnostic (not conditional on error count != 0)")
			return
		}
	}
	// the error edge always exits non-zero
	exited := false
	for _, b := range fn.Blocks {
		iff, ok := b.Instrs[len(b.Instrs)-1].(*ssa.If)
		if !ok {
			continue
		}
		if is, nzOnTrue := isCountNonZero(core.Lit{Cond: iff.Cond, Val: true}); is {
			succ := b.Succs[0]
			if !nzOnTrue {
				succ = b.Succs[1]
			}
			if mustExitFrom(fn, succ) {
				exited = true
			} else {
				ob.Fail(key, c.P.Pos(iff.Pos()), "with at least one error-severity diagnostic some path returns without a non-zero exit status")
				return
			}
		}
	}
	if !exited {
		ob.Fail(key, c.P.Pos(fn.Pos()), "no branch on 'error count != 0' leading to a non-zero exit found")
		return
	}
	ob.Pass(key, c.P.Pos(count.Pos()), "os.Exit(non-zero) is executed exactly on the edge where the checker's error count is non-zero")

	// GetErrorsCount counts the diagnostics whose severity equals the error constant
	gec := c.P.SSAFunc(c.P.LookupFunc("internal/analysis", "CheckResult.GetErrorsCount"))
	key2 := "cli-check:count"
	if gec == nil {
		ob.Unknown(key2, "-", "GetErrorsCount not found")
	} else {
		c.Touch(gec)
		okCmp, okLoop := false, false
		pkg := c.P.Pkg("internal/analysis")
		want := ""
		if k, ok := pkg.Types.Scope().Lookup("ErrorSeverity").(*types.Const); ok {
			want = k.Val().ExactString()
		}
		for _, b := range gec.Blocks {
			for _, in := range b.Instrs {
				if bo, ok := in.(*ssa.BinOp); ok && bo.Op == token.EQL {
					if call, ok := bo.X.(*ssa.Call); ok && call.Call.IsInvoke() && call.Call.Method.Name() == "Severity" {
						if k, ok := bo.Y.(*ssa.Const); ok && k.Value != nil && k.Value.ExactString() == want {
							okCmp = true
						}
					}
				}
				if iff, ok := in.(*ssa.If); ok && isRangeCond(iff.Cond) {
					okLoop = true
				}
			}
		}
		if okCmp && okLoop {
			ob.Pass(key2, c.P.Pos(gec.Pos()), "counts, over all diagnostics, those whose Severity() equals ErrorSeverity")
		} else {
			ob.Fail(key2, c.P.Pos(gec.Pos()), "the error count is not 'number of diagnostics whose Severity() == ErrorSeverity'")
		}
	}
	// every diagnostic is printed with line, character and message
	key3 := "cli-check:print"
	var hasLine, hasChar, hasMsg, inLoop bool
	for _, pf := range c.withCmdCallees(fn) {
		for _, b := range pf.Blocks {
			for _, in := range b.Instrs {
				switch x := in.(type) {
				case *ssa.UnOp:
					if f := core.FieldOf(x.X); f != nil && isPositionField(f) {
						if f.Name() == "Line" {
							hasLine = true
						} else {
							hasChar = true
						}
					}
				case *ssa.Field:
					if f := core.FieldOf(x); f != nil && isPositionField(f) {
						if f.Name() == "Line" {
							hasLine = true
						} else {
							hasChar = true
						}
					}
				case *ssa.Call:
					if x.Call.IsInvoke() && x.Call.Method.Name() == "Message" {
						hasMsg = true
					}
				case *ssa.If:
					if isRangeCond(x.Cond) {
						inLoop = true
					}
				}
			}
		}
	}
	if hasLine && hasChar && hasMsg && inLoop {
		ob.Pass(key3, c.P.Pos(fn.Pos()), "each diagnostic is printed with its start line, character and message in a loop over the diagnostics")
	} else {
		ob.Fail(key3, c.P.Pos(fn.Pos()), "diagnostics are not all printed with line, character and message")
	}
}

// CLIRunPassThrough (C20.3 - C20.5).
func (c *Ctx) CLIRunPassThrough(ob *core.Obligation) {
	fn := c.cmdCaller("internal/interpreter", "RunProgram")
	if fn == nil {
		ob.Unknown("anchor:cmd.run", "-", "CLI run function not found")
		return
	}
	c.Touch(fn)
	var parse, runp *ssa.Call
	var parseVia *ssa.Call // the call, in fn, of the helper that parses (nil: parsed in fn itself)
	isParse := func(o types.Object) bool {
		rel, _ := core.Rel(o.Pkg())
		return o.Name() == "Parse" && rel == "internal/parser"
	}
	for _, ci := range core.Calls(fn) {
		if call, ok := ci.(*ssa.Call); ok {
			if o := core.CalleeObj(&call.Call); o != nil {
				rel, _ := core.Rel(o.Pkg())
				if isParse(o) {
					parse = call
				}
				if o.Name() == "RunProgram" && rel == "internal/interpreter" {
					runp = call
				}
			}
		}
	}
	if parse == nil {
		for _, site := range c.callsThroughHelpers(fn, isParse) {
			if site.via != nil {
				if pcall, ok := site.call.(*ssa.Call); ok {
					parse, parseVia = pcall, site.via
				}
			}
		}
	}
	if parse == nil || runp == nil {
		ob.Fail("cli-run:calls", c.P.Pos(fn.Pos()), "the run command does not parse and execute through the library entry points")
		return
	}
	// the script that is parsed, seen from fn
	script := parse.Call.Args[0]
	if parseVia != nil {
		script = helperSite{call: parse, via: parseVia, helper: parse.Parent()}.actual(script)
	}
	// the parse result, seen from fn: the call itself, or the call of the helper that returns it
	parseRes := ssa.Value(parse)
	if parseVia != nil {
		parseRes = parseVia
		good := false
		for _, ret := range core.Returns(parse.Parent()) {
			if len(ret.Results) > 0 && rootOf(ret.Results[0]) == ssa.Value(parse) && fieldPath(ret.Results[0]) == "" {
				good = true
			}
		}
		if !good {
			ob.Fail("cli-run:inputs", c.P.Pos(parseVia.Pos()), "the helper that parses the script does not hand back the parse result")
			return
		}
	}
	// inputs: one options value
	optRoot := rootOf(script)
	keyIn := "cli-run:inputs"
	okIn := optRoot != nil && fieldPath(script) == "Script"
	why := "the script parsed is not the Script field of the decoded input"
	if okIn {
		// program = Value of that parse result
		if rootOf(runp.Call.Args[1]) != parseRes || !strings.HasSuffix(fieldPath(runp.Call.Args[1]), "Value") {
			okIn, why = false, "the program executed is not the value of the parse result"
		}
		if okIn && (rootOf(runp.Call.Args[2]) != optRoot || fieldPath(runp.Call.Args[2]) != "Variables") {
			okIn, why = false, "the variables passed to the library are not the Variables of the decoded input"
		}
	}
	if okIn {
		ob.Pass(keyIn, c.P.Pos(runp.Pos()), "script, program and variables all come from the one decoded input value")
	} else {
		ob.Fail(keyIn, c.P.Pos(runp.Pos()), why)
	}
	// every input channel fills that one value: in fn, or in the helper that builds and returns it
	keyCh := "cli-run:channels"
	nCh := 0
	chFn, chRoot := fn, optRoot
	if rc, ok := optRoot.(*ssa.Call); ok {
		if sc := rc.Call.StaticCallee(); sc != nil && len(sc.Blocks) > 0 && relOfFn(sc) == relOfFn(fn) {
			for _, ret := range core.Returns(sc) {
				if len(ret.Results) > 0 {
					if al := rootAlloc(ret.Results[0]); al != nil {
						chFn, chRoot = sc, al
						c.Touch(sc)
					}
				}
			}
		}
	}
	for _, ci := range core.Calls(chFn) {
		if call, ok := ci.(*ssa.Call); ok {
			if sc := call.Call.StaticCallee(); sc != nil && len(call.Call.Args) > 0 && rootOf(call.Call.Args[0]) == chRoot && relOfFn(sc) == relOfFn(fn) && sc.Signature.Recv() != nil {
				nCh++
			}
		}
	}
	if nCh >= 3 {
		ob.Pass(keyCh, c.P.Pos(fn.Pos()), "the raw, file-flag and stdin channels all decode into the same input value")
	} else {
		ob.Fail(keyCh, c.P.Pos(fn.Pos()), "not all three input channels fill the input value that is executed")
	}
	// errors: stderr + exit
	keyErr := "cli-run:error-exit"
	var errv ssa.Value
	for _, r := range *runp.Referrers() {
		if ex, ok := r.(*ssa.Extract); ok && ex.Index == 1 {
			errv = ex
		}
	}
	okErr := false
	if errv != nil {
		for _, r := range *errv.Referrers() {
			bo, ok := r.(*ssa.BinOp)
			if !ok || bo.Referrers() == nil {
				continue
			}
			for _, r2 := range *bo.Referrers() {
				if iff, ok := r2.(*ssa.If); ok {
					nonNil := iff.Block().Succs[0]
					if bo.Op == token.EQL {
						nonNil = iff.Block().Succs[1]
					}
					printed := false
					for _, b := range fn.Blocks {
						if !nonNil.Dominates(b) {
							continue
						}
						for _, in := range b.Instrs {
							call, ok := in.(*ssa.Call)
							if !ok {
								continue
							}
							if call.Call.IsInvoke() && call.Call.Method.Name() == "Error" && call.Call.Value == errv {
								printed = true
							}
							if sc := call.Call.StaticCallee(); sc != nil && len(sc.Blocks) > 0 && relOfFn(sc) == "internal/cmd" {
								for ai, a := range call.Call.Args {
									if a != errv || ai >= len(sc.Params) {
										continue
									}
									for _, c2 := range core.Calls(sc) {
										if cc := c2.Common(); cc.IsInvoke() && cc.Method.Name() == "Error" && cc.Value == sc.Params[ai] && sc.Blocks[0].Dominates(c2.Block()) {
											printed = true
											c.Touch(sc)
										}
									}
								}
							}
						}
					}
					if printed && mustExitFrom(fn, nonNil) {
						okErr = true
					}
				}
			}
		}
	}
	if okErr {
		ob.Pass(keyErr, c.P.Pos(runp.Pos()), "a library error is rendered with Error() and every path then exits non-zero")
	} else {
		ob.Fail(keyErr, c.P.Pos(runp.Pos()), "when the library returns an error the command does not print its message and exit non-zero on every path")
	}
	// parse errors exit too
	keyPE := "cli-run:parse-error-exit"
	okPE := false
	peFn := fn
	if parseVia != nil {
		peFn = parse.Parent() // the helper must exit before it returns the result
	}
	for _, b := range peFn.Blocks {
		iff, ok := b.Instrs[len(b.Instrs)-1].(*ssa.If)
		if !ok {
			continue
		}
		if bo, ok := iff.Cond.(*ssa.BinOp); ok && (bo.Op == token.NEQ || bo.Op == token.GTR) {
			if lc, ok := core.Strip(bo.X).(*ssa.Call); ok && isLenCall(lc) && strings.HasSuffix(fieldPath(lc.Call.Args[0]), "Errors") {
				if mustExitFrom(peFn, b.Succs[0]) && (peFn != fn || !b.Succs[0].Dominates(runp.Block())) {
					okPE = true
				}
			}
		}
	}
	if okPE {
		ob.Pass(keyPE, c.P.Pos(parse.Pos()), "parse errors end in a non-zero exit before anything is executed")
	} else {
		ob.Fail(keyPE, c.P.Pos(parse.Pos()), "a script with parse errors is not rejected with a non-zero exit before execution")
	}
	// JSON output: the library's own result is marshalled and written to stdout
	keyJ := "cli-run:json"
	var resv ssa.Value
	for _, r := range *runp.Referrers() {
		if ex, ok := r.(*ssa.Extract); ok && ex.Index == 0 {
			resv = ex
		}
	}
	okJ := false
	whyJ := "JSON mode does not hand the library's result to the JSON printer"
	// the values the result pointer flows to: the call result and the parameters it is passed as
	flow := []ssa.Value{}
	if resv != nil {
		flow = append(flow, resv)
	}
	for i := 0; i < len(flow) && len(flow) < 12; i++ {
		v := flow[i]
		if v.Referrers() == nil {
			continue
		}
		for _, r := range *v.Referrers() {
			call, ok := r.(*ssa.Call)
			if !ok {
				continue
			}
			sc := call.Call.StaticCallee()
			if sc == nil || !c.P.InModule(sc) || len(sc.Blocks) == 0 {
				continue
			}
			for ai, a := range call.Call.Args {
				if a == v && ai < len(sc.Params) {
					flow = append(flow, sc.Params[ai])
				}
			}
		}
	}
	for _, v := range flow {
		pa, ok := v.(*ssa.Parameter)
		if !ok {
			continue
		}
		sc := pa.Parent()
		// inside: json.Marshal(param) -> os.Stdout.Write(bytes)
		var marsh *ssa.Call
		for _, c2 := range core.Calls(sc) {
			if m, ok := c2.(*ssa.Call); ok && core.IsFunc(core.CalleeObj(&m.Call), "encoding/json", "Marshal") {
				if mi, ok := m.Call.Args[0].(*ssa.MakeInterface); ok && mi.X == ssa.Value(pa) {
					marsh = m
				}
			}
		}
		if marsh == nil {
			continue
		}
		c.Touch(sc)
		for _, c2 := range core.Calls(sc) {
			w, ok := c2.(*ssa.Call)
			if !ok {
				continue
			}
			if o := core.CalleeObj(&w.Call); o != nil && o.Name() == "Write" {
				args := core.CallArgs(&w.Call)
				if ex, ok := args[len(args)-1].(*ssa.Extract); ok && ex.Tuple == marsh && ex.Index == 0 {
					if ld, ok := args[0].(*ssa.UnOp); ok {
						if g, ok := ld.X.(*ssa.Global); ok && g.Name() == "Stdout" {
							okJ = true
						}
					}
				}
			}
		}
		if !okJ {
			whyJ = "the JSON printer does not write exactly json.Marshal(result) to standard output"
		}
	}
	// no store through the result pointer between the run and the print
	if okJ {
		for _, v := range flow {
			if v.Referrers() == nil {
				continue
			}
			for _, r := range *v.Referrers() {
				if fa, ok := r.(*ssa.FieldAddr); ok && fieldAddrWrittenTo(fa) {
					okJ, whyJ = false, "a field of the library's result is rewritten before it is printed"
				}
			}
		}
	}
	if okJ {
		ob.Pass(keyJ, c.P.Pos(runp.Pos()), "JSON mode writes json.Marshal of the very value the library returned to stdout")
	} else {
		ob.Fail(keyJ, c.P.Pos(runp.Pos()), whyJ)
	}
}

func fieldAddrWrittenTo(fa *ssa.FieldAddr) bool {
	if fa.Referrers() == nil {
		return false
	}
	for _, r := range *fa.Referrers() {
		if st, ok := r.(*ssa.Store); ok && st.Addr == fa {
			return true
		}
	}
	return false
}

// storedFrom: the local al receives the result of call.
func storedFrom(al *ssa.Alloc, call *ssa.Call) bool {
	if al == nil || al.Referrers() == nil {
		return false
	}
	for _, r := range *al.Referrers() {
		if st, ok := r.(*ssa.Store); ok && st.Addr == al && st.Val == call {
			return true
		}
	}
	return false
}

// ---------- C19 ----------

// LSPDocumentStore (C19.1 - C19.3).
func (c *Ctx) LSPDocumentStore(ob *core.Obligation) {
	docF := c.P.Field("internal/lsp", "State", "documents")
	if docF == nil {
		ob.Unknown("anchor:lsp.State.documents", "-", "document store field not found")
		return
	}
	// writers
	var upd *ssa.Function
	nW := 0
	for _, fn := range c.P.ModuleFunctions() {
		if relOfFn(fn) != "internal/lsp" {
			continue
		}
		for _, b := range fn.Blocks {
			for _, in := range b.Instrs {
				mu, ok := in.(*ssa.MapUpdate)
				if !ok {
					continue
				}
				ld, ok := mu.Map.(*ssa.UnOp)
				if !ok || core.FieldOf(ld.X) != docF {
					continue
				}
				nW++
				c.Touch(fn)
				key := "lsp-store:write:" + core.SSAName(fn)
				if upd != nil && upd != fn {
					ob.Fail(key, c.P.Pos(mu.Pos()), "the document store has more than one writer")
					continue
				}
				upd = fn
				// key = a parameter; value: Text = a parameter, CheckResult = CheckSource(that parameter)
				kp, _ := mu.Key.(*ssa.Parameter)
				val := rootAlloc(mu.Value)
				var textP *ssa.Parameter
				var checked *ssa.Call
				if val != nil {
					for _, r := range *val.Referrers() {
						fa, ok := r.(*ssa.FieldAddr)
						if !ok || fa.Referrers() == nil {
							continue
						}
						for _, r2 := range *fa.Referrers() {
							st, ok := r2.(*ssa.Store)
							if !ok || st.Addr != fa {
								continue
							}
							switch core.FieldOf(fa).Name() {
							case "Text":
								textP, _ = st.Val.(*ssa.Parameter)
							case "CheckResult":
								if ld, ok := st.Val.(*ssa.UnOp); ok {
									if al, ok := ld.X.(*ssa.Alloc); ok {
										if s2 := onlyStore(al); s2 != nil {
											checked, _ = s2.Val.(*ssa.Call)
										}
									}
								}
								if cl, ok := st.Val.(*ssa.Call); ok {
									checked = cl
								}
							}
						}
					}
				}
				switch {
				case kp == nil:
					ob.Fail(key, c.P.Pos(mu.Pos()), "the document is not stored under the URI it was given")
				case textP == nil:
					ob.Fail(key, c.P.Pos(mu.Pos()), "the stored text is not the text given")
				case checked == nil || core.CalleeObj(&checked.Call) == nil || core.CalleeObj(&checked.Call).Name() != "CheckSource" || checked.Call.Args[0] != textP:
					ob.Fail(key, c.P.Pos(mu.Pos()), "the stored analysis is not the analysis of the stored text")
				default:
					ob.Pass(key, c.P.Pos(mu.Pos()), "documents[uri] = {text, CheckSource(text)} for the uri and text given")
					// published diagnostics: same uri, all diagnostics of the same result
					c.lspPublish(ob, fn, kp, checked)
				}
			}
		}
	}
	if nW == 0 {
		ob.Unknown("lsp-store:write", "-", "no write to the document store found")
		return
	}
	// notification handlers pass the URI and text of the same decoded params; didChange the LAST change
	for _, fn := range c.P.ModuleFunctions() {
		if relOfFn(fn) != "internal/lsp" {
			continue
		}
		for _, ci := range core.Calls(fn) {
			call, ok := ci.(*ssa.Call)
			if !ok || call.Call.StaticCallee() != upd || fn == upd {
				continue
			}
			c.Touch(fn)
			args := call.Call.Args
			uri, text := args[1], args[2]
			ru, rt := rootOf(uri), rootOf(text)
			pu, pt := fieldPath(uri), fieldPath(text)
			method := "open"
			if strings.Contains(pt, "ContentChanges") {
				method = "change"
			}
			key := "lsp-store:notify:" + method
			switch {
			case ru == nil || ru != rt:
				ob.Fail(key, c.P.Pos(call.Pos()), "the URI and the text passed to the store do not come from the same decoded notification")
			case !(strings.HasPrefix(pu, "TextDocument") && strings.HasSuffix(pu, "URI")):
				ob.Fail(key, c.P.Pos(call.Pos()), "the key is not the notification's TextDocument.URI ("+pu+")")
			case method == "open" && !strings.HasSuffix(pt, "TextDocument.Text"):
				ob.Fail(key, c.P.Pos(call.Pos()), "didOpen does not store the opened document's text ("+pt+")")
			case method == "change" && !lastElement(text):
				ob.Fail(key, c.P.Pos(call.Pos()), "didChange (full sync) does not take the LAST content change: an older version of the text would be analysed")
			default:
				ob.Pass(key, c.P.Pos(call.Pos()), "URI and text of the same notification ("+pt+")")
			}
		}
	}
	c.NotificationAlwaysStored(ob, upd)
	// query handlers: look the document up under the request's own URI and answer under it.
	// The lookup may sit in a helper that is given the key and returns the document found.
	isDocLookup := func(in ssa.Instruction) *ssa.Lookup {
		lk, ok := in.(*ssa.Lookup)
		if !ok {
			return nil
		}
		ld, ok := lk.X.(*ssa.UnOp)
		if !ok || core.FieldOf(ld.X) != docF {
			return nil
		}
		return lk
	}
	// helper -> index of the parameter the key comes from, and the field path from that
	// parameter to the key (empty when the parameter is the key)
	helpers := map[*ssa.Function]int{}
	helperPath := map[*ssa.Function]string{}
	for _, fn := range c.P.ModuleFunctions() {
		if relOfFn(fn) != "internal/lsp" || fn == upd {
			continue
		}
		for _, b := range fn.Blocks {
			for _, in := range b.Instrs {
				lk := isDocLookup(in)
				if lk == nil {
					continue
				}
				p := paramRoot(lk.Index, fn)
				if p == nil {
					continue
				}
				// every return hands back the value found (or reports "not found")
				good := true
				for _, ret := range core.Returns(fn) {
					if len(ret.Results) != 2 {
						good = false
						continue
					}
					if k, isK := ret.Results[1].(*ssa.Const); isK && k.Value != nil && k.Value.ExactString() == "false" {
						continue
					}
					r0 := ret.Results[0]
					if ex, ok := r0.(*ssa.Extract); ok && ex.Tuple == lk && ex.Index == 0 {
						continue
					}
					if al := rootAlloc(r0); al != nil && allocHoldsLookup(al, lk) && fieldPath(r0) == "" {
						continue
					}
					good = false
				}
				if good {
					for i, q := range fn.Params {
						if q == p {
							helpers[fn] = i
							helperPath[fn] = fieldPath(lk.Index)
							c.Touch(fn)
						}
					}
				}
			}
		}
	}
	for _, fn := range c.P.ModuleFunctions() {
		if relOfFn(fn) != "internal/lsp" || fn == upd {
			continue
		}
		if _, isHelper := helpers[fn]; isHelper {
			continue
		}
		for _, b := range fn.Blocks {
			for _, in := range b.Instrs {
				var index ssa.Value
				var tuple ssa.Value
				rest := ""
				if lk := isDocLookup(in); lk != nil {
					index, tuple = lk.Index, lk
				} else if call, ok := in.(*ssa.Call); ok {
					if k, isH := helpers[call.Call.StaticCallee()]; isH && call.Call.StaticCallee() != nil {
						index, tuple = call.Call.Args[k], call
						rest = helperPath[call.Call.StaticCallee()]
					}
				}
				if tuple == nil {
					continue
				}
				c.Touch(fn)
				key := "lsp-store:query:" + core.SSAName(fn)
				p := paramRoot(index, fn)
				keyPath := fieldPath(index)
				if rest != "" {
					keyPath = strings.TrimPrefix(keyPath+"."+rest, ".")
				}
				if p == nil || !strings.HasSuffix(keyPath, "TextDocument.URI") {
					ob.Fail(key, c.P.Pos(in.Pos()), "the document is not looked up under the request's own TextDocument.URI")
					continue
				}
				// analysis calls take Program / CheckResult of that document value only
				bad := ""
				for _, ci := range core.Calls(fn) {
					call, ok := ci.(*ssa.Call)
					if !ok {
						continue
					}
					o := core.CalleeObj(&call.Call)
					if o == nil {
						continue
					}
					rel, isMod := core.Rel(o.Pkg())
					if !isMod || rel != "internal/analysis" {
						continue
					}
					for _, a := range core.CallArgs(&call.Call) {
						if strings.Contains(fieldPath(a), "CheckResult") || strings.Contains(fieldPath(a), "Program") {
							if al := rootAlloc(a); al == nil || !allocHoldsLookup(al, tuple) {
								bad = "analysis call " + o.Name() + " is given the state of a value other than the document looked up"
							}
						}
					}
				}
				// a Location answer carries the request's URI
				for _, b2 := range fn.Blocks {
					for _, in2 := range b2.Instrs {
						st, ok := in2.(*ssa.Store)
						if !ok {
							continue
						}
						if f := core.FieldOf(st.Addr); f != nil && f.Name() == "URI" && ownerName(st.Addr.(*ssa.FieldAddr)) == "Location" {
							if paramRoot(st.Val, fn) != p || !strings.HasSuffix(fieldPath(st.Val), "TextDocument.URI") {
								bad = "the location returned does not carry the request's URI"
							}
						}
					}
				}
				if bad != "" {
					ob.Fail(key, c.P.Pos(in.Pos()), bad)
				} else {
					ob.Pass(key, c.P.Pos(in.Pos()), "looked up under the request's URI; analysis runs on that document's own program and check result")
				}
			}
		}
	}
}

func allocHoldsLookup(al *ssa.Alloc, lk ssa.Value) bool {
	for i := 0; i < 4 && al != nil; i++ {
		if al.Referrers() == nil {
			return false
		}
		n, hit := 0, 0
		var only *ssa.Store
		for _, r := range *al.Referrers() {
			if st, ok := r.(*ssa.Store); ok && st.Addr == al {
				n++
				only = st
				if ex, ok := st.Val.(*ssa.Extract); ok && ex.Tuple == lk && ex.Index == 0 {
					hit++
				}
			}
		}
		if n > 0 && hit == n {
			return true
		}
		// a local copy of part of the document found (checkResult := doc.CheckResult)
		if n != 1 {
			return false
		}
		switch only.Val.(type) {
		case *ssa.UnOp, *ssa.Field:
			al = rootAlloc(only.Val)
		default:
			return false
		}
	}
	return false
}

// lastElement: v is s[len(s)-1] (a field of it).
func lastElement(v ssa.Value) bool {
	for i := 0; i < 8; i++ {
		switch x := v.(type) {
		case *ssa.UnOp:
			v = x.X
		case *ssa.FieldAddr:
			v = x.X
		case *ssa.Field:
			v = x.X
		case *ssa.Alloc:
			st := onlyStore(x)
			if st == nil {
				return false
			}
			v = st.Val
		case *ssa.IndexAddr:
			t, off := core.Linear(x.Index)
			return off == -1 && t == "len("+core.Canon(x.X)+")"
		default:
			return false
		}
	}
	return false
}

// lspPublish: the notification sent by the update function carries the same uri and a
// diagnostic for every element of the stored result's Diagnostics.
func (c *Ctx) lspPublish(ob *core.Obligation, fn *ssa.Function, uri *ssa.Parameter, checked *ssa.Call) {
	key := "lsp-store:publish"
	// the diagnostics of the analysis just stored: a Diagnostics field path rooted in a local
	// that holds the result of the check (directly, or in one of its fields)
	isDiags := func(v ssa.Value) bool {
		if !strings.HasSuffix(fieldPath(v), "Diagnostics") {
			return false
		}
		al := rootAlloc(v)
		if al == nil {
			return false
		}
		if storedFrom(al, checked) {
			return true
		}
		if al.Referrers() != nil {
			for _, r := range *al.Referrers() {
				if fa, ok := r.(*ssa.FieldAddr); ok && fa.Referrers() != nil {
					for _, r2 := range *fa.Referrers() {
						if st, ok := r2.(*ssa.Store); ok && st.Addr == ssa.Value(fa) && st.Val == ssa.Value(checked) {
							return true
						}
					}
				}
			}
		}
		return false
	}
	if c.publishesIn(fn, func(v ssa.Value) bool { return v == ssa.Value(uri) }, isDiags, 0) {
		ob.Pass(key, c.P.Pos(fn.Pos()), "published under the same URI, one entry per diagnostic of the same analysis")
	} else {
		ob.Fail(key, c.P.Pos(fn.Pos()), "the published diagnostics are not 'all diagnostics of the stored analysis, under the same URI'")
	}
}

// publishesIn: g stores a URI satisfying isURI into a message and fills the message's
// diagnostics with one entry per element of a value satisfying isDiags (a loop over it, or a
// conversion helper proved to return one element per element) - or hands both to a helper of
// the package that does.
func (c *Ctx) publishesIn(g *ssa.Function, isURI, isDiags func(ssa.Value) bool, depth int) bool {
	if depth > 2 {
		return false
	}
	okURI, okLoop := false, false
	for _, b := range g.Blocks {
		for _, in := range b.Instrs {
			if st, ok := in.(*ssa.Store); ok {
				if f := core.FieldOf(st.Addr); f != nil && f.Name() == "URI" && isURI(st.Val) {
					okURI = true
				}
			}
			if iff, ok := in.(*ssa.If); ok && isRangeCond(iff.Cond) {
				bo := iff.Cond.(*ssa.BinOp)
				if lc, ok := core.Strip(bo.Y).(*ssa.Call); ok && isDiags(lc.Call.Args[0]) {
					okLoop = true
				}
			}
		}
	}
	for _, ci := range core.Calls(g) {
		call, ok := ci.(*ssa.Call)
		if !ok {
			continue
		}
		sc := call.Call.StaticCallee()
		if sc == nil || sc == g || !c.P.InModule(sc) || len(sc.Blocks) == 0 {
			continue
		}
		iu, idg := -1, -1
		for ai, a := range call.Call.Args {
			if isURI(a) {
				iu = ai
			}
			if isDiags(a) {
				idg = ai
			}
		}
		// a conversion helper that returns one element per element of the diagnostics
		if idg >= 0 && c.lenFacts().summary(sc) == idg {
			okLoop = true
			c.Touch(sc)
		}
		// a helper that is handed both and publishes
		if iu >= 0 && idg >= 0 && iu < len(sc.Params) && idg < len(sc.Params) {
			pu, pd := sc.Params[iu], sc.Params[idg]
			if c.publishesIn(sc, func(v ssa.Value) bool { return resolveLocal(v) == ssa.Value(pu) }, func(v ssa.Value) bool { return resolveLocal(v) == ssa.Value(pd) }, depth+1) {
				c.Touch(sc)
				return true
			}
		}
	}
	return okURI && okLoop
}

// HoverUnderContains (C19.6): a hover result is created only where the position was found
// inside the range of the very node reported, and a definition answer is the name range of
// the declaration the checker resolved for the hovered variable.
func (c *Ctx) HoverUnderContains(ob *core.Obligation) {
	n := 0
	for _, fn := range c.P.ModuleFunctions() {
		if relOfFn(fn) != "internal/analysis" {
			continue
		}
		var pc *core.PathConds
		for _, b := range fn.Blocks {
			for _, in := range b.Instrs {
				al, ok := in.(*ssa.Alloc)
				if !ok || al.Comment != "complit" {
					continue
				}
				tn := typeShort(derefT(al.Type()))
				if tn != "VariableHover" && tn != "BuiltinFnHover" {
					continue
				}
				n++
				c.Touch(fn)
				if pc == nil {
					pc = core.NewPathConds(fn)
				}
				key := "hover-contains:" + core.SSAName(fn) + ":" + tn
				rangeStored := fieldStoredInto(al, "Range")
				want := ""
				if rangeStored != nil {
					want = core.Canon(rangeStored)
				}
				good := pc.Requires(b, func(l core.Lit) bool {
					call, ok := l.Cond.(*ssa.Call)
					if !ok || !l.Val {
						return false
					}
					o := core.CalleeObj(&call.Call)
					if o == nil || o.Name() != "Contains" {
						return false
					}
					// the range tested is the range reported (or the range of the node reported)
					recv := core.CallArgs(&call.Call)[0]
					rk := core.Canon(recv)
					return want == "" || rk == want || sameRangeSource(recv, rangeStored)
				})
				if !good {
					// a constructor that only wraps the node it is given: the test is owed by its callers
					if node := constructorNodeParam(al, fn); node != nil {
						good = c.callersTestContains(fn, node)
					}
				}
				if good {
					ob.Pass(key, c.P.Pos(al.Pos()), "created only after Contains(position) succeeded on the node's range")
				} else {
					ob.Fail(key, c.P.Pos(al.Pos()), "a hover result can be produced for a position that was not found inside the node reported")
				}
			}
		}
	}
	if n == 0 {
		ob.Unknown("hover-contains:none", "-", "no hover result construction found")
	}
	// definition = Name.Range of ResolveVar(hovered node)
	gd := c.P.SSAFunc(c.P.LookupFunc("internal/analysis", "GotoDefinition"))
	key := "definition:range"
	if gd == nil {
		ob.Unknown(key, "-", "GotoDefinition not found")
		return
	}
	c.Touch(gd)
	good := false
	// the answer may be built by a helper of the package that is handed the hovered node
	scan := []*ssa.Function{gd}
	for _, ci := range core.Calls(gd) {
		if sc := ci.Common().StaticCallee(); sc != nil && sc != gd && len(sc.Blocks) > 0 && relOfFn(sc) == relOfFn(gd) && sc.Signature.Results().Len() == 1 &&
			types.Identical(sc.Signature.Results().At(0).Type(), gd.Signature.Results().At(0).Type()) {
			scan = append(scan, sc)
		}
	}
	isHoveredNode := func(v ssa.Value, fn *ssa.Function) bool {
		if strings.HasSuffix(fieldPath(v), "Node") {
			return true
		}
		prm, ok := resolveLocal(v).(*ssa.Parameter)
		if !ok || prm.Parent() != fn || fn == gd {
			return false
		}
		sites, ok := c.argSites(fn, prm)
		if !ok {
			return false
		}
		for _, s := range sites {
			if s.Caller != gd || !strings.HasSuffix(fieldPath(s.Arg), "Node") {
				return false
			}
		}
		c.Touch(fn)
		return true
	}
	for _, sfn := range scan {
		for _, b := range sfn.Blocks {
			for _, in := range b.Instrs {
				st, ok := in.(*ssa.Store)
				if !ok {
					continue
				}
				if f := core.FieldOf(st.Addr); f == nil || f.Name() != "Range" {
					continue
				}
				p := fieldPath(st.Val)
				if !strings.HasSuffix(p, "Name.Range") {
					continue
				}
				// rooted at the result of ResolveVar(<hover>.Node)
				v := st.Val
				for i := 0; i < 8; i++ {
					switch x := v.(type) {
					case *ssa.UnOp:
						v = x.X
						continue
					case *ssa.FieldAddr:
						v = x.X
						continue
					}
					break
				}
				if call, ok := v.(*ssa.Call); ok {
					if o := core.CalleeObj(&call.Call); o != nil && o.Name() == "ResolveVar" && isHoveredNode(call.Call.Args[len(call.Call.Args)-1], sfn) {
						good = true
					}
				}
			}
		}
	}
	if good {
		ob.Pass(key, c.P.Pos(gd.Pos()), "the definition answer is the name range of the declaration resolved for the hovered node")
	} else {
		ob.Fail(key, c.P.Pos(gd.Pos()), "go-to-definition does not answer with the name range of the declaration the checker resolved for the hovered variable")
	}
}

// constructorNodeParam: the hover built in fn reports a node that is a parameter of fn (its
// Node field is stored from that parameter).
func constructorNodeParam(al *ssa.Alloc, fn *ssa.Function) *ssa.Parameter {
	v := fieldStoredInto(al, "Node")
	if v == nil {
		return nil
	}
	p, _ := resolveLocal(v).(*ssa.Parameter)
	if p == nil || p.Parent() != fn {
		return nil
	}
	return p
}

// callersTestContains: every call of fn passes, for the node parameter, a node whose range was
// found to contain the position on every path to the call.
func (c *Ctx) callersTestContains(fn *ssa.Function, node *ssa.Parameter) bool {
	idx := paramIndex(fn, node)
	n := 0
	base := func(v ssa.Value) string {
		v = core.Strip(v)
		// the value before a type assertion / interface conversion
		for i := 0; i < 6; i++ {
			switch x := v.(type) {
			case *ssa.Extract:
				if ta, ok := x.Tuple.(*ssa.TypeAssert); ok {
					v = core.Strip(ta.X)
					continue
				}
			case *ssa.TypeAssert:
				v = core.Strip(x.X)
				continue
			case *ssa.MakeInterface:
				v = core.Strip(x.X)
				continue
			}
			break
		}
		return core.Canon(v)
	}
	for _, g := range c.P.ModuleFunctions() {
		var pc *core.PathConds
		for _, ci := range core.Calls(g) {
			if ci.Common().StaticCallee() != fn || idx < 0 || idx >= len(ci.Common().Args) {
				continue
			}
			n++
			if pc == nil {
				pc = core.NewPathConds(g)
			}
			want := base(ci.Common().Args[idx])
			ok := pc.Requires(ci.Block(), func(l core.Lit) bool {
				call, isCall := l.Cond.(*ssa.Call)
				if !isCall || !l.Val {
					return false
				}
				o := core.CalleeObj(&call.Call)
				if o == nil || o.Name() != "Contains" {
					return false
				}
				recv := core.CallArgs(&call.Call)[0]
				// whose range is it?
				switch r := core.Strip(recv).(type) {
				case *ssa.Call:
					if r.Call.IsInvoke() && r.Call.Method.Name() == "GetRange" {
						return base(r.Call.Value) == want
					}
					if args := core.CallArgs(&r.Call); len(args) > 0 {
						if o2 := core.CalleeObj(&r.Call); o2 != nil && o2.Name() == "GetRange" {
							return base(args[0]) == want
						}
					}
				case *ssa.UnOp:
					if fa, ok := r.X.(*ssa.FieldAddr); ok {
						return base(fa.X) == want
					}
				case *ssa.Field:
					return base(r.X) == want
				}
				return false
			})
			if !ok {
				return false
			}
			c.Touch(g)
		}
	}
	return n > 0
}

// sameRangeSource: both values are the Range of the same node.
func sameRangeSource(a, b ssa.Value) bool {
	if a == nil || b == nil {
		return false
	}
	ra, rb := rootOfRange(a), rootOfRange(b)
	return ra != "" && ra == rb
}

func rootOfRange(v ssa.Value) string {
	for i := 0; i < 8; i++ {
		switch x := v.(type) {
		case *ssa.UnOp:
			v = x.X
		case *ssa.FieldAddr:
			if f := core.FieldOf(x); f != nil && f.Name() == "Range" {
				return core.Canon(x.X)
			}
			v = x.X
		case *ssa.Field:
			if f := core.FieldOf(x); f != nil && f.Name() == "Range" {
				return core.Canon(x.X)
			}
			v = x.X
		case *ssa.Alloc:
			if st := onlyStore(x); st != nil {
				v = st.Val
				continue
			}
			return ""
		case *ssa.Call:
			if o := core.CalleeObj(&x.Call); o != nil && o.Name() == "GetRange" {
				return core.Canon(core.CallArgs(&x.Call)[0])
			}
			return ""
		default:
			return ""
		}
	}
	return ""
}

// PositionOrder (C15.5 / C19.8): Position.GtEq is the lexicographic order on (Line,
// Character) and Range.Contains is Start <= position <= End. Decided by evaluating the SSA of
// the two functions over the finite set of orderings of their integer operands (the values are
// only ever compared).
func (c *Ctx) PositionOrder(ob *core.Obligation) {
	gteq := c.P.SSAFunc(c.P.LookupFunc("internal/parser", "(*Position).GtEq"))
	contains := c.P.SSAFunc(c.P.LookupFunc("internal/parser", "Range.Contains"))
	if gteq == nil || contains == nil {
		ob.Unknown("anchor:parser.Position.GtEq", "-", "position ordering functions not found")
		return
	}
	c.Touch(gteq)
	c.Touch(contains)
	// GtEq(p1, p2): enumerate orderings of (Line, Character)
	key := "order:Position.GtEq"
	bad := ""
	for _, dl := range []int{-1, 0, 1} {
		for _, dc := range []int{-1, 0, 1} {
			env := map[string]int{"0.Line": 5 + dl, "0.Character": 5 + dc, "1.Line": 5, "1.Character": 5}
			got, ok := evalBoolFn(gteq, env, nil)
			want := dl > 0 || (dl == 0 && dc >= 0)
			if !ok {
				bad = "the function's shape is beyond the comparison-only evaluator"
			} else if got != want {
				bad = "for line " + sgn(dl) + " and character " + sgn(dc) + " the order answers " + tf(got) + " instead of " + tf(want)
			}
		}
	}
	if bad == "" {
		ob.Pass(key, c.P.Pos(gteq.Pos()), "lexicographic >= on (Line, Character) for all 9 orderings")
	} else {
		ob.Fail(key, c.P.Pos(gteq.Pos()), "Position.GtEq is not the lexicographic order: "+bad)
	}
	// Contains(r, pos): pos relative to Start and End
	key2 := "order:Range.Contains"
	bad = ""
	for _, s := range [][2]int{{-1, 0}, {0, -1}, {0, 0}, {0, 1}, {1, 0}} { // pos - start (line, char)
		for _, e := range [][2]int{{-1, 0}, {0, -1}, {0, 0}, {0, 1}, {1, 0}} { // end - pos
			env := map[string]int{"1.Line": 10, "1.Character": 10,
				"0.Start.Line": 10 - s[0], "0.Start.Character": 10 - s[1], "0.End.Line": 10 + e[0], "0.End.Character": 10 + e[1]}
			geS := s[0] > 0 || (s[0] == 0 && s[1] >= 0)
			geE := e[0] > 0 || (e[0] == 0 && e[1] >= 0)
			got, ok := evalBoolFn(contains, env, map[*ssa.Function]bool{gteq: true})
			if !ok {
				bad = "the function's shape is beyond the comparison-only evaluator"
			} else if got != (geS && geE) {
				bad = "a position is reported " + tf(got) + " although start<=pos is " + tf(geS) + " and pos<=end is " + tf(geE)
			}
		}
	}
	if bad == "" {
		ob.Pass(key2, c.P.Pos(contains.Pos()), "Start <= position <= End for all 25 relative placements")
	} else {
		ob.Fail(key2, c.P.Pos(contains.Pos()), "Range.Contains is not 'start <= position <= end': "+bad)
	}
}

func sgn(d int) string {
	switch {
	case d < 0:
		return "less"
	case d > 0:
		return "greater"
	}
	return "equal"
}

func tf(b bool) string {
	if b {
		return "true"
	}
	return "false"
}

// evalBoolFn abstractly evaluates a bool function whose integer operands are fields of its
// parameters (env: "<param index>.<field path>" -> value) and which only compares them.
func evalBoolFn(fn *ssa.Function, env map[string]int, inline map[*ssa.Function]bool) (bool, bool) {
	vals := map[ssa.Value]any{}
	// addresses: ssa value -> access path string
	var pathOf func(v ssa.Value) (string, bool)
	pathOf = func(v ssa.Value) (string, bool) {
		switch x := v.(type) {
		case *ssa.Parameter:
			return itoa(paramIndex(fn, x)), true
		case *ssa.Alloc:
			if st := onlyStore(x); st != nil {
				return pathOf(st.Val)
			}
			return "", false
		case *ssa.FieldAddr:
			p, ok := pathOf(x.X)
			if !ok {
				return "", false
			}
			return p + "." + core.FieldOf(x).Name(), true
		case *ssa.Field:
			p, ok := pathOf(x.X)
			if !ok {
				return "", false
			}
			return p + "." + core.FieldOf(x).Name(), true
		case *ssa.UnOp:
			if x.Op == token.MUL {
				return pathOf(x.X)
			}
		}
		return "", false
	}
	var intOf func(v ssa.Value) (int, bool)
	intOf = func(v ssa.Value) (int, bool) {
		if k, ok := core.ConstInt(v); ok {
			return int(k), true
		}
		if p, ok := pathOf(v); ok {
			if n, ok := env[p]; ok {
				return n, true
			}
		}
		return 0, false
	}
	b := fn.Blocks[0]
	var prev *ssa.BasicBlock
	for steps := 0; steps < 200; steps++ {
		for _, in := range b.Instrs {
			switch x := in.(type) {
			case *ssa.Phi:
				for i, p := range b.Preds {
					if p == prev {
						vals[x] = valOf(x.Edges[i], vals)
					}
				}
			case *ssa.BinOp:
				if l, ok := intOf(x.X); ok {
					if r, ok := intOf(x.Y); ok {
						switch x.Op {
						case token.EQL:
							vals[x] = l == r
						case token.NEQ:
							vals[x] = l != r
						case token.LSS:
							vals[x] = l < r
						case token.LEQ:
							vals[x] = l <= r
						case token.GTR:
							vals[x] = l > r
						case token.GEQ:
							vals[x] = l >= r
						default:
							return false, false
						}
					}
				}
			case *ssa.UnOp:
				if x.Op == token.NOT {
					if bv, ok := valOf(x.X, vals).(bool); ok {
						vals[x] = !bv
					}
				}
			case *ssa.Call:
				sc := x.Call.StaticCallee()
				if sc == nil || !inline[sc] {
					return false, false
				}
				// bind the callee's parameters to access paths of this frame
				sub := map[string]int{}
				for i, a := range x.Call.Args {
					ap, ok := pathOf(a)
					if !ok {
						return false, false
					}
					for k, v := range env {
						if k == ap || strings.HasPrefix(k, ap+".") {
							sub[itoa(i)+k[len(ap):]] = v
						}
					}
				}
				r, ok := evalBoolFn(sc, sub, inline)
				if !ok {
					return false, false
				}
				vals[x] = r
			case *ssa.If:
				cv, ok := valOf(x.Cond, vals).(bool)
				if !ok {
					return false, false
				}
				prev = b
				if cv {
					b = b.Succs[0]
				} else {
					b = b.Succs[1]
				}
			case *ssa.Jump:
				prev = b
				b = b.Succs[0]
			case *ssa.Return:
				r, ok := valOf(x.Results[0], vals).(bool)
				return r, ok
			case *ssa.Store, *ssa.Alloc, *ssa.FieldAddr, *ssa.Field, *ssa.DebugRef:
			default:
				return false, false
			}
		}
	}
	return false, false
}

func valOf(v ssa.Value, vals map[ssa.Value]any) any {
	if c, ok := v.(*ssa.Const); ok && c.Value != nil {
		if c.Value.ExactString() == "true" {
			return true
		}
		if c.Value.ExactString() == "false" {
			return false
		}
	}
	return vals[v]
}

func itoa(i int) string {
	return string(rune('0' + i))
}
