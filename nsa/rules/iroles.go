package rules

import (
	"go/types"

	"nsa/core"

	"golang.org/x/tools/go/ssa"
)

// IRoles: the interpreter's traversal and fetch functions, found by what they do (so that a
// rename is not an alarm): each is the unique function of internal/interpreter with the
// stated shape; ambiguity or absence is reported as an unresolved anchor.
type IRoles struct {
	FixedDraw      *ssa.Function // switch over Source, takes a *big.Int amount, returns (*big.Int, error)
	SendAll        *ssa.Function // switch over Source, no amount parameter, returns (*big.Int, error)
	Prefetch       *ssa.Function // switch over Source, returns only an error
	Receive        *ssa.Function // switch over Destination
	Dispatcher     *ssa.Function // switch over Statement that resets the pending lists
	PrefetchStmt   *ssa.Function // switch over Statement that calls Prefetch
	Batch          *ssa.Function // updates the pending balance query
	Fetch          *ssa.Function // calls Store.GetBalances
	SendAllAccount *ssa.Function // pushes a sender, called from SendAll
	OnDemand       *ssa.Function // calls Batch and Fetch (balance()/overdraft() path)
}

func (c *Ctx) IRoles(ob *core.Obligation) *IRoles {
	if c.iroles != nil {
		return c.iroles
	}
	r := &IRoles{}
	src := c.P.Named("internal/parser", "Source")
	dst := c.P.Named("internal/parser", "Destination")
	stm := c.P.Named("internal/parser", "Statement")
	storeI := c.P.Named("internal/interpreter", "Store")
	sendersF := c.P.Field("internal/interpreter", "programState", "Senders")
	queryF := c.P.Field("internal/interpreter", "programState", "CurrentBalanceQuery")
	if src == nil || dst == nil || stm == nil || storeI == nil || sendersF == nil || queryF == nil {
		ob.Unknown("anchor:interpreter-roles", "-", "AST sums / Store interface / state fields not found")
		return nil
	}
	set := func(slot **ssa.Function, fn *ssa.Function, what string) {
		if *slot != nil && *slot != fn {
			ob.Unknown("anchor:"+what, "-", "two functions have the shape of the "+what+": "+(*slot).Name()+" and "+fn.Name())
			return
		}
		*slot = fn
	}
	var fns []*ssa.Function
	for _, fn := range c.P.ModuleFunctions() {
		if relOfFn(fn) == "internal/interpreter" && fn.Parent() == nil {
			fns = append(fns, fn)
		}
	}
	for _, fn := range fns {
		res := fn.Signature.Results()
		if len(clauseEntries(fn, src)) >= 3 {
			switch {
			case res.Len() == 1:
				set(&r.Prefetch, fn, "prefetch traversal")
			case res.Len() == 2 && bigParamIndex(fn) >= 0:
				set(&r.FixedDraw, fn, "fixed-amount draw traversal")
			case res.Len() == 2:
				set(&r.SendAll, fn, "send-all draw traversal")
			}
		}
		if len(clauseEntries(fn, dst)) >= 2 {
			set(&r.Receive, fn, "destination traversal")
		}
		for _, b := range fn.Blocks {
			for _, in := range b.Instrs {
				switch x := in.(type) {
				case *ssa.MapUpdate:
					if ld, ok := x.Map.(*ssa.UnOp); ok && core.FieldOf(ld.X) == queryF {
						set(&r.Batch, fn, "query registration")
					}
				case ssa.CallInstruction:
					call := x.Common()
					if call.IsInvoke() && call.Method.Name() == "GetBalances" && types.Identical(call.Value.Type().Underlying(), storeI.Underlying()) {
						set(&r.Fetch, fn, "balance fetch")
					}
				}
			}
		}
	}
	for _, fn := range fns {
		if len(clauseEntries(fn, stm)) < 2 {
			continue
		}
		// the balance-collecting switch reaches the prefetch traversal, directly or through
		// per-statement helpers; the running one never does
		callsPrefetch := r.Prefetch != nil && reachesWithin(fn, r.Prefetch, 3)
		// the statement switch that is not the balance-collecting one runs the statements
		if !callsPrefetch {
			set(&r.Dispatcher, fn, "statement dispatcher")
		}
		if callsPrefetch {
			set(&r.PrefetchStmt, fn, "statement prefetch")
		}
	}
	for _, fn := range fns {
		callsBatch, callsFetch := false, false
		for _, ci := range core.Calls(fn) {
			sc := ci.Common().StaticCallee()
			if sc != nil && sc == r.Batch {
				callsBatch = true
			}
			if sc != nil && (sc == r.Fetch || reachesWithin(sc, r.Fetch, 2)) {
				callsFetch = true
			}
		}
		if callsBatch && callsFetch {
			set(&r.OnDemand, fn, "on-demand balance read")
		}
	}
	// the send-all account helper: a callee of SendAll that pushes a sender
	if r.SendAll != nil {
		mr := c.Roles(ob)
		if mr != nil {
			for _, ci := range core.Calls(r.SendAll) {
				sc := ci.Common().StaticCallee()
				if sc == nil || sc == r.SendAll || sc == r.FixedDraw {
					continue
				}
				for _, c2 := range core.Calls(sc) {
					if c2.Common().StaticCallee() == mr.PushSender.Fn {
						set(&r.SendAllAccount, sc, "send-all account helper")
					}
				}
			}
		}
	}
	for name, f := range map[string]*ssa.Function{"fixed-amount draw traversal": r.FixedDraw, "send-all draw traversal": r.SendAll, "prefetch traversal": r.Prefetch,
		"destination traversal": r.Receive, "statement dispatcher": r.Dispatcher, "statement prefetch": r.PrefetchStmt, "query registration": r.Batch,
		"balance fetch": r.Fetch, "send-all account helper": r.SendAllAccount, "on-demand balance read": r.OnDemand} {
		if f == nil {
			ob.Unknown("anchor:"+name, "-", "no function of the interpreter has the shape of the "+name)
		} else {
			c.Touch(f)
		}
	}
	c.iroles = r
	return r
}

// ReachesWithin is reachesWithin for the property files.
func ReachesWithin(fn, target *ssa.Function, depth int) bool { return reachesWithin(fn, target, depth) }

// reachesWithin: target is called from fn through at most depth static calls.
func reachesWithin(fn, target *ssa.Function, depth int) bool {
	if fn == nil || target == nil || depth <= 0 || len(fn.Blocks) == 0 {
		return false
	}
	for _, ci := range core.Calls(fn) {
		sc := ci.Common().StaticCallee()
		if sc == nil || sc == fn {
			continue
		}
		if sc == target || reachesWithin(sc, target, depth-1) {
			return true
		}
	}
	return false
}
