package rules

import (
	"go/token"
	"go/types"

	"golang.org/x/tools/go/ssa"

	"nsa/core"
)

// Length facts for "parallel slices": slices whose length equals the length of another slice
// by construction. Used by the bounds discharge of the panic inventory.
//
//	make([]T, len(w))                                  has the length of w
//	a slice built from nil by one append per iteration
//	  of a complete range over X                       has the length of X (after the loop)
//	the first result of a module function whose every
//	  successful return has the length of parameter k  has the length of argument k
//	                                                   (where the call's error is nil)

type lenFacts struct {
	c        *Ctx
	lenParam map[*ssa.Function]int // -1: none; absent: not computed; -2: in progress
}

func (c *Ctx) lenFacts() *lenFacts {
	if c.lf == nil {
		c.lf = &lenFacts{c: c, lenParam: map[*ssa.Function]int{}}
	}
	return c.lf
}

// resolveLocal looks through loads of single-store locals and value-preserving conversions.
func resolveLocal(v ssa.Value) ssa.Value {
	for i := 0; i < 8; i++ {
		v = core.Strip(v)
		ld, ok := v.(*ssa.UnOp)
		if !ok || ld.Op != token.MUL {
			return v
		}
		al, ok := ld.X.(*ssa.Alloc)
		if !ok {
			return v
		}
		st := onlyStore(al)
		if st == nil {
			return v
		}
		v = st.Val
	}
	return v
}

// sameLen lists the values whose length equals len(x) at block b (x itself first).
func (lf *lenFacts) sameLen(x ssa.Value, b *ssa.BasicBlock, pc *core.PathConds) []ssa.Value {
	out := []ssa.Value{x}
	seen := map[ssa.Value]bool{x: true}
	add := func(v ssa.Value) {
		if v != nil && !seen[v] {
			seen[v] = true
			out = append(out, v)
		}
	}
	for i := 0; i < len(out) && i < 12; i++ {
		v := resolveLocal(out[i])
		add(v)
		switch y := v.(type) {
		case *ssa.MakeSlice:
			if lc, ok := core.Strip(y.Len).(*ssa.Call); ok && isLenCall(lc) {
				add(lc.Call.Args[0])
			}
		case *ssa.Extract:
			call, ok := y.Tuple.(*ssa.Call)
			if !ok || y.Index != 0 {
				continue
			}
			if a := lf.callLen(call, b, pc); a != nil {
				add(a)
			}
		case *ssa.Call:
			if y.Type() != nil {
				if _, isTuple := y.Type().(*types.Tuple); !isTuple {
					if a := lf.callLen(y, b, pc); a != nil {
						add(a)
					}
				}
			}
		case *ssa.Phi:
			if X, done, ok := lf.onePerIteration(y); ok && b != nil && done.Dominates(b) {
				add(X)
			}
		case *ssa.UnOp:
			// a slice kept in a variable (captured by closures)
			if al, ok := y.X.(*ssa.Alloc); ok && y.Op == token.MUL {
				if X, done, ok := lf.memOnePerIteration(al); ok && b != nil && done.Dominates(b) {
					add(X)
				}
			}
		}
	}
	return out
}

// callLen: the argument whose length the first result of the call has, provided the call's
// error result (if any) is nil on every path to b.
func (lf *lenFacts) callLen(call *ssa.Call, b *ssa.BasicBlock, pc *core.PathConds) ssa.Value {
	sc := call.Call.StaticCallee()
	if sc == nil || !lf.c.P.InModule(sc) || len(sc.Blocks) == 0 {
		return nil
	}
	k := lf.summary(sc)
	if k < 0 || k >= len(call.Call.Args) {
		return nil
	}
	ei := errIndex(sc.Signature)
	if ei >= 0 {
		if b == nil || pc == nil || b.Parent() != call.Parent() {
			return nil
		}
		var errv ssa.Value
		if call.Referrers() != nil {
			for _, r := range *call.Referrers() {
				if ex, ok := r.(*ssa.Extract); ok && ex.Index == ei {
					errv = ex
				}
			}
		}
		if errv == nil {
			return nil
		}
		okNil := pc.Requires(b, func(l core.Lit) bool {
			bo, ok := l.Cond.(*ssa.BinOp)
			if !ok || (bo.Op != token.EQL && bo.Op != token.NEQ) {
				return false
			}
			var other ssa.Value
			if core.IsNilConst(bo.Y) {
				other = bo.X
			} else if core.IsNilConst(bo.X) {
				other = bo.Y
			}
			return other == errv && (bo.Op == token.EQL) == l.Val
		})
		if !okNil {
			return nil
		}
	}
	return call.Call.Args[k]
}

// summary: the index k of the parameter such that on every successful return of fn the first
// result has the length of parameter k; -1 when there is none.
func (lf *lenFacts) summary(fn *ssa.Function) int {
	if k, ok := lf.lenParam[fn]; ok {
		if k == -2 {
			return -1
		}
		return k
	}
	lf.lenParam[fn] = -2
	res := -1
	defer func() { lf.lenParam[fn] = res }()
	if fn.Signature.Results().Len() == 0 {
		return -1
	}
	if _, ok := fn.Signature.Results().At(0).Type().Underlying().(*types.Slice); !ok {
		return -1
	}
	ei := errIndex(fn.Signature)
	pc := core.NewPathConds(fn)
	found := -1
	n := 0
	for _, ret := range core.Returns(fn) {
		if len(ret.Results) == 0 {
			return -1
		}
		if ei >= 0 && ei < len(ret.Results) && core.IsNilConst(ret.Results[0]) && !core.IsNilConst(ret.Results[ei]) {
			continue // error return
		}
		n++
		k := -1
		for _, v := range lf.sameLen(ret.Results[0], ret.Block(), pc) {
			if p, ok := resolveLocal(v).(*ssa.Parameter); ok {
				for i, q := range fn.Params {
					if q == p {
						k = i
					}
				}
			}
		}
		if k < 0 || (found >= 0 && found != k) {
			return -1
		}
		found = k
	}
	if n == 0 {
		return -1
	}
	res = found
	return res
}

// onePerIteration: P is the loop-head phi of a slice that starts empty and receives exactly
// one element on every path through the body of a complete range over X. Returns X and the
// block reached when the loop is over.
func (lf *lenFacts) onePerIteration(P *ssa.Phi) (ssa.Value, *ssa.BasicBlock, bool) {
	if _, ok := P.Type().Underlying().(*types.Slice); !ok {
		return nil, nil, false
	}
	head := P.Block()
	if len(head.Preds) < 2 || len(head.Succs) != 2 {
		return nil, nil, false
	}
	iff, ok := head.Instrs[len(head.Instrs)-1].(*ssa.If)
	if !ok {
		return nil, nil, false
	}
	cond, ok := iff.Cond.(*ssa.BinOp)
	if !ok || cond.Op != token.LSS {
		return nil, nil, false
	}
	lc, ok := core.Strip(cond.Y).(*ssa.Call)
	if !ok || !isLenCall(lc) {
		return nil, nil, false
	}
	X := lc.Call.Args[0]
	if !unitCounter(cond.X, head) {
		return nil, nil, false
	}
	body, done := head.Succs[0], head.Succs[1]
	if len(done.Preds) != 1 {
		return nil, nil, false
	}
	// one entry edge (the slice starts empty), every other edge is a back edge that has
	// appended exactly one element
	entries := 0
	for i, p := range head.Preds {
		if head.Dominates(p) {
			n, ok := lf.appendCount(P.Edges[i], P, map[ssa.Value]bool{})
			if !ok {
				return nil, nil, false
			}
			if n == 0 && lf.c.closedSumNoMatchEdge(p, head) {
				continue
			}
			if n != 1 {
				return nil, nil, false
			}
			continue
		}
		entries++
		switch iv := P.Edges[i].(type) {
		case *ssa.Const:
			if !iv.IsNil() {
				return nil, nil, false
			}
		case *ssa.MakeSlice:
			if k, ok := core.ConstInt(iv.Len); !ok || k != 0 {
				return nil, nil, false
			}
		case *ssa.Slice:
			// make([]T, 0, constant): a slice [:0] of a fresh array
			arr, isArr := derefArray(iv.X.Type())
			_, fresh := iv.X.(*ssa.Alloc)
			hi, hasHi := int64(-1), false
			if iv.High != nil {
				hi, hasHi = core.ConstInt(iv.High)
			}
			if !isArr || !fresh || iv.Low != nil || !((hasHi && hi == 0) || arr.Len() == 0) {
				return nil, nil, false
			}
		default:
			return nil, nil, false
		}
	}
	if entries != 1 {
		return nil, nil, false
	}
	// exits of the loop other than the head's own never rejoin the code after the loop
	inLoop := func(b *ssa.BasicBlock) bool {
		return body.Dominates(b) && core.ReachableAvoiding(b, head, nil)
	}
	for _, b := range head.Parent().Blocks {
		if !inLoop(b) {
			continue
		}
		for _, s := range b.Succs {
			if s == head || inLoop(s) {
				continue
			}
			if core.ReachableAvoiding(s, done, nil) {
				return nil, nil, false
			}
		}
	}
	return X, done, true
}

// unitCounter: v counts the iterations of the loop headed by head: the rotated range index
// (phi[-1, itself+1] + 1) or a classic counter phi[0, itself+1], tested before each iteration.
func unitCounter(v ssa.Value, head *ssa.BasicBlock) bool {
	switch x := v.(type) {
	case *ssa.BinOp: // rotated range loop: t = phi + 1
		if x.Op != token.ADD {
			return false
		}
		if k, ok := core.ConstInt(x.Y); !ok || k != 1 {
			return false
		}
		ph, ok := x.X.(*ssa.Phi)
		if !ok || ph.Block() != head {
			return false
		}
		return rangePhi(ph, x)
	case *ssa.Phi:
		if x.Block() != head {
			return false
		}
		zero, inc := false, false
		for _, e := range x.Edges {
			if bo, ok := e.(*ssa.BinOp); !ok || bo.Op != token.ADD || bo.X != ssa.Value(x) {
				if k, ok := core.ConstInt(e); !ok || k != 0 {
					return false
				}
			}
			if k, ok := core.ConstInt(e); ok && k == 0 {
				zero = true
				continue
			}
			if bo, ok := e.(*ssa.BinOp); ok && bo.Op == token.ADD && bo.X == ssa.Value(x) {
				if k, ok := core.ConstInt(bo.Y); ok && k == 1 {
					inc = true
				}
			}
		}
		return zero && inc
	}
	return false
}

// appendCount: the number of single-element appends between P and v, the same on every path.
// A path on which nothing is appended is tolerated only when it is the no-match exit of a type
// switch that tests every implementer of a closed sum (feasible for a nil value only).
func (lf *lenFacts) appendCount(v ssa.Value, P *ssa.Phi, seen map[ssa.Value]bool) (int, bool) {
	if v == ssa.Value(P) {
		return 0, true
	}
	if seen[v] {
		return 0, false
	}
	seen[v] = true
	switch x := v.(type) {
	case *ssa.Call:
		b, ok := x.Call.Value.(*ssa.Builtin)
		if !ok || b.Name() != "append" || len(x.Call.Args) != 2 {
			return 0, false
		}
		sl, ok := x.Call.Args[1].(*ssa.Slice)
		if !ok {
			return 0, false
		}
		arr, ok := derefArray(sl.X.Type())
		if !ok || arr.Len() != 1 {
			return 0, false
		}
		n, ok := lf.appendCount(x.Call.Args[0], P, seen)
		return n + 1, ok
	case *ssa.Phi:
		cnt := -1
		for i, e := range x.Edges {
			n, ok := lf.appendCount(e, P, seen)
			if !ok {
				return 0, false
			}
			if n == 0 && lf.c.closedSumNoMatchEdge(x.Block().Preds[i], x.Block()) {
				continue
			}
			if cnt >= 0 && cnt != n {
				return 0, false
			}
			cnt = n
		}
		if cnt < 0 {
			return 0, false
		}
		return cnt, true
	}
	return 0, false
}

// closedSumNoMatchEdge: the edge pred->succ is taken when a chain of comma-ok type assertions
// on one value of a closed sum type has failed for every implementer of the sum.
func (c *Ctx) closedSumNoMatchEdge(pred, succ *ssa.BasicBlock) bool {
	var subject ssa.Value
	asserted := map[string]bool{}
	cur, next := pred, succ
	// an explicit default arm that does nothing (`default: continue`) is a block of its own
	for steps := 0; steps < 4 && len(cur.Preds) == 1 && jumpOnly(cur); steps++ {
		next, cur = cur, cur.Preds[0]
	}
	for steps := 0; steps < 40; steps++ {
		iff, ok := cur.Instrs[len(cur.Instrs)-1].(*ssa.If)
		if !ok || len(cur.Succs) != 2 || cur.Succs[1] != next {
			break
		}
		ex, ok := iff.Cond.(*ssa.Extract)
		if !ok || ex.Index != 1 {
			break
		}
		ta, ok := ex.Tuple.(*ssa.TypeAssert)
		if !ok || !ta.CommaOk {
			break
		}
		if subject == nil {
			subject = ta.X
		} else if subject != ta.X {
			break
		}
		asserted[types.TypeString(ta.AssertedType, nil)] = true
		if len(cur.Preds) != 1 {
			break
		}
		next, cur = cur, cur.Preds[0]
	}
	if subject == nil {
		return false
	}
	sum := c.M.SumOf(subject.Type())
	if sum == nil || len(sum.Impls) == 0 {
		return false
	}
	for _, impl := range sum.Impls {
		var t types.Type = types.NewPointer(impl)
		if sum.ByValue[impl] {
			t = impl
		}
		if !asserted[types.TypeString(t, nil)] {
			return false
		}
	}
	return true
}

// rangeIndexOver: every value idx can take at block b is the index of a range over some X
// (0 <= idx < len(X)): the loop index itself, or a variable that is assigned the loop index
// and otherwise holds the sentinel -1, which the path to b excludes. Returns X.
func (lf *lenFacts) rangeIndexOver(idx ssa.Value, b *ssa.BasicBlock, pc *core.PathConds) ssa.Value {
	idx = core.Strip(idx)
	if _, ok := idx.(*ssa.Phi); !ok {
		return nil
	}
	if !excludesMinus1(idx, b, pc) {
		return nil
	}
	return leavesIndexOver(idx)
}

// excludesMinus1: on every path to b the value has been tested to differ from -1 (or to be
// non-negative).
func excludesMinus1(v ssa.Value, b *ssa.BasicBlock, pc *core.PathConds) bool {
	return pc.Requires(b, func(l core.Lit) bool {
		bo, ok := l.Cond.(*ssa.BinOp)
		if !ok || bo.X != v {
			return false
		}
		k, ok := core.ConstInt(bo.Y)
		if !ok {
			return false
		}
		switch bo.Op {
		case token.NEQ:
			return k == -1 && l.Val
		case token.EQL:
			return k == -1 && !l.Val
		case token.GEQ:
			return k == 0 && l.Val
		case token.GTR:
			return k == -1 && l.Val
		case token.LSS:
			return k == 0 && !l.Val
		}
		return false
	})
}

// leavesIndexOver: through phis, every value v can hold is the constant -1 or the index of a
// loop over one slice X, copied inside the body of that loop (where it is in range). Returns X.
func leavesIndexOver(v ssa.Value) ssa.Value {
	var X ssa.Value
	seen := map[ssa.Value]bool{}
	setX := func(x ssa.Value) bool {
		if X != nil && core.Canon(X) != core.Canon(x) {
			return false
		}
		X = x
		return true
	}
	// counterOver: c is the index of a loop (rotated range index or classic counter) whose
	// head tests it against len(X); returns X and the first block of the loop body
	counterOver := func(cv ssa.Value) (ssa.Value, *ssa.BasicBlock) {
		var head *ssa.BasicBlock
		switch x := cv.(type) {
		case *ssa.BinOp:
			head = x.Block()
		case *ssa.Phi:
			head = x.Block()
		default:
			return nil, nil
		}
		if !unitCounter(cv, head) || len(head.Succs) != 2 {
			return nil, nil
		}
		iff, ok := head.Instrs[len(head.Instrs)-1].(*ssa.If)
		if !ok {
			return nil, nil
		}
		cond, ok := iff.Cond.(*ssa.BinOp)
		if !ok || cond.Op != token.LSS || cond.X != cv {
			return nil, nil
		}
		lc, ok := core.Strip(cond.Y).(*ssa.Call)
		if !ok || !isLenCall(lc) {
			return nil, nil
		}
		return lc.Call.Args[0], head.Succs[0]
	}
	var walk func(v ssa.Value, from *ssa.BasicBlock) bool
	walk = func(v ssa.Value, from *ssa.BasicBlock) bool {
		if k, ok := core.ConstInt(v); ok && k == -1 {
			return true
		}
		if x, body := counterOver(v); x != nil {
			// the index is only copied inside the loop body, where it is in range
			if from == nil || !body.Dominates(from) {
				return false
			}
			return setX(x)
		}
		ph, ok := v.(*ssa.Phi)
		if !ok {
			return false
		}
		if seen[ph] {
			return true
		}
		seen[ph] = true
		for i, e := range ph.Edges {
			if !walk(e, ph.Block().Preds[i]) {
				return false
			}
		}
		return true
	}
	if !walk(v, nil) || X == nil {
		return nil
	}
	return X
}

// indexParamInRange: the site x[idx] where both are parameters of fn is within bounds
// because, at every call of fn, the index argument only holds -1 or the index of a loop over
// a slice of the length of the slice argument, and the site itself excludes -1.
func (lf *lenFacts) indexParamInRange(fn *ssa.Function, x, idx ssa.Value, b *ssa.BasicBlock, pc *core.PathConds) bool {
	px, ok1 := resolveLocal(x).(*ssa.Parameter)
	pi, ok2 := core.Strip(idx).(*ssa.Parameter)
	if !ok1 || !ok2 || px.Parent() != fn || pi.Parent() != fn {
		return false
	}
	if !excludesMinus1(pi, b, pc) {
		return false
	}
	ix, ii := paramIndex(fn, px), paramIndex(fn, pi)
	n := 0
	for _, g := range lf.c.P.ModuleFunctions() {
		var gpc *core.PathConds
		for _, ci := range core.Calls(g) {
			if ci.Common().StaticCallee() != fn {
				continue
			}
			n++
			args := ci.Common().Args
			if ix >= len(args) || ii >= len(args) {
				return false
			}
			X := leavesIndexOver(core.Strip(args[ii]))
			if X == nil {
				return false
			}
			if gpc == nil {
				gpc = core.NewPathConds(g)
			}
			same := false
			for _, v := range lf.sameLen(args[ix], ci.Block(), gpc) {
				if core.Canon(v) == core.Canon(X) {
					same = true
				}
			}
			if !same {
				return false
			}
		}
	}
	return n > 0
}

// ---------- slices kept in a variable (captured by closures) ----------

// oneElemAppendTo: v is append(load of addr, one element).
func oneElemAppendTo(v ssa.Value, addr ssa.Value) bool {
	call, ok := v.(*ssa.Call)
	if !ok {
		return false
	}
	b, ok := call.Call.Value.(*ssa.Builtin)
	if !ok || b.Name() != "append" || len(call.Call.Args) != 2 {
		return false
	}
	ld, ok := call.Call.Args[0].(*ssa.UnOp)
	if !ok || ld.Op != token.MUL || ld.X != addr {
		return false
	}
	sl, ok := call.Call.Args[1].(*ssa.Slice)
	if !ok {
		return false
	}
	arr, ok := derefArray(sl.X.Type())
	return ok && arr.Len() == 1
}

// closureAppendsOne: g is a closure of parent that captures al; every path through g appends
// exactly one element to the captured variable, and g stores nothing else into it.
func closureAppendsOne(g *ssa.Function, al *ssa.Alloc) bool {
	par := g.Parent()
	if par == nil || closureEscapes(g) {
		return false
	}
	var fv *ssa.FreeVar
	for _, b := range par.Blocks {
		for _, in := range b.Instrs {
			if mc, ok := in.(*ssa.MakeClosure); ok && mc.Fn == ssa.Value(g) {
				for bi, bv := range mc.Bindings {
					if bv == ssa.Value(al) && bi < len(g.FreeVars) {
						fv = g.FreeVars[bi]
					}
				}
			}
		}
	}
	if fv == nil || fv.Referrers() == nil {
		return false
	}
	ev := map[*ssa.BasicBlock]int{}
	for _, r := range *fv.Referrers() {
		switch y := r.(type) {
		case *ssa.Store:
			if y.Addr != ssa.Value(fv) || !oneElemAppendTo(y.Val, fv) {
				return false
			}
			ev[y.Block()]++
		case *ssa.UnOp, *ssa.DebugRef:
		default:
			return false
		}
	}
	// exactly one on every path: one event block, executed once, on every path to a return
	if len(ev) != 1 {
		return false
	}
	for b, n := range ev {
		if n != 1 || !blockOnEveryPath(g, b) {
			return false
		}
		for _, l := range loopsOf(g) {
			if l.contains(b) {
				return false
			}
		}
	}
	return true
}

// memOnePerIteration: the slice variable al starts empty and receives exactly one element on
// every path through the body of a complete range over X - by an append in the function or by
// a call of a closure that appends exactly one. Returns X and the block after the loop.
func (lf *lenFacts) memOnePerIteration(al *ssa.Alloc) (ssa.Value, *ssa.BasicBlock, bool) {
	fn := al.Parent()
	if fn == nil || al.Referrers() == nil {
		return nil, nil, false
	}
	if _, ok := derefT(al.Type()).Underlying().(*types.Slice); !ok {
		return nil, nil, false
	}
	ev := map[*ssa.BasicBlock]int{}
	var inits []*ssa.Store
	closures := map[*ssa.Function]bool{}
	for _, r := range *al.Referrers() {
		switch y := r.(type) {
		case *ssa.Store:
			if y.Addr != ssa.Value(al) {
				return nil, nil, false
			}
			if oneElemAppendTo(y.Val, al) {
				ev[y.Block()]++
			} else {
				inits = append(inits, y)
			}
		case *ssa.MakeClosure:
			if g, ok := y.Fn.(*ssa.Function); ok {
				closures[g] = true
			}
		case *ssa.UnOp, *ssa.DebugRef:
		default:
			return nil, nil, false
		}
	}
	for g := range closures {
		// a closure that only reads the variable is harmless; one that writes must append one
		writes := false
		for bi, fv := range g.FreeVars {
			_ = bi
			if fv.Referrers() == nil {
				continue
			}
			for _, b := range fn.Blocks {
				for _, in := range b.Instrs {
					if mc, ok := in.(*ssa.MakeClosure); ok && mc.Fn == ssa.Value(g) && bi < len(mc.Bindings) && mc.Bindings[bi] == ssa.Value(al) {
						for _, r := range *fv.Referrers() {
							if st, ok := r.(*ssa.Store); ok && st.Addr == ssa.Value(fv) {
								writes = true
							}
						}
					}
				}
			}
		}
		if !writes {
			continue
		}
		if !closureAppendsOne(g, al) {
			return nil, nil, false
		}
		for _, ci := range core.Calls(fn) {
			if ci.Common().StaticCallee() == g {
				if _, isCall := ci.(*ssa.Call); !isCall {
					return nil, nil, false
				}
				ev[ci.Block()]++
			}
		}
	}
	if len(inits) > 1 || len(ev) == 0 {
		return nil, nil, false
	}
	// `var xs []T` captured by a closure: the variable starts as the nil slice, no store
	initBlock := al.Block()
	var initVal ssa.Value = ssa.NewConst(nil, derefT(al.Type()))
	if len(inits) == 1 {
		initBlock, initVal = inits[0].Block(), inits[0].Val
	}
	switch iv := initVal.(type) {
	case *ssa.Const:
		if !iv.IsNil() {
			return nil, nil, false
		}
	case *ssa.MakeSlice:
		if k, ok := core.ConstInt(iv.Len); !ok || k != 0 {
			return nil, nil, false
		}
	case *ssa.Slice:
		arr, isArr := derefArray(iv.X.Type())
		hi, hasHi := int64(-1), false
		if iv.High != nil {
			hi, hasHi = core.ConstInt(iv.High)
		}
		if !isArr || iv.Low != nil || !((hasHi && hi == 0) || arr.Len() == 0) {
			return nil, nil, false
		}
	default:
		return nil, nil, false
	}
	// the loop that contains every event
	for _, l := range loopsOf(fn) {
		iff := l.head.Instrs[len(l.head.Instrs)-1].(*ssa.If)
		cond, ok := iff.Cond.(*ssa.BinOp)
		if !ok || cond.Op != token.LSS || !unitCounter(cond.X, l.head) {
			continue
		}
		lc, ok := core.Strip(cond.Y).(*ssa.Call)
		if !ok || !isLenCall(lc) {
			continue
		}
		all := true
		for b := range ev {
			if b == l.head || !l.contains(b) {
				all = false
			}
		}
		if !all || l.contains(initBlock) || !initBlock.Dominates(l.head) || len(l.done.Preds) != 1 {
			continue
		}
		// no exit from the body rejoins the code after the loop
		okExits := true
		for _, e := range l.earlyExits(fn) {
			if core.ReachableAvoiding(e[1], l.done, nil) {
				okExits = false
			}
		}
		if !okExits {
			continue
		}
		// count the events along every path of the body
		in := map[*ssa.BasicBlock]int{l.body: 0}
		work := []*ssa.BasicBlock{l.body}
		good := true
		for len(work) > 0 && good {
			b := work[0]
			work = work[1:]
			out := in[b] + ev[b]
			for _, s := range b.Succs {
				if s == l.head {
					if !(out == 1 || (out == 0 && lf.c.closedSumNoMatchEdge(b, l.head))) {
						good = false
					}
					continue
				}
				if !l.contains(s) {
					continue
				}
				if s.Dominates(b) {
					good = false // an inner loop
					continue
				}
				if prev, seen := in[s]; seen {
					if prev != out {
						// a no-match edge of an exhaustive type switch joins with 0
						if out == 0 && lf.c.closedSumNoMatchEdge(b, s) {
							continue
						}
						good = false
					}
					continue
				}
				in[s] = out
				work = append(work, s)
			}
		}
		if good {
			return lc.Call.Args[0], l.done, true
		}
	}
	return nil, nil, false
}

// jumpOnly: the block does nothing but jump on.
func jumpOnly(b *ssa.BasicBlock) bool {
	for _, in := range b.Instrs {
		switch in.(type) {
		case *ssa.Jump, *ssa.DebugRef:
		default:
			return false
		}
	}
	return true
}
