package rules

import (
	"fmt"
	"go/ast"
	"go/token"
	"go/types"
	"sort"
	"strings"

	"nsa/core"

	"golang.org/x/tools/go/ssa"
)

// NilGuard: every dereference (interface method call, field access through a pointer, pointer
// load) of a value of an AST type that may be nil on a partial tree must be guarded by a nil
// test on every path, in the functions of the given packages. Parameters are handled by a
// requirement fixpoint: a function that dereferences a parameter unguarded requires it
// non-nil at each call site.
type NilGuardCfg struct {
	Rels map[string]bool // packages analysed
	// NonNilFields: pointer fields of AST structs that are never nil, with the mechanical
	// justification checked elsewhere (constructor / grammar); key "Type.Field".
	NonNilFields map[string]string
	// OnlyOptional restricts nil-ability to the listed fields (interpreter model: under an
	// error-free parse only grammar-optional children are absent); nil = every AST child.
	OnlyOptional map[string]bool
	// Invariants: "Type.Field" of values read from the named map-typed fields are non-nil
	// (container invariants), justified by side conditions.
	MapValueNonNil map[string]map[string]bool // map field name -> set of "Field" paths non-nil in its values
	// Exceptions: construct key -> reason (+ side condition recomputed on every run)
	Exceptions map[string]NilException
}

type NilException struct {
	Reason string
	Side   func(c *Ctx) (bool, string)
}

type nilAn struct {
	c       *Ctx
	cfg     NilGuardCfg
	scope   []*ssa.Function
	inSc    map[*ssa.Function]bool
	req     map[*ssa.Function]map[int]string
	pcs     map[*ssa.Function]*core.PathConds
	retNN   map[*ssa.Function]int
	fieldNN map[*types.Var]int
	dirty   bool
	nDeref  map[*ssa.Function]int
}

type nilFinding struct {
	fn   *ssa.Function
	pos  token.Pos
	what string
	why  string
}

func (c *Ctx) NilGuard(ob *core.Obligation, cfg NilGuardCfg) {
	a := &nilAn{c: c, cfg: cfg, inSc: map[*ssa.Function]bool{}, req: map[*ssa.Function]map[int]string{}, pcs: map[*ssa.Function]*core.PathConds{}, retNN: map[*ssa.Function]int{}}
	for _, fn := range c.P.ModuleFunctions() {
		if cfg.Rels[relOfFn(fn)] {
			a.scope = append(a.scope, fn)
			a.inSc[fn] = true
		}
	}
	// requirement fixpoint
	for iter := 0; iter < 12; iter++ {
		changed := false
		for _, fn := range a.scope {
			for _, f := range a.analyse(fn, true) {
				_ = f
			}
			_ = fn
		}
		// analyse(…, true) updates a.req and reports change through a.dirty
		if a.dirty {
			changed = true
			a.dirty = false
		}
		if !changed {
			break
		}
	}
	for _, fn := range a.scope {
		c.Touch(fn)
		fs := a.analyse(fn, false)
		name := core.SSAName(fn)
		seen := map[string]bool{}
		for _, f := range fs {
			key := "nil:" + name + ":" + f.what
			if seen[key] {
				continue
			}
			seen[key] = true
			if e, ok := cfg.Exceptions[key]; ok {
				if e.Side != nil {
					if good, why := e.Side(c); !good {
						ob.Fail(key, c.P.Pos(f.pos), "exception '"+e.Reason+"' no longer justified: "+why)
						continue
					}
				}
				ob.Pass(key, c.P.Pos(f.pos), "exception: "+e.Reason)
				continue
			}
			ob.Fail(key, c.P.Pos(f.pos), f.why)
		}
		if len(fs) == 0 && a.nDeref[fn] > 0 {
			ob.Pass("nil:"+name, c.P.Pos(fn.Pos()), fmt.Sprintf("%d dereference(s) of possibly-nil AST values, all guarded", a.nDeref[fn]))
		}
	}
}

func (a *nilAn) pc(fn *ssa.Function) *core.PathConds {
	if p, ok := a.pcs[fn]; ok {
		return p
	}
	p := core.NewPathConds(fn)
	a.pcs[fn] = p
	return p
}

// isASTType: a type whose values are AST children that can be absent.
func (a *nilAn) isASTType(t types.Type) bool {
	t = types.Unalias(t)
	if p, ok := t.(*types.Pointer); ok {
		e := types.Unalias(p.Elem())
		if n, ok := e.(*types.Named); ok {
			rel, isMod := core.Rel(n.Obj().Pkg())
			if isMod && rel == "internal/parser" {
				return true // *Variable, *FnCall, *ValueExpr, *SourceAccount, ...
			}
		}
		return false
	}
	if n, ok := t.(*types.Named); ok {
		if _, isI := n.Underlying().(*types.Interface); isI {
			rel, isMod := core.Rel(n.Obj().Pkg())
			return isMod && rel == "internal/parser"
		}
	}
	return false
}

type nilStatus int

const (
	nsNonNil nilStatus = iota
	nsNilable
	nsParam
)

// status decides whether v is proved non-nil at (fn, block b).
func (a *nilAn) status(v ssa.Value, fn *ssa.Function, b *ssa.BasicBlock, depth int) (nilStatus, int, string) {
	if depth > 8 {
		return nsNilable, 0, "too deep"
	}
	// a dominating nil test on the same value (by canonical key) settles it
	if a.guarded(v, fn, b) {
		return nsNonNil, 0, ""
	}
	switch x := v.(type) {
	case *ssa.Const:
		if x.Value == nil {
			return nsNilable, 0, "nil constant"
		}
		return nsNonNil, 0, ""
	case *ssa.Alloc, *ssa.FieldAddr, *ssa.IndexAddr, *ssa.MakeClosure, *ssa.Function, *ssa.Global:
		return nsNonNil, 0, ""
	case *ssa.MakeInterface:
		if _, isPtr := x.X.Type().Underlying().(*types.Pointer); isPtr {
			return a.status(x.X, fn, b, depth+1)
		}
		return nsNonNil, 0, ""
	case *ssa.ChangeInterface:
		return a.status(x.X, fn, b, depth+1)
	case *ssa.ChangeType:
		return a.status(x.X, fn, b, depth+1)
	case *ssa.TypeAssert:
		if !x.CommaOk {
			return nsNonNil, 0, "" // would have panicked (a panicscan site)
		}
	case *ssa.Extract:
		if ta, ok := x.Tuple.(*ssa.TypeAssert); ok && x.Index == 0 {
			// value of a comma-ok assertion / type-switch arm: non-nil where ok is true
			if _, isI := ta.AssertedType.Underlying().(*types.Interface); !isI || true {
				if a.okTrue(ta, fn, b) {
					return nsNonNil, 0, ""
				}
				return nsNilable, 0, "result of a failed type assertion"
			}
		}
		if call, ok := x.Tuple.(*ssa.Call); ok {
			return a.callStatus(call, x.Index, fn, b, depth)
		}
	case *ssa.Call:
		return a.callStatus(x, 0, fn, b, depth)
	case *ssa.Phi:
		worst := nsNonNil
		wi, ww := 0, ""
		for i, e := range x.Edges {
			pb := x.Block().Preds[i]
			s, pi, w := a.status(e, fn, pb, depth+1)
			if s == nsNilable {
				return s, pi, w
			}
			if s == nsParam {
				worst, wi, ww = s, pi, w
			}
		}
		return worst, wi, ww
	case *ssa.Parameter:
		idx := paramIndex(fn, x)
		return nsParam, idx, "parameter " + x.Name()
	case *ssa.FreeVar:
		// the address of a captured variable
		return nsNonNil, 0, ""
	case *ssa.UnOp:
		if x.Op == token.MUL {
			return a.loadStatus(x, fn, b, depth)
		}
	case *ssa.Lookup, *ssa.Index, *ssa.Field:
		return nsNilable, 0, "element/field " + core.ShortVal(v)
	}
	return nsNilable, 0, core.ShortVal(v)
}

// loadStatus: a load from a field / slice element / local.
func (a *nilAn) loadStatus(ld *ssa.UnOp, fn *ssa.Function, b *ssa.BasicBlock, depth int) (nilStatus, int, string) {
	switch addr := ld.X.(type) {
	case *ssa.FieldAddr:
		f := core.FieldOf(addr)
		if f != nil {
			owner := ownerName(addr)
			key := owner + "." + f.Name()
			if _, ok := a.cfg.NonNilFields[key]; ok {
				return nsNonNil, 0, ""
			}
			if a.cfg.OnlyOptional != nil && !a.cfg.OnlyOptional[key] {
				return nsNonNil, 0, ""
			}
			// container invariant: value read from an invariant-carrying map
			if a.fromInvariantMap(addr.X, f.Name()) {
				return nsNonNil, 0, ""
			}
			// non-nil by construction: every store into this field anywhere in the module stores a non-nil value
			if a.fieldNonNilByStores(f, depth) {
				return nsNonNil, 0, ""
			}
			// field of a by-value struct parameter: every call site passes a struct whose field was tested
			if al, ok := addr.X.(*ssa.Alloc); ok {
				if st := onlyStore(al); st != nil {
					if p, ok := st.Val.(*ssa.Parameter); ok && a.paramFieldGuarded(fn, p, f.Name()) {
						return nsNonNil, 0, ""
					}
				}
			}
			return nsNilable, 0, "field " + key
		}
	case *ssa.IndexAddr:
		if a.cfg.OnlyOptional != nil {
			return nsNonNil, 0, ""
		}
		if a.sliceElemsNonNil(addr.X, fn, depth, map[ssa.Value]bool{}) {
			return nsNonNil, 0, ""
		}
		return nsNilable, 0, "element of " + core.ShortVal(addr.X)
	case *ssa.Alloc:
		// local variable: every store into it must be non-nil at the store
		n := 0
		worst := nsNonNil
		wi, ww := 0, ""
		if addr.Referrers() != nil {
			for _, r := range *addr.Referrers() {
				st, ok := r.(*ssa.Store)
				if !ok || st.Addr != addr {
					continue
				}
				n++
				s, pi, w := a.status(st.Val, fn, st.Block(), depth+1)
				if s == nsNilable {
					return s, pi, w
				}
				if s == nsParam {
					worst, wi, ww = s, pi, w
				}
			}
		}
		if n == 0 {
			return nsNilable, 0, "zero-valued local"
		}
		return worst, wi, ww
	case *ssa.Parameter:
		// *p where p is e.g. *ValueExpr parameter: the pointee interface may be nil
		return nsNilable, 0, "pointee of " + addr.Name()
	case *ssa.FreeVar:
		// a variable of the enclosing function captured by the closure: what the enclosing
		// function stores into it (the closure itself must not store into it)
		parent := fn.Parent()
		if parent == nil {
			break
		}
		idx := -1
		for i, fv := range fn.FreeVars {
			if fv == addr {
				idx = i
			}
		}
		if addr.Referrers() != nil {
			for _, r := range *addr.Referrers() {
				if st, ok := r.(*ssa.Store); ok && st.Addr == ssa.Value(addr) {
					return nsNilable, 0, "captured variable " + addr.Name() + " (written by the closure)"
				}
			}
		}
		var bound *ssa.Alloc
		nmc := 0
		for _, pb := range parent.Blocks {
			for _, in := range pb.Instrs {
				if mc, ok := in.(*ssa.MakeClosure); ok && mc.Fn == ssa.Value(fn) && idx >= 0 && idx < len(mc.Bindings) {
					nmc++
					bound, _ = mc.Bindings[idx].(*ssa.Alloc)
				}
			}
		}
		if nmc != 1 || bound == nil || bound.Referrers() == nil {
			break
		}
		n := 0
		for _, r := range *bound.Referrers() {
			st, ok := r.(*ssa.Store)
			if !ok || st.Addr != ssa.Value(bound) {
				continue
			}
			n++
			if s, _, _ := a.status(st.Val, parent, st.Block(), depth+1); s != nsNonNil {
				return nsNilable, 0, "captured variable " + addr.Name()
			}
		}
		// other closures of the parent that capture the same variable must not write it either
		for _, an := range parent.AnonFuncs {
			for _, ab := range an.Blocks {
				for _, in := range ab.Instrs {
					if st, ok := in.(*ssa.Store); ok {
						if fv, ok := st.Addr.(*ssa.FreeVar); ok && fv.Name() == addr.Name() {
							return nsNilable, 0, "captured variable " + addr.Name() + " (written by a closure)"
						}
					}
				}
			}
		}
		if n > 0 {
			return nsNonNil, 0, ""
		}
		return nsNilable, 0, "captured variable " + addr.Name()
	}
	if a.cfg.OnlyOptional != nil {
		return nsNonNil, 0, ""
	}
	return nsNilable, 0, "load " + core.ShortVal(ld.X)
}

func ownerName(fa *ssa.FieldAddr) string {
	t := fa.X.Type()
	if p, ok := t.Underlying().(*types.Pointer); ok {
		t = p.Elem()
	}
	if n, ok := types.Unalias(t).(*types.Named); ok {
		return n.Obj().Name()
	}
	return "?"
}

// fromInvariantMap: base is (the address of a copy of) a value obtained by a lookup in /
// iteration over one of the invariant-carrying map fields, or from a function that returns such.
func (a *nilAn) fromInvariantMap(base ssa.Value, field string) bool {
	if a.cfg.MapValueNonNil == nil {
		return false
	}
	seen := map[ssa.Value]bool{}
	var from func(v ssa.Value, d int) bool
	from = func(v ssa.Value, d int) bool {
		if d > 8 || seen[v] {
			return false
		}
		seen[v] = true
		switch x := v.(type) {
		case *ssa.Alloc:
			// all stores into the local come from such a map
			n := 0
			if x.Referrers() == nil {
				return false
			}
			for _, r := range *x.Referrers() {
				if st, ok := r.(*ssa.Store); ok && st.Addr == x {
					n++
					if !from(st.Val, d+1) {
						return false
					}
				}
			}
			return n > 0
		case *ssa.Extract:
			return from(x.Tuple, d+1)
		case *ssa.Lookup:
			return a.invMap(x.X, field)
		case *ssa.Next:
			if rg, ok := x.Iter.(*ssa.Range); ok {
				return a.invMap(rg.X, field)
			}
		case *ssa.UnOp:
			if x.Op == token.MUL {
				return from(x.X, d+1)
			}
		case *ssa.Phi:
			for _, e := range x.Edges {
				if !from(e, d+1) {
					return false
				}
			}
			return true
		case *ssa.Call:
			// a module function all of whose non-nil returns are (addresses of) such values
			callee := x.Call.StaticCallee()
			if callee == nil || !a.c.P.InModule(callee) || callee.Blocks == nil {
				return false
			}
			okAny := false
			for _, ret := range core.Returns(callee) {
				if len(ret.Results) == 0 {
					return false
				}
				r0 := ret.Results[0]
				if core.IsNilConst(r0) {
					continue
				}
				sub := &nilAn{c: a.c, cfg: a.cfg}
				if !sub.fromInvariantMap(r0, field) {
					return false
				}
				okAny = true
			}
			return okAny
		case *ssa.Parameter:
			// a helper handed the value: every call in the module passes such a value
			sites, ok := a.c.argSites(x.Parent(), x)
			if !ok {
				return false
			}
			for _, s := range sites {
				if !from(s.Arg, d+1) {
					return false
				}
			}
			return true
		}
		return false
	}
	return from(base, 0)
}

func (a *nilAn) invMap(m ssa.Value, field string) bool {
	ld, ok := m.(*ssa.UnOp)
	if !ok {
		return false
	}
	f := core.FieldOf(ld.X)
	if f == nil {
		return false
	}
	// the configured names denote fields of the check state, which may have been renamed:
	// resolve them (by name, else by their type) and compare the field objects
	for name, set := range a.cfg.MapValueNonNil {
		if rf := a.c.P.Field("internal/analysis", "CheckResult", name); rf != nil && rf == f {
			return set[field]
		}
	}
	return false
}

func (a *nilAn) callStatus(call *ssa.Call, idx int, fn *ssa.Function, b *ssa.BasicBlock, depth int) (nilStatus, int, string) {
	callee := call.Call.StaticCallee()
	if callee == nil || !a.c.P.InModule(callee) || callee.Blocks == nil {
		// getters of foreign packages / interface methods returning AST types: unknown
		return nsNilable, 0, "result of " + core.ShortVal(call)
	}
	switch a.retNN[callee] {
	case 1:
		return nsNonNil, 0, ""
	case 2:
		return nsNilable, 0, "result of " + callee.Name() + " (may return nil)"
	}
	a.retNN[callee] = 2 // recursion guard: pessimistic
	all := true
	for _, ret := range core.Returns(callee) {
		if idx >= len(ret.Results) {
			all = false
			break
		}
		s, _, _ := a.status(ret.Results[idx], callee, ret.Block(), depth+1)
		if s != nsNonNil {
			all = false
			break
		}
	}
	if all {
		a.retNN[callee] = 1
		return nsNonNil, 0, ""
	}
	return nsNilable, 0, "result of " + callee.Name() + " (may return nil)"
}

// guarded: on every path to b some literal proves v non-nil: `v' != nil` true or `v' == nil`
// false with canon(v') == canon(v) (also through MakeInterface / conversions).
func (a *nilAn) guarded(v ssa.Value, fn *ssa.Function, b *ssa.BasicBlock) bool {
	if b == nil || b.Parent() != fn {
		return false
	}
	key := core.Canon(core.Strip(v))
	return a.pc(fn).Requires(b, func(l core.Lit) bool {
		// a successful comma-ok assertion of the same value proves it non-nil
		if ex, ok := l.Cond.(*ssa.Extract); ok && ex.Index == 1 && l.Val {
			if ta, ok := ex.Tuple.(*ssa.TypeAssert); ok && core.Canon(core.Strip(ta.X)) == key {
				return true
			}
		}
		bo, ok := l.Cond.(*ssa.BinOp)
		if !ok || (bo.Op != token.NEQ && bo.Op != token.EQL) {
			return false
		}
		// f(v) compared with a constant, where f answers a known constant for a nil argument
		if differs, ok := a.answerDiffersFromNil(bo, key); ok {
			return differs == l.Val
		}
		var other ssa.Value
		if core.IsNilConst(bo.Y) {
			other = bo.X
		} else if core.IsNilConst(bo.X) {
			other = bo.Y
		} else {
			return false
		}
		if core.Canon(core.Strip(other)) != key {
			return false
		}
		return (bo.Op == token.NEQ) == l.Val
	})
}

// answerDiffersFromNil: bo compares the result of a module function applied to the value with
// canon key `key` with a string constant C, and that function returns the constant K whenever
// that argument is nil. Returns (d, true) where d is the truth value of bo under which the
// result certainly differs from K (so the argument is not nil).
func (a *nilAn) answerDiffersFromNil(bo *ssa.BinOp, key string) (bool, bool) {
	call, cst := bo.X, bo.Y
	if _, ok := call.(*ssa.Const); ok {
		call, cst = cst, call
	}
	cs, ok := core.ConstString(cst)
	if !ok {
		return false, false
	}
	cl, ok := call.(*ssa.Call)
	if !ok {
		return false, false
	}
	sc := cl.Call.StaticCallee()
	if sc == nil || !a.c.P.InModule(sc) || len(sc.Blocks) == 0 {
		return false, false
	}
	for i, arg := range cl.Call.Args {
		if i >= len(sc.Params) || core.Canon(core.Strip(arg)) != key {
			continue
		}
		k, ok := nilAnswer(sc, i)
		if !ok {
			continue
		}
		if cs == k {
			// result != K  <=>  bo(NEQ) true / bo(EQL) false
			return bo.Op == token.NEQ, true
		}
		// result == C (C != K)  <=>  bo(EQL) true; bo(NEQ) false
		return bo.Op == token.EQL, true
	}
	return false, false
}

// nilAnswer: the string constant fn returns when its idx-th parameter is nil, found by
// following the only feasible branches (failed type assertions, nil tests) from the entry.
func nilAnswer(fn *ssa.Function, idx int) (string, bool) {
	p := fn.Params[idx]
	// the values known to be nil on the path followed: the parameter, and a phi (the variable
	// reassigned in a loop) whose incoming value on that path is one of them
	nilVals := map[ssa.Value]bool{p: true}
	isP := func(v ssa.Value) bool { return nilVals[core.Strip(v)] }
	b := fn.Blocks[0]
	var prev *ssa.BasicBlock
	for steps := 0; steps < 400; steps++ {
		if prev != nil {
			for pi, pb := range b.Preds {
				if pb != prev {
					continue
				}
				for _, in := range b.Instrs {
					ph, ok := in.(*ssa.Phi)
					if !ok {
						break
					}
					if e := ph.Edges[pi]; isP(e) || core.IsNilConst(e) {
						nilVals[ph] = true
					} else {
						delete(nilVals, ph)
					}
				}
				break
			}
		}
		prev = b
		switch t := b.Instrs[len(b.Instrs)-1].(type) {
		case *ssa.Jump:
			b = b.Succs[0]
		case *ssa.Return:
			if len(t.Results) != 1 {
				return "", false
			}
			if k, ok := core.ConstString(t.Results[0]); ok {
				return k, true
			}
			// handed on to another function of the module: what that one answers for nil
			if call, ok := t.Results[0].(*ssa.Call); ok {
				if sc := call.Call.StaticCallee(); sc != nil && len(sc.Blocks) > 0 && sc != fn {
					for ai, a := range call.Call.Args {
						if isP(a) && ai < len(sc.Params) {
							return nilAnswer(sc, ai)
						}
					}
				}
			}
			return "", false
		case *ssa.If:
			switch cnd := t.Cond.(type) {
			case *ssa.Extract:
				ta, ok := cnd.Tuple.(*ssa.TypeAssert)
				if !ok || cnd.Index != 1 || !isP(ta.X) {
					return "", false
				}
				b = b.Succs[1]
			case *ssa.BinOp:
				var other ssa.Value
				if core.IsNilConst(cnd.Y) {
					other = cnd.X
				} else if core.IsNilConst(cnd.X) {
					other = cnd.Y
				}
				if other == nil || !isP(other) {
					return "", false
				}
				if cnd.Op == token.EQL {
					b = b.Succs[0]
				} else if cnd.Op == token.NEQ {
					b = b.Succs[1]
				} else {
					return "", false
				}
			default:
				return "", false
			}
		default:
			return "", false
		}
	}
	return "", false
}

// okTrue: the ok component of the comma-ok assertion is true on every path to b.
func (a *nilAn) okTrue(ta *ssa.TypeAssert, fn *ssa.Function, b *ssa.BasicBlock) bool {
	if b == nil || b.Parent() != fn {
		return false
	}
	return a.pc(fn).Requires(b, func(l core.Lit) bool {
		ex, ok := l.Cond.(*ssa.Extract)
		return ok && ex.Tuple == ta && ex.Index == 1 && l.Val
	})
}

// analyse lists the unguarded dereferences of fn that are not attributable to a parameter;
// parameter dereferences are recorded as requirements (collect=true updates the table).
func (a *nilAn) analyse(fn *ssa.Function, collect bool) []nilFinding {
	var out []nilFinding
	if a.nDeref == nil {
		a.nDeref = map[*ssa.Function]int{}
	}
	n := 0
	need := func(v ssa.Value, b *ssa.BasicBlock, pos token.Pos, what, how string) {
		if !a.isASTType(v.Type()) {
			return
		}
		n++
		s, pi, w := a.status(v, fn, b, 0)
		switch s {
		case nsNilable:
			out = append(out, nilFinding{fn: fn, pos: pos, what: what, why: how + " of a possibly-nil AST value (" + w + ") without a nil test on every path: crashes on a partial tree"})
		case nsParam:
			if pi >= 0 {
				if a.req[fn] == nil {
					a.req[fn] = map[int]string{}
				}
				if _, had := a.req[fn][pi]; !had {
					a.req[fn][pi] = a.c.P.Pos(pos)
					a.dirty = true
				}
			}
		}
	}
	for _, b := range fn.Blocks {
		for _, in := range b.Instrs {
			switch x := in.(type) {
			case *ssa.FieldAddr:
				if _, isAlloc := x.X.(*ssa.Alloc); isAlloc {
					continue
				}
				need(x.X, b, x.Pos(), "field:"+fieldName(x), "field access")
			case *ssa.UnOp:
				if x.Op == token.MUL {
					if _, isPtrToIface := derefIface(x.X.Type()); isPtrToIface {
						need(x.X, b, x.Pos(), "load:"+typeShort(x.X.Type()), "pointer load")
					}
				}
			case ssa.CallInstruction:
				call := x.Common()
				if call.IsInvoke() {
					need(call.Value, b, x.Pos(), "invoke:"+call.Method.Name(), "method call "+call.Method.Name()+"()")
					continue
				}
				callee := call.StaticCallee()
				if callee == nil {
					continue
				}
				// method with pointer receiver on an AST node: promoted/declared methods dereference it
				if callee.Signature.Recv() != nil && len(call.Args) > 0 && !a.c.P.InModule(callee) {
					continue
				}
				if reqs := a.req[callee]; reqs != nil {
					idxs := make([]int, 0, len(reqs))
					for i := range reqs {
						idxs = append(idxs, i)
					}
					sort.Ints(idxs)
					for _, i := range idxs {
						if i < len(call.Args) {
							need(call.Args[i], b, x.Pos(), fmt.Sprintf("arg:%s#%d", callee.Name(), i), "passing it to "+callee.Name()+" (which dereferences that parameter at "+reqs[i]+")")
						}
					}
				}
				// value-receiver/promoted method called through a pointer to an AST node: wrapper derefs
				if callee.Signature.Recv() != nil && len(call.Args) > 0 && a.isASTType(call.Args[0].Type()) && callee.Synthetic != "" {
					need(call.Args[0], b, x.Pos(), "recv:"+callee.Name(), "method call "+callee.Name()+"() through a pointer")
				}
			}
		}
	}
	a.nDeref[fn] = n
	// requirements of exported entry points cannot be pushed to callers outside the scope:
	// they stay requirements only if every in-scope caller satisfies them; a function without
	// in-scope callers that requires a non-nil AST parameter is reported.
	if !collect {
		if reqs := a.req[fn]; reqs != nil && !a.hasCallers(fn) {
			for i, at := range reqs {
				pname := "?"
				if i < len(fn.Params) {
					pname = fn.Params[i].Name()
				}
				out = append(out, nilFinding{fn: fn, pos: fn.Pos(), what: "param:" + pname, why: "parameter " + pname + " (an AST value that may be nil) is dereferenced unguarded at " + at + " and the function is an entry point"})
			}
		}
	}
	return out
}

func (a *nilAn) hasCallers(fn *ssa.Function) bool {
	n := a.c.P.CallGraph().Nodes[fn]
	if n == nil {
		return false
	}
	for _, e := range n.In {
		if a.c.P.InModule(e.Caller.Func) {
			return true
		}
	}
	return false
}

func fieldName(fa *ssa.FieldAddr) string {
	if f := core.FieldOf(fa); f != nil {
		return ownerName(fa) + "." + f.Name()
	}
	return "?"
}

func derefIface(t types.Type) (types.Type, bool) {
	if p, ok := t.Underlying().(*types.Pointer); ok {
		if _, isI := p.Elem().Underlying().(*types.Interface); isI {
			return p.Elem(), true
		}
	}
	return nil, false
}

var _ = strings.Join

// NilModelChecks verifies the facts the nil model relies on: (a) FnCall.Caller is always
// built from an address-of literal; (b) VarDeclaration.Type comes from the first token of
// its grammar rule; (c) declarations enter the checker's maps only with a non-nil Name.
func (c *Ctx) NilModelChecks(ob *core.Obligation) {
	// (a) constructors of FnCall
	callerF := c.P.Field("internal/parser", "FnCall", "Caller")
	typeF := c.P.Field("internal/parser", "VarDeclaration", "Type")
	if callerF == nil || typeF == nil {
		ob.Unknown("anchor:parser.FnCall.Caller", "-", "AST fields not found")
		return
	}
	nCaller, nType := 0, 0
	for _, fn := range c.P.ModuleFunctions() {
		for _, b := range fn.Blocks {
			for _, in := range b.Instrs {
				st, ok := in.(*ssa.Store)
				if !ok {
					continue
				}
				switch core.FieldOf(st.Addr) {
				case callerF:
					nCaller++
					if _, isAlloc := st.Val.(*ssa.Alloc); isAlloc {
						ob.Pass("nilmodel:FnCall.Caller:"+core.SSAName(fn), c.P.Pos(st.Pos()), "Caller is the address of a fresh FnCallIdentifier")
					} else {
						ob.Fail("nilmodel:FnCall.Caller:"+core.SSAName(fn), c.P.Pos(st.Pos()), "FnCall.Caller is assigned something other than a fresh literal: it may be nil, but the checker, hover and LSP handlers dereference it unguarded")
					}
				case typeF:
					nType++
					key := "nilmodel:VarDeclaration.Type:" + core.SSAName(fn)
					call, ok := st.Val.(*ssa.Call)
					good := false
					if ok {
						if callee := call.Call.StaticCallee(); callee != nil && len(call.Call.Args) == 1 {
							if g, ok := call.Call.Args[0].(*ssa.Call); ok && g.Call.IsInvoke() && g.Call.Method.Name() == "GetType_" {
								gr, err := c.Grammar()
								if err == nil {
									if alt := gr.AltByLabel("varDeclaration", ""); alt != nil && len(alt.Elems) > 0 && alt.Elems[0].Label == "type_" && alt.Elems[0].IsToken && !alt.Elems[0].Optional {
										good = true
									}
								}
							}
						}
					}
					if good {
						ob.Pass(key, c.P.Pos(st.Pos()), "Type is read from type_, the first token of varDeclaration in Numscript.g4: always present and never conjured")
					} else {
						ob.Fail(key, c.P.Pos(st.Pos()), "VarDeclaration.Type is no longer provably non-nil (not the first token of its rule), but GetSymbols / hover dereference it unguarded")
					}
				}
			}
		}
	}
	if nCaller == 0 || nType == 0 {
		ob.Unknown("nilmodel:constructors", "-", "no constructor of FnCall / VarDeclaration found")
	}
	// (b2) SourceOverdraft.Address: both overdraft alternatives are `address = valueExpr ALLOWING ...`,
	// so they can only be predicted after a complete address expression followed by ALLOWING
	if gr, err := c.Grammar(); err != nil {
		ob.Unknown("nilmodel:SourceOverdraft.Address", "-", "cannot read Numscript.g4: "+err.Error())
	} else {
		for _, lbl := range []string{"srcAccountUnboundedOverdraft", "srcAccountBoundedOverdraft"} {
			alt := gr.AltByLabel("source", lbl)
			key := "nilmodel:SourceOverdraft.Address:" + lbl
			if alt != nil && len(alt.Elems) >= 2 && alt.Elems[0].Label == "address" && !alt.Elems[0].IsToken && !alt.Elems[0].Optional && alt.Elems[1].IsToken && !alt.Elems[1].Optional {
				ob.Pass(key, "Numscript.g4", "the alternative starts with the address expression followed by a mandatory keyword: it is only predicted after a complete address")
			} else {
				ob.Fail(key, "Numscript.g4", "the overdraft alternative no longer starts with `address = valueExpr <keyword>`: SourceOverdraft.Address may be nil, but checkSource dereferences it unguarded")
			}
		}
	}
	// (c) map insert invariants
	for _, mf := range []string{"declaredVars", "varResolution"} {
		f := c.P.Field("internal/analysis", "CheckResult", mf)
		if f == nil {
			ob.Unknown("anchor:analysis.CheckResult."+mf, "-", "map field not found")
			continue
		}
		n := 0
		for _, fn := range c.P.ModuleFunctions() {
			for _, b := range fn.Blocks {
				for _, in := range b.Instrs {
					mu, ok := in.(*ssa.MapUpdate)
					if !ok {
						continue
					}
					ld, ok := mu.Map.(*ssa.UnOp)
					if !ok || core.FieldOf(ld.X) != f {
						continue
					}
					n++
					key := "nilmodel:" + mf + ":" + core.SSAName(fn)
					if ok, why := c.nameNonNilAtInsert(mu.Value, fn, mu.Block(), 0); ok {
						ob.Pass(key, c.P.Pos(mu.Pos()), "declaration stored with a non-nil Name: "+why)
					} else {
						ob.Fail(key, c.P.Pos(mu.Pos()), "a declaration can enter "+mf+" with a nil Name ("+why+"), but symbols/definition/hover dereference the Name of stored declarations")
					}
				}
			}
		}
		if n == 0 {
			ob.Unknown("nilmodel:"+mf, "-", "no insertion into "+mf+" found")
		}
	}
}

// nameNonNilAtInsert: the VarDeclaration value v has a non-nil Name: it was read from an
// invariant map, or it is a parameter whose every call site passes a declaration whose Name
// was tested non-nil on the path to the call.
func (c *Ctx) nameNonNilAtInsert(v ssa.Value, fn *ssa.Function, b *ssa.BasicBlock, depth int) (bool, string) {
	if depth > 4 {
		return false, "too deep"
	}
	a := &nilAn{c: c, cfg: NilGuardCfg{MapValueNonNil: map[string]map[string]bool{"declaredVars": {"Name": true}, "varResolution": {"Name": true}}}}
	if a.fromInvariantMap(v, "Name") {
		return true, "copied from another declaration map"
	}
	switch x := v.(type) {
	case *ssa.UnOp:
		if x.Op == token.MUL {
			if al, ok := x.X.(*ssa.Alloc); ok {
				// local / spilled parameter
				if st := onlyStore(al); st != nil {
					if p, ok := st.Val.(*ssa.Parameter); ok {
						return c.paramNameGuarded(fn, p, depth)
					}
				}
				// guard on the same local: alloc.Name != nil on the path
				if c.fieldGuarded(al, "Name", fn, b) {
					return true, "Name tested non-nil before the insertion"
				}
			}
		}
	case *ssa.Parameter:
		return c.paramNameGuarded(fn, x, depth)
	}
	return false, "value of unknown origin " + core.ShortVal(v)
}

func onlyStore(al *ssa.Alloc) *ssa.Store {
	var st *ssa.Store
	if al.Referrers() == nil {
		return nil
	}
	for _, r := range *al.Referrers() {
		if s, ok := r.(*ssa.Store); ok && s.Addr == al {
			if st != nil {
				return nil
			}
			st = s
		}
	}
	return st
}

func (c *Ctx) paramNameGuarded(fn *ssa.Function, p *ssa.Parameter, depth int) (bool, string) {
	idx := paramIndex(fn, p)
	node := c.P.CallGraph().Nodes[fn]
	if node == nil || idx < 0 || len(node.In) == 0 {
		return false, "parameter without callers"
	}
	for _, e := range node.In {
		args := core.CallArgs(e.Site.Common())
		if idx >= len(args) {
			return false, "call site without that argument"
		}
		arg := args[idx]
		caller := e.Caller.Func
		ld, ok := arg.(*ssa.UnOp)
		if !ok {
			return false, "argument of unknown shape at " + c.P.Pos(e.Site.Pos())
		}
		al, ok := ld.X.(*ssa.Alloc)
		if !ok || !c.fieldGuarded(al, "Name", caller, e.Site.Block()) {
			return false, "call at " + c.P.Pos(e.Site.Pos()) + " is not under a `Name != nil` test of the declaration passed"
		}
	}
	return true, "every call site passes a declaration whose Name was tested non-nil"
}

// fieldGuarded: every path to b contains the literal `<al>.<field> != nil`.
func (c *Ctx) fieldGuarded(al *ssa.Alloc, field string, fn *ssa.Function, b *ssa.BasicBlock) bool {
	pc := core.NewPathConds(fn)
	return pc.Requires(b, func(l core.Lit) bool {
		bo, ok := l.Cond.(*ssa.BinOp)
		if !ok || (bo.Op != token.NEQ && bo.Op != token.EQL) {
			return false
		}
		var other ssa.Value
		if core.IsNilConst(bo.Y) {
			other = bo.X
		} else if core.IsNilConst(bo.X) {
			other = bo.Y
		} else {
			return false
		}
		ld, ok := other.(*ssa.UnOp)
		if !ok {
			return false
		}
		fa, ok := ld.X.(*ssa.FieldAddr)
		if !ok || fa.X != al {
			return false
		}
		f := core.FieldOf(fa)
		return f != nil && f.Name() == field && (bo.Op == token.NEQ) == l.Val
	})
}

// fieldNonNilByStores: every store into field f, anywhere in the module, stores a value that
// is non-nil at the store (and there is at least one store).
func (a *nilAn) fieldNonNilByStores(f *types.Var, depth int) bool {
	if a.fieldNN == nil {
		a.fieldNN = map[*types.Var]int{}
	}
	switch a.fieldNN[f] {
	case 1:
		return true
	case 2:
		return false
	}
	a.fieldNN[f] = 2 // pessimistic during recursion
	n := 0
	for _, g := range a.c.P.ModuleFunctions() {
		for _, b := range g.Blocks {
			for _, in := range b.Instrs {
				st, ok := in.(*ssa.Store)
				if !ok || core.FieldOf(st.Addr) != f {
					continue
				}
				n++
				if s, _, _ := a.status(st.Val, g, b, depth+1); s != nsNonNil {
					// a constructor storing its parameter: non-nil if every call site passes a
					// non-nil value
					if p, ok := resolveLocal(st.Val).(*ssa.Parameter); ok && p.Parent() == g && a.paramNonNilAtCallSites(g, p, depth+1) {
						continue
					}
					return false
				}
			}
		}
	}
	if n == 0 {
		return false
	}
	a.fieldNN[f] = 1
	return true
}

// paramNonNilAtCallSites: every static call of fn passes a provably non-nil value for p.
func (a *nilAn) paramNonNilAtCallSites(fn *ssa.Function, p *ssa.Parameter, depth int) bool {
	if depth > 4 {
		return false
	}
	idx := paramIndex(fn, p)
	n := 0
	for _, g := range a.c.P.ModuleFunctions() {
		for _, ci := range core.Calls(g) {
			if ci.Common().StaticCallee() != fn || idx < 0 || idx >= len(ci.Common().Args) {
				continue
			}
			n++
			arg := ci.Common().Args[idx]
			if s, _, _ := a.status(arg, g, ci.Block(), depth+1); s != nsNonNil && !a.guarded(arg, g, ci.Block()) {
				return false
			}
		}
	}
	return n > 0
}

// paramFieldGuarded: at every call site of fn the argument for p is a load of a local struct
// whose field was tested non-nil on every path to the call.
func (a *nilAn) paramFieldGuarded(fn *ssa.Function, p *ssa.Parameter, field string) bool {
	return a.paramFieldGuardedD(fn, p, field, 0)
}

func (a *nilAn) paramFieldGuardedD(fn *ssa.Function, p *ssa.Parameter, field string, depth int) bool {
	idx := paramIndex(fn, p)
	node := a.c.P.CallGraph().Nodes[fn]
	if node == nil || idx < 0 || len(node.In) == 0 || depth > 3 {
		return false
	}
	for _, e := range node.In {
		args := core.CallArgs(e.Site.Common())
		if idx >= len(args) {
			return false
		}
		caller := e.Caller.Func
		// the caller forwards its own parameter (possibly spilled to a local): its callers answer
		if q := forwardedParam(args[idx], caller); q != nil {
			if a.paramFieldGuardedD(caller, q, field, depth+1) {
				continue
			}
		}
		ld, ok := args[idx].(*ssa.UnOp)
		if !ok {
			return false
		}
		al, ok := ld.X.(*ssa.Alloc)
		if !ok || !a.c.fieldGuarded(al, field, caller, e.Site.Block()) {
			return false
		}
	}
	return true
}

// forwardedParam: v is a parameter of fn, or a load of the local it was spilled to (never
// reassigned).
func forwardedParam(v ssa.Value, fn *ssa.Function) *ssa.Parameter {
	if p, ok := v.(*ssa.Parameter); ok && p.Parent() == fn {
		return p
	}
	if ld, ok := v.(*ssa.UnOp); ok && ld.Op == token.MUL {
		if al, ok := ld.X.(*ssa.Alloc); ok {
			if st := onlyStore(al); st != nil {
				if p, ok := st.Val.(*ssa.Parameter); ok && p.Parent() == fn {
					return p
				}
			}
		}
	}
	return nil
}

// sliceElemsNonNil: the slice is a local built only by appends of values that are non-nil at
// the append (the `if x != nil { xs = append(xs, x) }` filter idiom).
func (a *nilAn) sliceElemsNonNil(v ssa.Value, fn *ssa.Function, depth int, seen map[ssa.Value]bool) bool {
	if seen[v] {
		return true
	}
	seen[v] = true
	switch x := v.(type) {
	case *ssa.Const:
		return x.Value == nil // nil slice: no elements
	case *ssa.Phi:
		for _, e := range x.Edges {
			if !a.sliceElemsNonNil(e, fn, depth, seen) {
				return false
			}
		}
		return true
	case *ssa.Parameter:
		// every call site passes a slice of non-nil elements
		g := x.Parent()
		idx := paramIndex(g, x)
		n := 0
		for _, h := range a.c.P.ModuleFunctions() {
			for _, ci := range core.Calls(h) {
				if ci.Common().StaticCallee() != g || idx < 0 || idx >= len(ci.Common().Args) {
					continue
				}
				n++
				if depth > 6 || !a.sliceElemsNonNil(ci.Common().Args[idx], h, depth+1, seen) {
					return false
				}
			}
		}
		return n > 0
	case *ssa.UnOp:
		// a local slice variable: everything stored into it
		if al, ok := x.X.(*ssa.Alloc); ok && x.Op == token.MUL && al.Referrers() != nil {
			n := 0
			for _, r := range *al.Referrers() {
				if st, ok := r.(*ssa.Store); ok && st.Addr == ssa.Value(al) {
					n++
					if !a.sliceElemsNonNil(st.Val, fn, depth, seen) {
						return false
					}
				}
			}
			return n > 0
		}
		return false
	case *ssa.Call:
		if sc := x.Call.StaticCallee(); sc != nil && a.c.P.InModule(sc) && len(sc.Blocks) > 0 {
			// a module function that hands back a slice: everything it returns
			if depth > 6 {
				return false
			}
			for _, ret := range core.Returns(sc) {
				if len(ret.Results) == 0 || !a.sliceElemsNonNil(ret.Results[0], sc, depth+1, seen) {
					return false
				}
			}
			return true
		}
		b, ok := x.Call.Value.(*ssa.Builtin)
		if !ok || b.Name() != "append" || len(x.Call.Args) != 2 {
			return false
		}
		if !a.sliceElemsNonNil(x.Call.Args[0], fn, depth, seen) {
			return false
		}
		sl, ok := x.Call.Args[1].(*ssa.Slice)
		if !ok {
			return false
		}
		arr, ok := sl.X.(*ssa.Alloc)
		if !ok || arr.Referrers() == nil {
			return false
		}
		for _, r := range *arr.Referrers() {
			ia, ok := r.(*ssa.IndexAddr)
			if !ok {
				continue
			}
			for _, r2 := range *ia.Referrers() {
				if st, ok := r2.(*ssa.Store); ok && st.Addr == ia {
					if s, _, _ := a.status(st.Val, fn, st.Block(), depth+1); s != nsNonNil {
						if p, ok := resolveLocal(st.Val).(*ssa.Parameter); ok && p.Parent() == fn && a.paramNonNilAtCallSites(fn, p, depth+1) {
							continue
						}
						return false
					}
				}
			}
		}
		return true
	}
	return false
}

// SideTypeOfAnyOnNil: the checker's type-inference helper returns the constant "any" on its
// default arm (where a nil expression lands), so a result different from "any" implies a
// non-nil argument.
func SideInferAnyOnNil(rel, fn string) func(c *Ctx) (bool, string) {
	return func(c *Ctx) (bool, string) {
		obj := c.P.LookupFunc(rel, fn)
		if obj == nil {
			return false, "function " + fn + " not found"
		}
		for _, sw := range c.Switches() {
			if sw.Func != obj {
				continue
			}
			if sw.HasNilCase() {
				return false, "nil has its own case"
			}
			if sw.Default == nil {
				return false, "no default arm"
			}
			info := sw.Pkg.TypesInfo
			okAll := len(sw.Default.CC.Body) > 0
			for _, st := range sw.Default.CC.Body {
				ret, isRet := st.(*ast.ReturnStmt)
				if !isRet || len(ret.Results) != 1 {
					okAll = false
					break
				}
				tv := info.Types[ret.Results[0]]
				if tv.Value == nil || tv.Value.ExactString() != `"any"` {
					okAll = false
				}
			}
			if okAll {
				return true, ""
			}
			return false, "the default arm does not return the constant \"any\""
		}
		return false, "no type switch in " + fn
	}
}
