package rules

import (
	"fmt"
	"go/ast"
	"go/token"
	"go/types"

	"nsa/core"

	"golang.org/x/tools/go/ssa"
)

// Side conditions of panic exceptions: cheap mechanical facts that must keep holding for the
// stated reason to stay true.

type SideFn = func(c *Ctx, fn *ssa.Function, in ssa.Instruction) (bool, string)

// SideVariadicNonEmpty: every call of the (possibly generic) function rel.name passes at
// least one variadic argument (the variadic slice is a slice of a fixed-size array, N >= 1).
func SideVariadicNonEmpty(rel, name string) SideFn {
	return func(c *Ctx, _ *ssa.Function, _ ssa.Instruction) (bool, string) {
		obj := c.P.LookupFunc(rel, name)
		if obj == nil {
			return false, "function " + name + " not found"
		}
		n := 0
		for _, fn := range c.P.ModuleFunctions() {
			for _, ci := range core.Calls(fn) {
				o := core.CalleeObj(ci.Common())
				if o == nil || o.Origin() != obj {
					continue
				}
				args := ci.Common().Args
				last := args[len(args)-1]
				// an instantiation wrapper forwarding its own variadic parameter is not a call site
				fwd := last
				if ct, isCT := fwd.(*ssa.ChangeType); isCT {
					fwd = ct.X
				}
				if p, isParam := fwd.(*ssa.Parameter); isParam && p.Parent() == fn && fn.Signature.Variadic() && (fn.Synthetic != "" || (fn.Origin() != nil && fn.Origin().Object() == obj)) {
					continue
				}
				n++
				sl, ok := last.(*ssa.Slice)
				if !ok {
					if core.IsNilConst(last) {
						return false, "called without variadic arguments at " + c.P.Pos(ci.Pos())
					}
					return false, "variadic argument of unknown length at " + c.P.Pos(ci.Pos())
				}
				arr, ok := derefArray(sl.X.Type())
				if !ok || arr.Len() < 1 {
					return false, "empty variadic argument at " + c.P.Pos(ci.Pos())
				}
			}
		}
		if n == 0 {
			return false, "no call site found"
		}
		return true, ""
	}
}

// SideOneAppendPerArm: in function rel.name, the type switch over a closed sum that fills a
// slice has exactly one `s = append(s, x)` in each arm (for the same s), the switch is
// exhaustive, and it is the only place s is appended to: the slice ends up with one element
// per iteration.
func SideOneAppendPerArm(rel, name string) SideFn {
	return func(c *Ctx, _ *ssa.Function, _ ssa.Instruction) (bool, string) {
		obj := c.P.LookupFunc(rel, name)
		fd := c.P.Decl(obj)
		if obj == nil || fd == nil {
			return false, "function " + name + " not found"
		}
		for _, sw := range c.Switches() {
			if sw.Func != obj {
				continue
			}
			for _, impl := range sw.Sum.Impls {
				if cl, _ := sw.Covers(impl, sw.Sum.ByValue[impl]); cl == nil {
					return false, "switch over " + sw.Sum.Name() + " does not handle " + impl.Obj().Name()
				}
			}
			info := sw.Pkg.TypesInfo
			var target types.Object
			for _, cl := range sw.Clauses {
				n := 0
				for _, st := range cl.CC.Body {
					ast.Inspect(st, func(x ast.Node) bool {
						as, ok := x.(*ast.AssignStmt)
						if !ok || len(as.Lhs) != 1 || len(as.Rhs) != 1 {
							return true
						}
						call, ok := as.Rhs[0].(*ast.CallExpr)
						if !ok {
							return true
						}
						if id, ok := call.Fun.(*ast.Ident); !ok || id.Name != "append" {
							return true
						}
						lhs, ok := as.Lhs[0].(*ast.Ident)
						if !ok || len(call.Args) != 2 || call.Ellipsis != token.NoPos {
							return true
						}
						o := info.Uses[lhs]
						if o == nil {
							o = info.Defs[lhs]
						}
						if target == nil {
							target = o
						}
						if o == target {
							n++
						}
						return true
					})
				}
				if n != 1 {
					return false, fmt.Sprintf("an arm of the switch over %s at %s appends %d element(s) to the result slice instead of exactly one", sw.Sum.Name(), c.P.Pos(cl.CC.Pos()), n)
				}
			}
			if target == nil {
				continue
			}
			// no other append to the target in the function
			total := 0
			ast.Inspect(fd.Body, func(x ast.Node) bool {
				as, ok := x.(*ast.AssignStmt)
				if !ok || len(as.Lhs) != 1 || len(as.Rhs) != 1 {
					return true
				}
				if call, ok := as.Rhs[0].(*ast.CallExpr); ok {
					if id, ok := call.Fun.(*ast.Ident); ok && id.Name == "append" {
						if lhs, ok := as.Lhs[0].(*ast.Ident); ok && (info.Uses[lhs] == target || info.Defs[lhs] == target) {
							total++
						}
					}
				}
				return true
			})
			if total != len(sw.Clauses) {
				return false, "the result slice is also appended to outside the switch arms"
			}
			return true, ""
		}
		return false, "no switch over a closed sum found in " + name
	}
}

// SideCounterField: the integer field rel.typ.field is only ever written by "field = field + k"
// with k >= 0 (or never), so a value read from it is never negative; and the site's upper
// bound follows from the path condition.
func SideCounterField(rel, typ, field string) SideFn {
	return func(c *Ctx, fn *ssa.Function, in ssa.Instruction) (bool, string) {
		f := c.P.Field(rel, typ, field)
		if f == nil {
			return false, "field " + typ + "." + field + " not found"
		}
		for _, g := range c.P.ModuleFunctions() {
			for _, b := range g.Blocks {
				for _, i2 := range b.Instrs {
					st, ok := i2.(*ssa.Store)
					if !ok || core.FieldOf(st.Addr) != f {
						continue
					}
					bo, ok := st.Val.(*ssa.BinOp)
					k, isK := int64(0), false
					if ok {
						k, isK = core.ConstInt(bo.Y)
					}
					if !ok || bo.Op != token.ADD || !isK || k < 0 {
						return false, "field " + field + " is written by something other than an increment at " + c.P.Pos(st.Pos())
					}
					ld, ok := bo.X.(*ssa.UnOp)
					if !ok || core.FieldOf(ld.X) != f {
						return false, "field " + field + " is incremented from another value at " + c.P.Pos(st.Pos())
					}
				}
			}
		}
		ia, ok := in.(*ssa.IndexAddr)
		if !ok {
			return false, "not an index site"
		}
		ld, ok := core.Strip(ia.Index).(*ssa.UnOp)
		if !ok || core.FieldOf(ld.X) != f {
			return false, "the index is not read from " + field
		}
		if ok, _ := c.boundsOK(in.Block(), ia.X, ia.Index, 0, core.NewPathConds(fn), true); !ok {
			return false, "the upper bound of the index is not implied by the path condition"
		}
		return true, ""
	}
}

// SideSeverityProducers: every method named method on the implementers of rel.iface returns,
// on every path, a constant that is a case label of the value switch enclosing the site.
func SideConstProducers(rel, iface, method string) SideFn {
	return func(c *Ctx, fn *ssa.Function, in ssa.Instruction) (bool, string) {
		// labels of the enclosing switch
		obj := originObj(fn)
		fd := c.P.Decl(obj)
		if fd == nil {
			return false, "no syntax for " + fn.Name()
		}
		var info *types.Info
		for _, pkg := range c.P.Pkgs {
			if pkg.Types == obj.Pkg() {
				info = pkg.TypesInfo
			}
		}
		labels := map[string]bool{}
		ast.Inspect(fd, func(n ast.Node) bool {
			if cc, ok := n.(*ast.CaseClause); ok {
				for _, e := range cc.List {
					if tv := info.Types[e]; tv.Value != nil {
						labels[tv.Value.ExactString()] = true
					}
				}
			}
			return true
		})
		it := c.P.Named(rel, iface)
		if it == nil {
			return false, "interface " + iface + " not found"
		}
		ifc, _ := it.Underlying().(*types.Interface)
		n := 0
		pkg := c.P.Pkg(rel)
		for _, name := range pkg.Types.Scope().Names() {
			tn, ok := pkg.Types.Scope().Lookup(name).(*types.TypeName)
			if !ok || tn.IsAlias() {
				continue
			}
			nt, ok := tn.Type().(*types.Named)
			if !ok {
				continue
			}
			if _, isI := nt.Underlying().(*types.Interface); isI {
				continue
			}
			if !types.Implements(nt, ifc) && !types.Implements(types.NewPointer(nt), ifc) {
				continue
			}
			for i := 0; i < nt.NumMethods(); i++ {
				if nt.Method(i).Name() != method {
					continue
				}
				sf := c.P.SSAFunc(nt.Method(i))
				if sf == nil {
					return false, "no SSA for " + nt.Obj().Name() + "." + method
				}
				for _, ret := range core.Returns(sf) {
					k, ok := ret.Results[0].(*ssa.Const)
					if !ok || k.Value == nil || !labels[k.Value.ExactString()] {
						return false, nt.Obj().Name() + "." + method + " can return a value that is not a case of the switch (" + core.ShortVal(ret.Results[0]) + ")"
					}
					n++
				}
			}
		}
		if n == 0 {
			return false, "no producer found"
		}
		return true, ""
	}
}

// SideBuiltUnderCmpNE: every composite literal of rel.typ stores into field a value v such
// that, on every path to the literal, a three-way comparison of v with the constant one
// (big.NewRat(1,1)) has excluded equality.
func SideBuiltUnderCmpNE(rel, typ, field string) SideFn {
	return func(c *Ctx, _ *ssa.Function, _ ssa.Instruction) (bool, string) {
		f := c.P.Field(rel, typ, field)
		if f == nil {
			return false, "field " + typ + "." + field + " not found"
		}
		n := 0
		for _, g := range c.P.ModuleFunctions() {
			var pc *core.PathConds
			for _, b := range g.Blocks {
				for _, in := range b.Instrs {
					st, ok := in.(*ssa.Store)
					if !ok || core.FieldOf(st.Addr) != f {
						continue
					}
					n++
					if pc == nil {
						pc = core.NewPathConds(g)
					}
					if comparedUnequalToOne(pc, b, st.Val) {
						continue
					}
					// a reporting helper that is handed the value: the comparison is owed by its callers
					okCallers := false
					if p := forwardedParam(resolveLocal(st.Val), g); p != nil {
						if p0, isP := resolveLocal(st.Val).(*ssa.Parameter); isP {
							p = p0
						}
						idx := paramIndex(g, p)
						nc := 0
						okCallers = true
						for _, h := range c.P.ModuleFunctions() {
							var hpc *core.PathConds
							for _, ci := range core.Calls(h) {
								if ci.Common().StaticCallee() != g || idx < 0 || idx >= len(ci.Common().Args) {
									continue
								}
								nc++
								if hpc == nil {
									hpc = core.NewPathConds(h)
								}
								if !comparedUnequalToOne(hpc, ci.Block(), ci.Common().Args[idx]) {
									okCallers = false
								}
							}
						}
						okCallers = okCallers && nc > 0
					}
					if !okCallers {
						return false, typ + " is built at " + c.P.Pos(st.Pos()) + " on a path where its " + field + " was not compared unequal to one"
					}
				}
			}
		}
		if n == 0 {
			return false, "no construction site found"
		}
		return true, ""
	}
}

// comparedUnequalToOne: on every path to b the value v (a big.Rat) was compared with one and
// found different.
func comparedUnequalToOne(pc *core.PathConds, b *ssa.BasicBlock, v ssa.Value) bool {
	want := core.Canon(v)
	for _, term := range pc.At(b) {
		ok := false
		for _, l := range term {
			cmp, rel, is := core.DecodeCond(l.Cond)
			if !is || cmp.B == nil {
				continue
			}
			if !l.Val {
				rel = core.ANY &^ rel
			}
			if rel&core.EQ != 0 {
				continue
			}
			a := core.Canon(core.Strip(cmp.A))
			if a != want && a != "&("+want+")" {
				continue
			}
			if one, isOne := bigRatConst(cmp.B); isOne && one == 1 {
				ok = true
			}
		}
		if !ok {
			return false
		}
	}
	return true
}

// bigRatConst: big.NewRat(k, 1) / big.NewInt(k).
func bigRatConst(v ssa.Value) (int64, bool) {
	call, ok := core.Strip(v).(*ssa.Call)
	if !ok {
		return 0, false
	}
	obj := core.CalleeObj(&call.Call)
	if core.IsFunc(obj, "math/big", "NewRat") {
		a, ok1 := core.ConstInt(core.Strip(call.Call.Args[0]))
		b, ok2 := core.ConstInt(core.Strip(call.Call.Args[1]))
		if ok1 && ok2 && b != 0 && a%b == 0 {
			return a / b, true
		}
	}
	if core.IsFunc(obj, "math/big", "NewInt") {
		return core.ConstInt(core.Strip(call.Call.Args[0]))
	}
	return 0, false
}

var _ = fmt.Sprint

// SideRendererCount: the count of a strings.Repeat in the error renderer is built (with + and
// -, through phis) only from constants, the Line/Character fields of positions and the
// lengths of source lines - the quantities the stated assumption is about. A count that
// involves anything else (the length of a formatted number, say) is not covered by it.
func SideRendererCount(c *Ctx, fn *ssa.Function, in ssa.Instruction) (bool, string) {
	ci, ok := in.(ssa.CallInstruction)
	if !ok || len(ci.Common().Args) < 2 {
		return false, "not a Repeat call"
	}
	seen := map[ssa.Value]bool{}
	var okv func(v ssa.Value, depth int) (bool, string)
	okv = func(v ssa.Value, depth int) (bool, string) {
		if depth > 10 || seen[v] {
			return true, ""
		}
		seen[v] = true
		v = resolveLocal(v)
		switch x := v.(type) {
		case *ssa.Const:
			return true, ""
		case *ssa.BinOp:
			if x.Op != token.ADD && x.Op != token.SUB {
				return false, "operator " + x.Op.String()
			}
			if g, w := okv(x.X, depth+1); !g {
				return g, w
			}
			return okv(x.Y, depth+1)
		case *ssa.Phi:
			for _, e := range x.Edges {
				if g, w := okv(e, depth+1); !g {
					return g, w
				}
			}
			return true, ""
		case *ssa.Convert:
			return okv(x.X, depth+1)
		case *ssa.UnOp:
			if fa, ok := x.X.(*ssa.FieldAddr); ok && ownerName(fa) == "Position" {
				return true, ""
			}
			if fv, ok := x.X.(*ssa.FreeVar); ok {
				_ = fv
				return true, "" // a captured local of the renderer: judged where it is written
			}
		case *ssa.Field:
			if ownerOfField(x.X.Type()) == "Position" {
				return true, ""
			}
		case *ssa.Call:
			if isLenCall(x) {
				arg := resolveLocal(x.Call.Args[0])
				switch a := arg.(type) {
				case *ssa.Parameter:
					return true, "" // a line (or the source) handed in
				case *ssa.UnOp:
					if _, ok := a.X.(*ssa.IndexAddr); ok {
						return true, "" // an element of the lines
					}
					if _, ok := a.X.(*ssa.FreeVar); ok {
						return true, ""
					}
				case *ssa.Extract:
					return true, "" // range element
				}
				return false, "the length of " + core.ShortVal(arg)
			}
		case *ssa.Parameter:
			// a helper of the renderer: what its callers pass
			g := x.Parent()
			idx := paramIndex(g, x)
			for _, h := range c.P.ModuleFunctions() {
				for _, c2 := range core.Calls(h) {
					if c2.Common().StaticCallee() == g && idx >= 0 && idx < len(c2.Common().Args) {
						if gd, w := okv(c2.Common().Args[idx], depth+1); !gd {
							return gd, w
						}
					}
				}
			}
			return true, ""
		}
		return false, core.ShortVal(v)
	}
	if g, w := okv(ci.Common().Args[1], 0); !g {
		return false, "the repeat count involves " + w + ", which is not a position of the range nor the length of a source line"
	}
	return true, ""
}
