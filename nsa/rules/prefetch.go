package rules

import (
	"fmt"
	"go/token"
	"go/types"
	"sort"
	"strings"

	"nsa/core"

	"golang.org/x/tools/go/ssa"
)

// clauseEntries maps each concrete type asserted in a type switch of fn (over values of
// interface type iface) to the entry block of its arm.
func clauseEntries(fn *ssa.Function, iface types.Type) map[string]*ssa.BasicBlock {
	out := map[string]*ssa.BasicBlock{}
	for _, b := range fn.Blocks {
		for _, in := range b.Instrs {
			ta, ok := in.(*ssa.TypeAssert)
			if !ok || !ta.CommaOk || !types.Identical(types.Unalias(ta.X.Type()), types.Unalias(iface)) {
				continue
			}
			for _, r := range *ta.Referrers() {
				ex, ok := r.(*ssa.Extract)
				if !ok || ex.Index != 1 {
					continue
				}
				for _, r2 := range *ex.Referrers() {
					if iff, ok := r2.(*ssa.If); ok {
						out[typeShort(derefT(ta.AssertedType))] = iff.Block().Succs[0]
					}
				}
			}
		}
	}
	return out
}

func derefT(t types.Type) types.Type {
	if p, ok := t.(*types.Pointer); ok {
		return p.Elem()
	}
	return t
}

// reachesCalling: blocks of fn containing a call whose (static or resolved) callee satisfies pred.
func (c *Ctx) blocksCalling(fn *ssa.Function, pred func(callee *ssa.Function) bool) map[*ssa.BasicBlock]bool {
	out := map[*ssa.BasicBlock]bool{}
	node := c.P.CallGraph().Nodes[fn]
	for _, b := range fn.Blocks {
		for _, in := range b.Instrs {
			ci, ok := in.(ssa.CallInstruction)
			if !ok {
				continue
			}
			if sc := ci.Common().StaticCallee(); sc != nil {
				if pred(sc) {
					out[b] = true
				}
				continue
			}
			if node != nil {
				for _, e := range node.Out {
					if e.Site == ci && pred(e.Callee.Func) {
						out[b] = true
					}
				}
			}
		}
	}
	return out
}

// nilFieldLiteral: literal "<node>.<F> == nil" holds (F a field of the AST node type K).
func nilFieldLiteral(l core.Lit, kind string) (string, bool) {
	bo, ok := l.Cond.(*ssa.BinOp)
	if !ok || (bo.Op != token.EQL && bo.Op != token.NEQ) {
		return "", false
	}
	var other ssa.Value
	if core.IsNilConst(bo.Y) {
		other = bo.X
	} else if core.IsNilConst(bo.X) {
		other = bo.Y
	} else {
		return "", false
	}
	ld, ok := other.(*ssa.UnOp)
	if !ok {
		return "", false
	}
	fa, ok := ld.X.(*ssa.FieldAddr)
	if !ok {
		return "", false
	}
	f := core.FieldOf(fa)
	if f == nil || ownerName(fa) != kind {
		return "", false
	}
	isNil := (bo.Op == token.EQL) == l.Val
	if !isNil {
		return "", false
	}
	return f.Name(), true
}

// PrefetchAgreesWithDraw (S4): for every Source kind, (1) in the prefetch traversal every
// successful exit of the kind's arm has passed a balance-query registration (or a recursive
// prefetch of sub-sources), except exits taken under "<kind>.<F> == nil" for some field F;
// (2) for each such conditional kind, every draw traversal passes to the account helper an
// overdraft grant that is nil only under the same field test, and the helper reads the
// balance only when the grant is non-nil - so every balance the draw can read was asked for.
func (c *Ctx) PrefetchAgreesWithDraw(ob *core.Obligation, prefetch *ssa.Function, batch *ssa.Function, draws []*ssa.Function, balanceRead func(fn *ssa.Function) bool) {
	if prefetch == nil || batch == nil {
		return
	}
	c.Touch(prefetch)
	srcIface := c.P.Named("internal/parser", "Source")
	if srcIface == nil {
		ob.Unknown("anchor:parser.Source", "-", "Source sum not found")
		return
	}
	entries := clauseEntries(prefetch, srcIface)
	queryBlocks := c.blocksCalling(prefetch, func(callee *ssa.Function) bool {
		return callee == batch || callee == prefetch
	})
	// a range loop whose body registers a query (or recurses) for every element covers all its
	// elements: passing through its header counts as registered (zero elements: nothing to ask)
	for _, b := range prefetch.Blocks {
		if iff, ok := b.Instrs[len(b.Instrs)-1].(*ssa.If); ok && isRangeCond(iff.Cond) {
			body := b.Succs[0]
			if !core.ReachableAvoiding(body, b, queryBlocks) {
				queryBlocks[b] = true
			}
		}
	}
	pc := core.NewPathConds(prefetch)
	skips := map[string]map[string]bool{} // kind -> fields whose nil-ness allows skipping
	kinds := make([]string, 0, len(entries))
	for k := range entries {
		kinds = append(kinds, k)
	}
	sort.Strings(kinds)
	for _, kind := range kinds {
		entry := entries[kind]
		key := "prefetch:" + kind
		pos := c.P.Pos(firstPos(entry))
		bad := ""
		for _, ret := range core.Returns(prefetch) {
			ei := errIndex(prefetch.Signature)
			if ei >= 0 && !core.IsNilConst(ret.Results[ei]) {
				continue // error exit
			}
			if !entry.Dominates(ret.Block()) {
				continue
			}
			if !core.ReachableAvoiding(entry, ret.Block(), queryBlocks) {
				continue // every path to this exit registered a query
			}
			// an exit that can be reached without registering anything: must be conditional on a nil field
			for _, term := range pc.At(ret.Block()) {
				found := ""
				for _, l := range term {
					if f, ok := nilFieldLiteral(l, kind); ok {
						found = f
					}
				}
				if found == "" {
					bad = "the prefetch arm for " + kind + " can finish successfully (exit at " + c.P.Pos(ret.Pos()) + ") without registering the balance it will need: a store that answers exactly what was asked makes the draw read 0"
				} else {
					if skips[kind] == nil {
						skips[kind] = map[string]bool{}
					}
					skips[kind][found] = true
				}
			}
		}
		if bad != "" {
			ob.Fail(key, pos, bad)
		} else if len(skips[kind]) > 0 {
			ob.Pass(key, pos, "query registered on every successful path except when "+kind+"."+strings.Join(keysOfSet(skips[kind]), "/")+" is nil")
		} else {
			ob.Pass(key, pos, "query registered (or sub-sources prefetched) on every successful path")
		}
	}
	// (2) draw side for the conditional kinds
	for _, d := range draws {
		if d == nil {
			continue
		}
		c.Touch(d)
		dEntries := clauseEntries(d, srcIface)
		dpc := core.NewPathConds(d)
		dkinds := make([]string, 0, len(dEntries))
		for k := range dEntries {
			dkinds = append(dkinds, k)
		}
		sort.Strings(dkinds)
		for _, kind := range dkinds {
			fields := skips[kind] // nil: the grant may never be nil for this kind
			entry := dEntries[kind]
			key := "drawgate:" + core.SSAName(d) + ":" + kind
			// calls in the arm to helpers that (transitively) read a balance under a nil-gate parameter
			n := 0
			for _, b := range d.Blocks {
				if !entry.Dominates(b) {
					continue
				}
				for _, in := range b.Instrs {
					call, ok := in.(*ssa.Call)
					if !ok {
						continue
					}
					callee := call.Call.StaticCallee()
					if callee == nil || !c.P.InModule(callee) {
						continue
					}
					gate := c.nilGateParam(callee, balanceRead)
					if gate < 0 {
						continue
					}
					n++
					arg := call.Call.Args[gate]
					if why := c.nilOnlyUnder(arg, b, d, dpc, kind, fields); why != "" {
						ob.Fail(key, c.P.Pos(call.Pos()), why)
					} else {
						if len(fields) == 0 {
							ob.Pass(key, c.P.Pos(call.Pos()), fmt.Sprintf("the grant passed to %s is never nil: the balance is always read and bounds the draw", callee.Name()))
						} else {
							ob.Pass(key, c.P.Pos(call.Pos()), fmt.Sprintf("the grant passed to %s is nil only when %s.%s is nil, exactly when the prefetch skips the query", callee.Name(), kind, strings.Join(keysOfSet(fields), "/")))
						}
					}
				}
			}
			if n == 0 && len(fields) > 0 {
				ob.Fail(key, c.P.Pos(firstPos(entry)), "no call to a balance-reading helper with a nil-gated grant found in the arm for "+kind+": cannot relate it to the conditional prefetch")
			}
		}
	}
}

func keysOfSet(m map[string]bool) []string {
	var out []string
	for k := range m {
		out = append(out, k)
	}
	sort.Strings(out)
	return out
}

func firstPos(b *ssa.BasicBlock) token.Pos {
	for _, in := range b.Instrs {
		if in.Pos().IsValid() {
			return in.Pos()
		}
	}
	return token.NoPos
}

// nilGateParam: index of a pointer parameter p of fn such that every call in fn that can read
// a balance is guarded by "p != nil" on every path; -1 if none.
func (c *Ctx) nilGateParam(fn *ssa.Function, balanceRead func(fn *ssa.Function) bool) int {
	reads := c.blocksCalling(fn, balanceRead)
	if len(reads) == 0 {
		return -1
	}
	pc := core.NewPathConds(fn)
	for i, p := range fn.Params {
		if _, isPtr := p.Type().Underlying().(*types.Pointer); !isPtr {
			continue
		}
		all := true
		for b := range reads {
			ok := pc.Requires(b, func(l core.Lit) bool {
				bo, isBin := l.Cond.(*ssa.BinOp)
				if !isBin || (bo.Op != token.EQL && bo.Op != token.NEQ) {
					return false
				}
				var other ssa.Value
				if core.IsNilConst(bo.Y) {
					other = bo.X
				} else if core.IsNilConst(bo.X) {
					other = bo.Y
				} else {
					return false
				}
				// the parameter itself, or the phi that merges it with nil (overdraft = nil for world)
				if !valueIsParamOrNilPhi(other, p) {
					return false
				}
				return (bo.Op == token.NEQ) == l.Val
			})
			if !ok {
				all = false
			}
		}
		if all {
			return i
		}
	}
	return -1
}

func valueIsParamOrNilPhi(v ssa.Value, p *ssa.Parameter) bool {
	if v == p {
		return true
	}
	if ph, ok := v.(*ssa.Phi); ok {
		has := false
		for _, e := range ph.Edges {
			if e == p {
				has = true
				continue
			}
			if core.IsNilConst(e) {
				continue
			}
			return false
		}
		return has
	}
	return false
}

// nilOnlyUnder: arg is nil only on paths where kind.F == nil for an allowed F; otherwise non-nil.
func (c *Ctx) nilOnlyUnder(arg ssa.Value, b *ssa.BasicBlock, fn *ssa.Function, pc *core.PathConds, kind string, fields map[string]bool) string {
	switch x := arg.(type) {
	case *ssa.Const:
		if x.IsNil() {
			// nil constant at this point: the path must carry the nil-field literal
			ok := pc.Requires(b, func(l core.Lit) bool {
				f, is := nilFieldLiteral(l, kind)
				return is && fields[f]
			})
			if !ok {
				return "an unbounded (nil) overdraft grant reaches the account helper on a path where " + kind + " does have a bound: the balance is not read although the prefetch asked for it (and the account is treated as unbounded)"
			}
			return ""
		}
		return ""
	case *ssa.Phi:
		for i, e := range x.Edges {
			pred := x.Block().Preds[i]
			if k, isConst := e.(*ssa.Const); isConst && k.IsNil() {
				ok := pc.EdgeRequires(pred, x.Block(), func(l core.Lit) bool {
					f, is := nilFieldLiteral(l, kind)
					return is && fields[f]
				})
				if !ok {
					return "an unbounded (nil) overdraft grant reaches the account helper on a path where " + kind + " does have a bound: the balance is not read although the prefetch asked for it (and the account is treated as unbounded)"
				}
				continue
			}
			if why := c.nilOnlyUnder(e, pred, fn, pc, kind, fields); why != "" {
				return why
			}
		}
		return ""
	default:
		// an evaluated value: it must not be produced on a path where the field is nil (then the
		// prefetch skipped the query but the draw reads the balance)
		if in, ok := arg.(ssa.Instruction); ok && in.Block() != nil {
			bad := false
			for _, term := range pc.At(in.Block()) {
				for _, l := range term {
					if f, is := nilFieldLiteral(l, kind); is && fields[f] {
						bad = true
					}
				}
			}
			if bad {
				return "a non-nil overdraft grant is computed on a path where " + kind + " has no bound: the draw reads a balance the prefetch did not ask for"
			}
		}
		return ""
	}
}

// isRangeCond: the loop condition of a range over a slice: idx < len(s).
func isRangeCond(v ssa.Value) bool {
	bo, ok := v.(*ssa.BinOp)
	if !ok || bo.Op != token.LSS {
		return false
	}
	return isLenCall(bo.Y)
}
