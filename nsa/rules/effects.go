package rules

import (
	"fmt"
	"go/token"
	"go/types"
	"strings"

	"nsa/core"

	"golang.org/x/tools/go/ssa"
)

// reachableModule lists the hand-written module functions reachable from roots, restricted
// to the import closure of the roots' packages (see PanicScan).
func (c *Ctx) reachableModule(reachKey string, roots []*ssa.Function) ([]*ssa.Function, map[*ssa.Function]*ssa.Function) {
	reach := c.ReachFrom(reachKey, roots...)
	closure := importClosure(roots)
	var fns []*ssa.Function
	for fn := range reach {
		if c.P.InModule(fn) && fn.Blocks != nil && closure[pkgOfFn(fn)] {
			fns = append(fns, fn)
		}
	}
	sortFns(fns)
	return fns, reach
}

// rootGlobal returns the module global an address is rooted at (through field/index addressing and loads of pointers held in globals are NOT followed: only the global's own storage).
func rootGlobal(v ssa.Value) *ssa.Global {
	for i := 0; i < 10; i++ {
		switch x := v.(type) {
		case *ssa.Global:
			return x
		case *ssa.FieldAddr:
			v = x.X
		case *ssa.IndexAddr:
			v = x.X
		case *ssa.ChangeType:
			v = x.X
		default:
			return nil
		}
	}
	return nil
}

// heldByGlobal: v was loaded (possibly through fields) from a module global: a map/pointer
// stored in a package-level variable.
func heldByGlobal(v ssa.Value) *ssa.Global {
	for i := 0; i < 10; i++ {
		switch x := v.(type) {
		case *ssa.UnOp:
			if x.Op != token.MUL {
				return nil
			}
			if g := rootGlobal(x.X); g != nil {
				return g
			}
			v = x.X
		case *ssa.FieldAddr:
			v = x.X
		case *ssa.IndexAddr:
			v = x.X
		case *ssa.Lookup:
			v = x.X
		case *ssa.ChangeType:
			v = x.X
		default:
			return nil
		}
	}
	return nil
}

func isModuleGlobal(g *ssa.Global) bool {
	if g == nil || g.Pkg == nil {
		return false
	}
	rel, ok := core.Rel(g.Pkg.Pkg)
	return ok && !core.IsGeneratedRel(rel)
}

// NoGlobalWrites (W1): no function reachable from the roots writes a package-level variable of
// the module (directly, through a map/pointer held by it, or by a mutating big-number call on
// a value held by it), starts a goroutine, or touches a channel.
func (c *Ctx) NoGlobalWrites(ob *core.Obligation, reachKey string, roots []*ssa.Function) {
	fns, reach := c.reachableModule(reachKey, roots)
	for _, fn := range fns {
		c.Touch(fn)
		name := core.SSAName(fn)
		bad := ""
		var pos token.Pos
		for _, b := range fn.Blocks {
			for _, in := range b.Instrs {
				switch x := in.(type) {
				case *ssa.Store:
					if g := rootGlobal(x.Addr); isModuleGlobal(g) {
						bad, pos = "writes package-level variable "+g.Name(), x.Pos()
					} else if g := heldByGlobal(x.Addr); isModuleGlobal(g) {
						bad, pos = "writes through a pointer held by package-level variable "+g.Name(), x.Pos()
					}
				case *ssa.MapUpdate:
					if g := heldByGlobal(x.Map); isModuleGlobal(g) {
						bad, pos = "updates the map held by package-level variable "+g.Name(), x.Pos()
					}
				case *ssa.Go:
					bad, pos = "starts a goroutine", x.Pos()
				case *ssa.Send:
					bad, pos = "sends on a channel", x.Pos()
				case *ssa.Select:
					bad, pos = "selects on channels", x.Pos()
				case *ssa.MakeChan:
					bad, pos = "creates a channel", x.Pos()
				case ssa.CallInstruction:
					call := x.Common()
					if b, ok := call.Value.(*ssa.Builtin); ok && b.Name() == "delete" {
						if g := heldByGlobal(call.Args[0]); isModuleGlobal(g) {
							bad, pos = "deletes from the map held by package-level variable "+g.Name(), x.Pos()
						}
					}
					if tn, m := core.BigMethod(call); tn != "" && bigMutator(m) {
						if g := heldByGlobal(core.CallArgs(call)[0]); isModuleGlobal(g) {
							bad, pos = "mutates in place the big number held by package-level variable "+g.Name(), x.Pos()
						}
					}
					// the address of a package-level variable (or of a part of it) handed to a call:
					// the callee can write it
					for _, a := range call.Args {
						if _, isPtr := a.Type().Underlying().(*types.Pointer); !isPtr {
							continue
						}
						if g := rootGlobal(a); isModuleGlobal(g) && !isLoadedValue(a) {
							bad, pos = "hands out the address of package-level variable "+g.Name()+" (the callee can write it)", x.Pos()
						}
					}
					if obj := core.CalleeObj(call); obj != nil && obj.Pkg() != nil && (obj.Pkg().Path() == "sync" || obj.Pkg().Path() == "sync/atomic" || obj.Pkg().Path() == "unsafe") {
						bad, pos = "uses "+obj.Pkg().Path()+"."+obj.Name(), x.Pos()
					}
				}
			}
		}
		key := "global:" + name
		if bad != "" {
			ob.Fail(key, c.P.Pos(pos), "function reachable from the entry points ("+core.Path(reach, fn)+") "+bad+": state shared between calls/goroutines")
		} else {
			ob.Pass(key, c.P.Pos(fn.Pos()), "no write to package-level state, no goroutine/channel/sync")
		}
	}
}

// isLoadedValue: v is a value loaded from memory (a pointer stored in the variable), not the
// address of the variable itself.
func isLoadedValue(v ssa.Value) bool {
	for i := 0; i < 8; i++ {
		switch x := v.(type) {
		case *ssa.UnOp:
			return x.Op == token.MUL
		case *ssa.FieldAddr:
			v = x.X
		case *ssa.IndexAddr:
			v = x.X
		case *ssa.ChangeType:
			v = x.X
		case *ssa.Convert:
			v = x.X
		default:
			return false
		}
	}
	return false
}

var bigReadersOnly = map[string]bool{"Cmp": true, "CmpAbs": true, "Sign": true, "String": true, "Text": true, "IsInt": true, "IsInt64": true,
	"IsUint64": true, "Int64": true, "Uint64": true, "BitLen": true, "Float64": true, "FloatString": true, "RatString": true, "Num": true, "Denom": true,
	"Bit": true, "Bytes": true, "FillBytes": true, "Append": true, "Format": true, "MarshalJSON": true, "MarshalText": true, "GobEncode": true,
	"ProbablyPrime": true, "TrailingZeroBits": true, "Bits": true, "IsNaN": true, "MinPrec": true, "Mode": true, "Prec": true, "Acc": true}

// bigMutator: a math/big method that writes its receiver.
func bigMutator(m string) bool { return !bigReadersOnly[m] }

// FieldStores enumerates the stores into a struct field across the module.
type FieldStore struct {
	Fn *ssa.Function
	St *ssa.Store
}

func (c *Ctx) fieldStores(f *types.Var) []FieldStore {
	var out []FieldStore
	for _, fn := range c.P.ModuleFunctions() {
		for _, b := range fn.Blocks {
			for _, in := range b.Instrs {
				if st, ok := in.(*ssa.Store); ok && core.FieldOf(st.Addr) == f {
					out = append(out, FieldStore{fn, st})
				}
			}
		}
	}
	return out
}

// isFreshMap: a map literal / make(map) (possibly converted to a named map type).
func isFreshMap(v ssa.Value) bool {
	switch x := core.Strip(v).(type) {
	case *ssa.MakeMap:
		return true
	case *ssa.Const:
		return x.IsNil()
	}
	return false
}

// WholeFieldOnlyFresh (W3 part 1): field rel.typ.field (a map) is assigned as a whole only
// with a freshly made map - never with a map obtained elsewhere (e.g. from the store).
func (c *Ctx) WholeFieldOnlyFresh(ob *core.Obligation, rel, typ, field string, allowResetIn map[string]bool) {
	f := c.P.Field(rel, typ, field)
	if f == nil {
		ob.Unknown("anchor:"+typ+"."+field, "-", "field not found")
		return
	}
	n := 0
	for _, fs := range c.fieldStores(f) {
		n++
		c.Touch(fs.Fn)
		key := "wholefield:" + typ + "." + field + ":" + core.SSAName(fs.Fn)
		pos := c.P.Pos(fs.St.Pos())
		if !isFreshMap(fs.St.Val) {
			ob.Fail(key, pos, typ+"."+field+" is replaced as a whole by a map that is not freshly made ("+core.ShortVal(fs.St.Val)+"): entries already known are forgotten and the foreign map becomes interpreter state")
			continue
		}
		if allowResetIn != nil {
			// only the construction of a new state value may set the field: the struct written is a
			// local being built (composite literal / fresh allocation), not an existing state
			if root := addrRoot(fs.St.Addr); root != nil {
				if _, isAlloc := root.(*ssa.Alloc); !isAlloc {
					ob.Fail(key, pos, typ+"."+field+" of an existing state is reset in "+core.SSAName(fs.Fn)+": what was accumulated so far is dropped")
					continue
				}
			}
		}
		ob.Pass(key, pos, "initialised with a fresh map")
	}
	if n == 0 {
		ob.Unknown("wholefield:"+typ+"."+field, "-", "no initialisation of the field found")
	}
}

// InsertIfAbsentOnly (W3 part 2): every map update in the functions of rel whose map has one
// of the given underlying types is an insertion guarded by a failed lookup of the same key in
// the same map on every path (m[k] = v only when k is absent): a known balance is never
// overwritten by a later fetch.
func (c *Ctx) InsertIfAbsentOnly(ob *core.Obligation, rel string, isTarget func(t types.Type) bool) {
	n := 0
	for _, fn := range c.P.ModuleFunctions() {
		if relOfFn(fn) != rel {
			continue
		}
		var pc *core.PathConds
		for _, b := range fn.Blocks {
			for _, in := range b.Instrs {
				mu, ok := in.(*ssa.MapUpdate)
				if !ok || !isTarget(mu.Map.Type()) {
					continue
				}
				n++
				c.Touch(fn)
				if pc == nil {
					pc = core.NewPathConds(fn)
				}
				key := "mapinsert:" + core.SSAName(fn)
				pos := c.P.Pos(mu.Pos())
				mk, kk := core.Canon(mu.Map), core.Canon(mu.Key)
				good := pc.Requires(b, func(l core.Lit) bool {
					ex, ok := l.Cond.(*ssa.Extract)
					if !ok || ex.Index != 1 || l.Val {
						// also accept `!ok` spelled through a NOT
						if un, isNot := l.Cond.(*ssa.UnOp); isNot && un.Op == token.NOT {
							if e2, ok := un.X.(*ssa.Extract); ok && e2.Index == 1 && l.Val {
								ex = e2
							} else {
								return false
							}
						} else {
							return false
						}
					}
					lk, ok := ex.Tuple.(*ssa.Lookup)
					if !ok || !lk.CommaOk {
						return false
					}
					return core.Canon(lk.X) == mk && core.Canon(lk.Index) == kk
				})
				// a map made in this very function is not the cache (local accumulation)
				if isLocalFresh(mu.Map) {
					ob.Pass(key+":local", pos, "update of a map created in this function")
					continue
				}
				if good {
					ob.Pass(key, pos, "insertion only when the key is absent")
				} else {
					ob.Fail(key, pos, "a balance map entry can be overwritten: the update is not guarded by a failed lookup of the same key in the same map")
				}
			}
		}
	}
	if n == 0 {
		ob.Unknown("mapinsert:"+rel, "-", "no balance-map update found")
	}
}

func isLocalFresh(m ssa.Value) bool {
	switch x := core.Strip(m).(type) {
	case *ssa.MakeMap:
		return true
	case *ssa.UnOp:
		if al, ok := x.X.(*ssa.Alloc); ok {
			if st := onlyStore(al); st != nil {
				return isLocalFresh(st.Val)
			}
		}
	}
	return false
}

// FieldAccessOnlyIn (W4/W6): loads and/or stores of the field happen only in the named functions.
func (c *Ctx) FieldAccessOnlyIn(ob *core.Obligation, rel, typ, field string, loads, stores bool, allowed map[string]string) {
	f := c.P.Field(rel, typ, field)
	if f == nil {
		ob.Unknown("anchor:"+typ+"."+field, "-", "field not found")
		return
	}
	n := 0
	for _, fn := range c.P.ModuleFunctions() {
		name := core.SSAName(fn)
		for _, b := range fn.Blocks {
			for _, in := range b.Instrs {
				var isLoad, isStore bool
				var pos token.Pos
				switch x := in.(type) {
				case *ssa.UnOp:
					if x.Op == token.MUL && core.FieldOf(x.X) == f {
						isLoad, pos = true, x.Pos()
					}
				case *ssa.Store:
					if core.FieldOf(x.Addr) == f {
						isStore, pos = true, x.Pos()
					}
				case *ssa.Field:
					if core.FieldOf(x) == f {
						isLoad, pos = true, x.Pos()
					}
				}
				if !(isLoad && loads) && !(isStore && stores) {
					continue
				}
				n++
				c.Touch(fn)
				kind := "read"
				if isStore {
					kind = "write"
				}
				key := "access:" + typ + "." + field + ":" + kind + ":" + name
				if why, ok := allowed[name]; ok {
					ob.Pass(key, c.P.Pos(pos), why)
				} else {
					ob.Fail(key, c.P.Pos(pos), fmt.Sprintf("%s of %s.%s in %s, outside the functions that own it (%s)", kind, typ, field, name, strings.Join(keysOf(allowed), ", ")))
				}
			}
		}
	}
	if n == 0 {
		ob.Unknown("access:"+typ+"."+field, "-", "no access to the field found")
	}
}

func keysOf(m map[string]string) []string {
	var out []string
	for k := range m {
		out = append(out, k)
	}
	sortStrings(out)
	return out
}

func sortStrings(s []string) {
	for i := 1; i < len(s); i++ {
		for j := i; j > 0 && s[j] < s[j-1]; j-- {
			s[j], s[j-1] = s[j-1], s[j]
		}
	}
}

// ParamOnlyLookedUpWithConst: parameter #idx of fn (a map) is used only in lookups whose key
// is the named string constant of the function's package (never iterated, passed on, stored).
func (c *Ctx) ParamOnlyLookedUpWithConst(ob *core.Obligation, fn *ssa.Function, idx int, constName string) {
	if fn == nil || idx >= len(fn.Params) {
		return
	}
	p := fn.Params[idx]
	key := "flagmap:" + core.SSAName(fn) + ":" + p.Name()
	want := ""
	if k, ok := fn.Pkg.Pkg.Scope().Lookup(constName).(*types.Const); ok {
		want = k.Val().ExactString()
	} else {
		ob.Unknown(key, "-", "constant "+constName+" not found")
		return
	}
	if p.Referrers() == nil {
		ob.Pass(key, c.P.Pos(fn.Pos()), "parameter unused")
		return
	}
	for _, r := range *p.Referrers() {
		switch x := r.(type) {
		case *ssa.DebugRef:
		case *ssa.Lookup:
			k, ok := x.Index.(*ssa.Const)
			if !ok || k.Value == nil || k.Value.ExactString() != want {
				ob.Fail(key, c.P.Pos(x.Pos()), "the feature-flag map is looked up with something other than the constant "+constName)
				return
			}
		default:
			ob.Fail(key, c.P.Pos(r.Pos()), "the feature-flag map is used for something other than a lookup of "+constName+": "+r.String())
			return
		}
	}
	ob.Pass(key, c.P.Pos(fn.Pos()), "only looked up with "+constName)
}

// MapRangeOrderInsensitive (W5): every range over a map in the functions reachable from the
// roots has a body whose effects commute: map updates keyed by the iteration key (or a value
// derived from it), appends to a result declared unordered, diagnostics appended one per key;
// no return/break out of the loop that depends on which key came first.
func (c *Ctx) MapRangeOrderInsensitive(ob *core.Obligation, reachKey string, roots []*ssa.Function, unorderedConsumers map[string]string) {
	fns, _ := c.reachableModule(reachKey, roots)
	n := 0
	for _, fn := range fns {
		for _, b := range fn.Blocks {
			for _, in := range b.Instrs {
				rg, ok := in.(*ssa.Range)
				if !ok {
					continue
				}
				if _, isMap := rg.X.Type().Underlying().(*types.Map); !isMap {
					continue
				}
				n++
				c.Touch(fn)
				key := "maprange:" + core.SSAName(fn)
				pos := c.P.Pos(rg.Pos())
				if why, ok := unorderedConsumers[core.SSAName(fn)]; ok {
					ob.Pass(key, pos, "result declared unordered: "+why)
					continue
				}
				if why := c.loopOrderDependence(fn, rg); why != "" {
					ob.Fail(key, pos, "iteration over a map with an order-dependent body: "+why)
				} else {
					ob.Pass(key, pos, "loop body only performs key-wise map updates / commutative effects; no early exit")
				}
			}
		}
	}
	if n == 0 {
		ob.Pass("maprange:none", "-", "no map iteration on the path")
	}
}

// loopOrderDependence inspects the natural loop of a map range: the blocks dominated by the
// block holding the Next instruction that can reach it again.
func (c *Ctx) loopOrderDependence(fn *ssa.Function, rg *ssa.Range) string {
	var next *ssa.Next
	for _, r := range *rg.Referrers() {
		if nx, ok := r.(*ssa.Next); ok {
			next = nx
		}
	}
	if next == nil {
		return ""
	}
	head := next.Block()
	inLoop := map[*ssa.BasicBlock]bool{}
	for _, b := range fn.Blocks {
		if head.Dominates(b) && core.ReachableAvoiding(b, head, nil) && b != head {
			inLoop[b] = true
		}
	}
	inLoop[head] = true
	for b := range inLoop {
		for _, in := range b.Instrs {
			switch x := in.(type) {
			case *ssa.Return:
				return "returns from inside the loop at " + c.P.Pos(x.Pos()) + " (which key is met first decides the result)"
			case *ssa.Store:
				// stores to loop-local temporaries (varargs arrays, locals) are fine; stores to fields are not keyed
				if f := core.FieldOf(x.Addr); f != nil {
					if root := addrRoot(x.Addr); root != nil {
						if _, isAlloc := root.(*ssa.Alloc); isAlloc {
							continue
						}
					}
					// append to a slice field: order leaks into the slice
					return "stores into field " + f.Name() + " at " + c.P.Pos(x.Pos()) + ": the iteration order leaks into the stored value"
				}
			case *ssa.MapUpdate:
				// keyed by the iteration key (or something derived from this iteration's key/value): commutative
			}
		}
		// leaving the loop from a block other than the head = break
		if b != head {
			for _, s := range b.Succs {
				if !inLoop[s] {
					// an exit edge from the body: break (unless it leads only to a panic/return handled above)
					if _, isRet := s.Instrs[len(s.Instrs)-1].(*ssa.Return); isRet && len(s.Instrs) <= 2 {
						return "leaves the loop early and returns at " + c.P.Pos(s.Instrs[len(s.Instrs)-1].Pos())
					}
					return "breaks out of the loop (block " + s.String() + ")"
				}
			}
		}
	}
	return ""
}

// CallOrder: in fn, every call satisfying later is dominated by a call satisfying earlier.
func (c *Ctx) CallOrder(ob *core.Obligation, key string, fn *ssa.Function, earlier, later func(*ssa.Function) bool, what string) {
	if fn == nil {
		return
	}
	c.Touch(fn)
	early := c.blocksCalling(fn, earlier)
	n := 0
	for _, b := range fn.Blocks {
		for idx, in := range b.Instrs {
			ci, ok := in.(ssa.CallInstruction)
			if !ok {
				continue
			}
			sc := ci.Common().StaticCallee()
			if sc == nil || !later(sc) {
				continue
			}
			n++
			ok2 := false
			for e := range early {
				if e == b {
					// same block: the earlier call must come first
					for _, in2 := range b.Instrs[:idx] {
						if c2, ok := in2.(ssa.CallInstruction); ok {
							if s2 := c2.Common().StaticCallee(); s2 != nil && earlier(s2) {
								ok2 = true
							}
						}
					}
				} else if e.Dominates(b) {
					ok2 = true
				}
			}
			if ok2 {
				ob.Pass(key, c.P.Pos(in.Pos()), what)
			} else {
				ob.Fail(key, c.P.Pos(in.Pos()), "not on every path: "+what)
			}
		}
	}
	if n == 0 {
		ob.Unknown(key, c.P.Pos(fn.Pos()), "the later call was not found in "+core.SSAName(fn))
	}
}

// MapFieldUpdatesGuarded: every MapUpdate on the map held in rel.typ.field is guarded on
// every path by a literal accepted by guard; returns the functions that update it.
func (c *Ctx) MapFieldUpdatesGuarded(ob *core.Obligation, rel, typ, field string, guard func(fn *ssa.Function, mu *ssa.MapUpdate, l core.Lit) bool, guardDesc string) []*ssa.Function {
	f := c.P.Field(rel, typ, field)
	if f == nil {
		ob.Unknown("anchor:"+typ+"."+field, "-", "field not found")
		return nil
	}
	var fns []*ssa.Function
	n := 0
	for _, fn := range c.P.ModuleFunctions() {
		var pc *core.PathConds
		for _, b := range fn.Blocks {
			for _, in := range b.Instrs {
				mu, ok := in.(*ssa.MapUpdate)
				if !ok {
					continue
				}
				ld, ok := mu.Map.(*ssa.UnOp)
				if !ok || core.FieldOf(ld.X) != f {
					continue
				}
				n++
				c.Touch(fn)
				fns = append(fns, fn)
				if pc == nil {
					pc = core.NewPathConds(fn)
				}
				key := "mapwrite:" + typ + "." + field + ":" + core.SSAName(fn)
				if guard == nil || pc.Requires(b, func(l core.Lit) bool { return guard(fn, mu, l) }) {
					ob.Pass(key, c.P.Pos(mu.Pos()), "update guarded by "+guardDesc)
				} else {
					ob.Fail(key, c.P.Pos(mu.Pos()), typ+"."+field+" is updated on a path that is not guarded by "+guardDesc)
				}
			}
		}
	}
	if n == 0 {
		ob.Unknown("mapwrite:"+typ+"."+field, "-", "no update of the map found")
	}
	return fns
}

// StringNeqConst: literal "v != \"s\"" holds (either spelling) for some string value v that is
// canonically equal to want (nil want: any value).
func StringNeqConst(l core.Lit, s string, want ssa.Value) bool {
	bo, ok := l.Cond.(*ssa.BinOp)
	if !ok || (bo.Op != token.EQL && bo.Op != token.NEQ) {
		return false
	}
	var other ssa.Value
	if k, ok := core.ConstString(bo.Y); ok && k == s {
		other = bo.X
	} else if k, ok := core.ConstString(bo.X); ok && k == s {
		other = bo.Y
	} else {
		return false
	}
	if want != nil && core.Canon(other) != core.Canon(want) {
		return false
	}
	return (bo.Op == token.NEQ) == l.Val
}

// LookupsCommaOk: every lookup in rel on a map whose type satisfies isTarget uses the
// comma-ok form (an absent balance is never dereferenced as a nil pointer).
func (c *Ctx) LookupsCommaOk(ob *core.Obligation, rel string, isTarget func(types.Type) bool) {
	n := 0
	for _, fn := range c.P.ModuleFunctions() {
		if relOfFn(fn) != rel {
			continue
		}
		for _, b := range fn.Blocks {
			for _, in := range b.Instrs {
				lk, ok := in.(*ssa.Lookup)
				if !ok || !isTarget(lk.X.Type()) {
					continue
				}
				n++
				c.Touch(fn)
				key := "lookup:" + core.SSAName(fn)
				if lk.CommaOk {
					ob.Pass(key, c.P.Pos(lk.Pos()), "comma-ok lookup")
				} else {
					ob.Fail(key, c.P.Pos(lk.Pos()), "plain lookup in a balance map: an absent entry yields a nil *big.Int / nil inner map that is then used")
				}
			}
		}
	}
	if n == 0 {
		ob.Unknown("lookup:"+rel, "-", "no balance-map lookup found")
	}
}
