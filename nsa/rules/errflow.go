package rules

import (
	"fmt"
	"go/token"
	"go/types"

	"nsa/core"
	"nsa/model"

	"golang.org/x/tools/go/ssa"
)

var errorIface = types.Universe.Lookup("error").Type().Underlying().(*types.Interface)

func isErrorType(t types.Type) bool {
	if _, ok := t.Underlying().(*types.Interface); !ok {
		return false
	}
	return types.Implements(t, errorIface)
}

// errIndex returns the index of the (last) error-typed result of a signature, -1 if none.
func errIndex(sig *types.Signature) int {
	r := sig.Results()
	for i := r.Len() - 1; i >= 0; i-- {
		if isErrorType(r.At(i).Type()) {
			return i
		}
	}
	return -1
}

// ErrNotDropped (E1): in the functions of the given packages, the error result of every call
// is (i) returned directly, or (ii) tested against nil with the non-nil edge leading only to
// returns whose error operand derives from it (itself or a wrapper literal holding it), or
// (iii) accumulated into an error field. exempt: function key -> reason.
func (c *Ctx) ErrNotDropped(ob *core.Obligation, rels map[string]bool, exempt map[string]string) {
	for _, fn := range c.P.ModuleFunctions() {
		if !rels[relOfFn(fn)] {
			continue
		}
		name := core.SSAName(fn)
		for _, ci := range core.Calls(fn) {
			call, ok := ci.(*ssa.Call)
			if !ok {
				// go/defer of a function returning an error: dropped by construction
				if sig := ci.Common().Signature(); sig != nil && errIndex(sig) >= 0 {
					ob.Fail("err:"+name+":"+calleeLabel(ci.Common()), c.P.Pos(ci.Pos()), "error result of a deferred/spawned call is discarded")
				}
				continue
			}
			sig := call.Call.Signature()
			ei := errIndex(sig)
			if ei < 0 {
				continue
			}
			if obj := core.CalleeObj(&call.Call); obj != nil {
				if _, isMod := core.Rel(obj.Pkg()); isMod && model.NeverReturns(obj) {
					continue
				}
				// formatting/printing helpers of the standard library are not error sources of interest
				if obj.Pkg() != nil && (obj.Pkg().Path() == "fmt" || obj.Pkg().Path() == "os") {
					continue
				}
			}
			c.Touch(fn)
			c.R.CallSites++
			key := "err:" + name + ":" + calleeLabel(&call.Call)
			pos := c.P.Pos(call.Pos())
			if why, ok := exempt[key]; ok {
				ob.Pass(key, pos, "exempt: "+why)
				continue
			}
			var ev ssa.Value
			if sig.Results().Len() == 1 {
				ev = call
			} else {
				for _, r := range *call.Referrers() {
					if ex, ok := r.(*ssa.Extract); ok && ex.Index == ei {
						ev = ex
					}
				}
				// whole tuple returned: `return f(x)`
				if ev == nil {
					if tupleReturned(call) {
						ob.Pass(key, pos, "result tuple returned as is")
						continue
					}
					ob.Fail(key, pos, "the error result is never read: a failure of "+calleeLabel(&call.Call)+" is silently ignored")
					continue
				}
			}
			if why := c.errHandled(ev, fn); why != "" {
				ob.Fail(key, pos, why)
			} else {
				ob.Pass(key, pos, "error propagated")
			}
		}
	}
}

func calleeLabel(call *ssa.CallCommon) string {
	if obj := core.CalleeObj(call); obj != nil {
		if _, tn := core.RecvNamed(obj); tn != "" {
			return tn + "." + obj.Name()
		}
		return obj.Name()
	}
	return "dynamic-call"
}

func tupleReturned(call *ssa.Call) bool {
	// every extract of the tuple goes to the same return, in order
	for _, r := range *call.Referrers() {
		switch x := r.(type) {
		case *ssa.Return:
			return true
		case *ssa.Extract:
			for _, r2 := range *x.Referrers() {
				if ret, ok := r2.(*ssa.Return); ok && x.Index < len(ret.Results) && ret.Results[x.Index] == x {
					continue
				}
				if _, ok := r2.(*ssa.DebugRef); ok {
					continue
				}
				return false
			}
		case *ssa.DebugRef:
		default:
			return false
		}
	}
	return true
}

// errHandled returns "" when the error value ev is properly propagated in fn.
func (c *Ctx) errHandled(ev ssa.Value, fn *ssa.Function) string {
	refs := ev.Referrers()
	if refs == nil {
		return "the error result is never read"
	}
	used := false
	for _, r := range *refs {
		switch x := r.(type) {
		case *ssa.DebugRef:
			continue
		case *ssa.Return:
			used = true
			return "" // returned directly (nil or not): the caller decides
		case *ssa.Store:
			if x.Val == ev {
				if f := core.FieldOf(x.Addr); f != nil && isErrorType(f.Type()) {
					return "" // accumulate-into-field idiom (argsParser.err)
				}
			}
		}
	}
	// find the nil tests
	tested := false
	for _, r := range *refs {
		bo, ok := r.(*ssa.BinOp)
		if !ok || (bo.Op != token.NEQ && bo.Op != token.EQL) || !(core.IsNilConst(bo.X) || core.IsNilConst(bo.Y)) {
			if _, isDbg := r.(*ssa.DebugRef); !isDbg {
				used = true
			}
			continue
		}
		for _, r2 := range *bo.Referrers() {
			iff, ok := r2.(*ssa.If)
			if !ok {
				continue
			}
			tested = true
			blk := iff.Block()
			nonNil := blk.Succs[0]
			if bo.Op == token.EQL {
				nonNil = blk.Succs[1]
			}
			if why := c.nonNilEdgeReturns(nonNil, ev, fn); why != "" {
				return why
			}
		}
	}
	if tested {
		return ""
	}
	if used {
		// passed on as an argument, converted, phi-merged: follow one level for the common
		// `err = f(); if err != nil` with a shared err variable (phi)
		for _, r := range *refs {
			if ph, ok := r.(*ssa.Phi); ok {
				if c.errHandled(ph, fn) == "" {
					return ""
				}
			}
			if mi, ok := r.(*ssa.MakeInterface); ok {
				if c.errHandled(mi, fn) == "" {
					return ""
				}
			}
			if ci, ok := r.(*ssa.ChangeInterface); ok {
				if c.errHandled(ci, fn) == "" {
					return ""
				}
			}
		}
		return "the error result is used but never tested against nil nor returned"
	}
	return "the error result is never read"
}

// nonNilEdgeReturns: every path from blk ends in a return whose error operand derives from ev,
// without rejoining code that is also reachable when the error is nil.
func (c *Ctx) nonNilEdgeReturns(blk *ssa.BasicBlock, ev ssa.Value, fn *ssa.Function) string {
	seen := map[*ssa.BasicBlock]bool{}
	work := []*ssa.BasicBlock{blk}
	for len(work) > 0 {
		b := work[len(work)-1]
		work = work[:len(work)-1]
		if seen[b] {
			continue
		}
		seen[b] = true
		if !blk.Dominates(b) {
			return fmt.Sprintf("after a failed call the error is tested but execution continues into code shared with the success path (block %d): the failure does not abort", b.Index)
		}
		last := b.Instrs[len(b.Instrs)-1]
		switch t := last.(type) {
		case *ssa.Return:
			ei := errIndex(fn.Signature)
			if ei < 0 {
				return "the enclosing function cannot report the error (no error result)"
			}
			if !derivesFromErr(t.Results[ei], ev, 0) {
				return "on failure the function returns an error operand that does not derive from the failed call's error (" + core.ShortVal(t.Results[ei]) + ")"
			}
		case *ssa.Panic:
		default:
			work = append(work, b.Succs...)
		}
	}
	return ""
}

// derivesFromErr: v is ev, a conversion of it, a phi containing it, or a freshly built
// error value (composite literal) one of whose fields stores it.
func derivesFromErr(v, ev ssa.Value, d int) bool {
	if d > 6 {
		return false
	}
	if v == ev {
		return true
	}
	switch x := v.(type) {
	case *ssa.MakeInterface:
		return derivesFromErr(x.X, ev, d+1)
	case *ssa.ChangeInterface:
		return derivesFromErr(x.X, ev, d+1)
	case *ssa.ChangeType:
		return derivesFromErr(x.X, ev, d+1)
	case *ssa.Phi:
		for _, e := range x.Edges {
			if derivesFromErr(e, ev, d+1) {
				return true
			}
		}
	case *ssa.UnOp:
		if x.Op == token.MUL {
			if al, ok := x.X.(*ssa.Alloc); ok {
				return allocHolds(al, ev, d)
			}
		}
	case *ssa.Alloc:
		return allocHolds(x, ev, d)
	case *ssa.TypeAssert:
		return derivesFromErr(x.X, ev, d+1)
	case *ssa.Extract:
		if ta, ok := x.Tuple.(*ssa.TypeAssert); ok {
			return derivesFromErr(ta.X, ev, d+1)
		}
	}
	return false
}

func allocHolds(al *ssa.Alloc, ev ssa.Value, d int) bool {
	if al.Referrers() == nil {
		return false
	}
	for _, r := range *al.Referrers() {
		if fa, ok := r.(*ssa.FieldAddr); ok && fa.Referrers() != nil {
			for _, r2 := range *fa.Referrers() {
				if st, ok := r2.(*ssa.Store); ok && st.Addr == fa && derivesFromErr(st.Val, ev, d+1) {
					return true
				}
			}
		}
		if st, ok := r.(*ssa.Store); ok && st.Addr == al && derivesFromErr(st.Val, ev, d+1) {
			return true
		}
	}
	return false
}

// ErrImpliesZero (E2): in every function of the packages that returns (T.., error-like), a
// return whose error operand may be non-nil carries only zero values in its other operands.
func (c *Ctx) ErrImpliesZero(ob *core.Obligation, rels map[string]bool) {
	for _, fn := range c.P.ModuleFunctions() {
		if !rels[relOfFn(fn)] {
			continue
		}
		ei := errIndex(fn.Signature)
		if ei < 0 || fn.Signature.Results().Len() < 2 {
			continue
		}
		c.Touch(fn)
		name := core.SSAName(fn)
		pc := core.NewPathConds(fn)
		bad := ""
		var badPos token.Pos
		n := 0
		for _, ret := range core.Returns(fn) {
			n++
			e := ret.Results[ei]
			if core.IsNilConst(e) {
				continue
			}
			// delegation: all results come from one call tuple
			if allFromOneCall(ret) {
				continue
			}
			// the error operand is provably nil on this path (tested == nil)
			if c.provedNil(e, ret.Block(), pc) {
				continue
			}
			for i, r := range ret.Results {
				if i == ei {
					continue
				}
				if c.sameTupleAsError(r, e, rels) {
					// the result of the very call whose error is returned: that call is itself held
					// to this rule, so the result is a zero value whenever the error is not nil
					continue
				}
				if !isZeroValue(r) {
					bad = fmt.Sprintf("a return with a possibly non-nil error also returns a non-zero result #%d (%s): partial results escape together with an error", i, core.ShortVal(r))
					badPos = ret.Pos()
				}
			}
		}
		key := "errzero:" + name
		if bad != "" {
			ob.Fail(key, c.P.Pos(badPos), bad)
		} else {
			ob.Pass(key, c.P.Pos(fn.Pos()), fmt.Sprintf("%d return(s): an error is always accompanied by zero results", n))
		}
	}
}

// sameTupleAsError: r and the error e are components of the result of one call of a module
// function that is itself in the scope of E2.
func (c *Ctx) sameTupleAsError(r, e ssa.Value, rels map[string]bool) bool {
	rx, ok1 := core.Strip(r).(*ssa.Extract)
	ex, ok2 := core.Strip(e).(*ssa.Extract)
	if !ok1 || !ok2 || rx.Tuple != ex.Tuple {
		return false
	}
	call, ok := rx.Tuple.(*ssa.Call)
	if !ok {
		return false
	}
	sc := call.Call.StaticCallee()
	return sc != nil && c.P.InModule(sc) && rels[relOfFn(sc)] && errIndex(sc.Signature) == ex.Index
}

func allFromOneCall(ret *ssa.Return) bool {
	var tuple ssa.Value
	for i, r := range ret.Results {
		ex, ok := core.Strip(r).(*ssa.Extract)
		if !ok || ex.Index != i {
			return false
		}
		if tuple == nil {
			tuple = ex.Tuple
		} else if tuple != ex.Tuple {
			return false
		}
	}
	return tuple != nil
}

func (c *Ctx) provedNil(e ssa.Value, b *ssa.BasicBlock, pc *core.PathConds) bool {
	return pc.Requires(b, func(l core.Lit) bool {
		bo, ok := l.Cond.(*ssa.BinOp)
		if !ok || (bo.Op != token.NEQ && bo.Op != token.EQL) {
			return false
		}
		var other ssa.Value
		if core.IsNilConst(bo.Y) {
			other = bo.X
		} else if core.IsNilConst(bo.X) {
			other = bo.Y
		} else {
			return false
		}
		return other == e && (bo.Op == token.EQL) == l.Val
	})
}

// isZeroValue: nil / zero constant, or a composite literal without any field store.
func isZeroValue(v ssa.Value) bool {
	switch x := v.(type) {
	case *ssa.Const:
		return x.IsNil() || isZeroConst(x)
	case *ssa.UnOp:
		if x.Op == token.MUL {
			if al, ok := x.X.(*ssa.Alloc); ok {
				return allocUntouched(al)
			}
		}
	case *ssa.MakeInterface:
		return false
	}
	return false
}

func isZeroConst(c *ssa.Const) bool {
	if c.Value == nil {
		return true
	}
	s := c.Value.ExactString()
	return s == "0" || s == `""` || s == "false"
}

func allocUntouched(al *ssa.Alloc) bool {
	if al.Referrers() == nil {
		return true
	}
	for _, r := range *al.Referrers() {
		switch y := r.(type) {
		case *ssa.UnOp, *ssa.DebugRef:
		case *ssa.Store:
			if y.Addr == al {
				return false
			}
		default:
			return false
		}
	}
	return true
}
