package rules

import (
	"go/token"
	"go/types"

	"nsa/core"

	"golang.org/x/tools/go/ssa"
)

// SameAmountBothSides (C03.2): in the function that runs a send statement, on every arm the
// amount handed to the destination traversal is the amount requested from the exact draw
// (fixed mode) or the result of the send-all draw.
func (c *Ctx) SameAmountBothSides(ob *core.Obligation) {
	src := "Source"
	dst := "Destination"
	n := 0
	for _, fn := range c.P.ModuleFunctions() {
		if relOfFn(fn) != "internal/interpreter" {
			continue
		}
		var draws, recvs []*ssa.Call
		for _, ci := range core.Calls(fn) {
			call, ok := ci.(*ssa.Call)
			if !ok {
				continue
			}
			sc := call.Call.StaticCallee()
			if sc == nil || sc == fn {
				continue
			}
			if hasParamOf(sc, src) && bigParamIndex(sc) >= 0 || (hasParamOf(sc, src) && returnsBig(sc)) {
				draws = append(draws, call)
			}
			if hasParamOf(sc, dst) && bigParamIndex(sc) >= 0 {
				recvs = append(recvs, call)
			}
		}
		if len(draws) == 0 || len(recvs) == 0 {
			continue
		}
		c.Touch(fn)
		for _, rc := range recvs {
			n++
			key := "same-amount:" + core.SSAName(fn)
			amt := rc.Call.Args[bigParamIndex(rc.Call.StaticCallee())]
			ok := false
			why := ""
			for _, d := range draws {
				if !d.Block().Dominates(rc.Block()) {
					continue
				}
				sc := d.Call.StaticCallee()
				if i := bigParamIndex(sc); i >= 0 {
					// exact draw of a requested amount: same cell
					if sameNumberCell(amt, d.Call.Args[i]) {
						ok = true
					} else {
						why = "the amount handed to the destination is not the amount that was drawn from the source"
					}
				} else {
					// send-all draw: its result
					if ex, isEx := core.Strip(amt).(*ssa.Extract); isEx && ex.Tuple == d && ex.Index == 0 {
						ok = true
					} else {
						why = "the amount handed to the destination is not the result of the send-all draw"
					}
				}
			}
			if ok {
				ob.Pass(key, c.P.Pos(rc.Pos()), "the destination receives exactly the amount drawn from the source")
			} else {
				if why == "" {
					why = "the destination traversal is not preceded by a draw on this path"
				}
				ob.Fail(key, c.P.Pos(rc.Pos()), why)
			}
		}
	}
	if n == 0 {
		ob.Unknown("same-amount:none", "-", "no function that draws from a source and hands the amount to a destination found")
	}
}

func hasParamOf(fn *ssa.Function, parserType string) bool {
	for _, p := range fn.Params {
		if core.IsNamedType(p.Type(), core.ModPath+"/internal/parser", parserType) {
			return true
		}
	}
	return false
}

func returnsBig(fn *ssa.Function) bool {
	return fn.Signature.Results().Len() > 0 && isBigPtrStd(fn.Signature.Results().At(0).Type())
}

// sameNumberCell: both pointers denote the same number: the same cell, or a local copy
// (`amt := big.Int(m.Amount)`) of the cell the other points to.
func sameNumberCell(a, b ssa.Value) bool {
	ka, kb := cellKey(a), cellKey(b)
	if ka == kb {
		return true
	}
	// a local copy: `amt := big.Int(x.Amount)` then &amt
	copyOf := func(v ssa.Value) string {
		al, ok := core.Strip(v).(*ssa.Alloc)
		if !ok {
			return ""
		}
		st := onlyStore(al)
		if st == nil {
			return ""
		}
		ld, ok := core.Strip(st.Val).(*ssa.UnOp)
		if !ok || ld.Op != token.MUL {
			return ""
		}
		return cellKey(ld.X)
	}
	if ca := copyOf(a); ca != "" && ca == kb {
		return true
	}
	if cb := copyOf(b); cb != "" && cb == ka {
		return true
	}
	strip := func(k string) string {
		// "&(*(X))" -> X
		if len(k) > 6 && k[:4] == "&(*(" && k[len(k)-2:] == "))" {
			return k[4 : len(k)-2]
		}
		return k
	}
	return strip(ka) == strip(kb)
}

// SumTest (C06.1 / C06.2): the function that builds the invalid-allotment-sum error reaches a
// successful return only if the total of the portions was compared equal to one, or - when a
// `remaining` item was seen - compared not greater than one.
func (c *Ctx) SumTest(ob *core.Obligation, errType string) {
	n := 0
	for _, fn := range c.P.ModuleFunctions() {
		if relOfFn(fn) != "internal/interpreter" {
			continue
		}
		builds := false
		for _, b := range fn.Blocks {
			for _, in := range b.Instrs {
				if al, ok := in.(*ssa.Alloc); ok && al.Comment == "complit" && typeShort(derefT(al.Type())) == errType {
					builds = true
				}
			}
		}
		if !builds {
			continue
		}
		n++
		c.Touch(fn)
		key := "sumtest:" + core.SSAName(fn)
		pc := core.NewPathConds(fn)
		ei := errIndex(fn.Signature)
		bad := ""
		for _, ret := range core.Returns(fn) {
			if ei < 0 || !core.IsNilConst(ret.Results[ei]) {
				continue
			}
			for _, term := range pc.At(ret.Block()) {
				eq, le := false, false
				for _, l := range term {
					cmp, rel, ok := core.DecodeCond(l.Cond)
					if !ok || cmp.B == nil {
						continue
					}
					if !l.Val {
						rel = core.ANY &^ rel
					}
					one, isOne := bigRatConst(cmp.B)
					if !isOne || one != 1 {
						continue
					}
					if rel == core.EQ {
						eq = true
					}
					if rel&core.GT == 0 {
						le = true
					}
				}
				if !eq && !le {
					bad = "a successful return at " + c.P.Pos(ret.Pos()) + " is reachable without the sum of the portions having been compared with one: shares would not add up to the amount (or a 'remaining' share would be negative)"
				}
			}
		}
		if bad != "" {
			ob.Fail(key, c.P.Pos(fn.Pos()), bad)
		} else {
			ob.Pass(key, c.P.Pos(fn.Pos()), "success only with sum == 1, or sum <= 1 next to a 'remaining' item; otherwise "+errType)
		}
	}
	if n == 0 {
		ob.Unknown("sumtest:none", "-", "no function building "+errType+" found")
	}
}

// ReconcilerShape (C07.2 / C07.3): both lists are reversed the same number of times and
// popped by the same function; a posting is merged into the previous one only under equality
// of both names.
func (c *Ctx) ReconcilerShape(ob *core.Obligation, r *Roles) {
	if r == nil {
		return
	}
	fn := c.reconciler(r)
	if fn == nil {
		ob.Unknown("anchor:reconciler", "-", "no function building postings found")
		return
	}
	region := c.reconcilerRegion(r)
	revS, revR := 0, 0
	popS, popR := map[string]bool{}, map[string]bool{}
	for _, g := range region {
		c.Touch(g)
		for _, ci := range core.Calls(g) {
			call := ci.Common()
			obj := core.CalleeObj(call)
			if obj == nil {
				continue
			}
			if obj.Name() == "Reverse" && len(call.Args) == 1 {
				switch elemTypeName(call.Args[0].Type()) {
				case "Sender":
					revS++
				case "Receiver":
					revR++
				}
			}
			if sc := call.StaticCallee(); sc != nil && c.P.InModule(sc) && len(call.Args) == 1 {
				if p, ok := call.Args[0].Type().Underlying().(*types.Pointer); ok {
					switch elemTypeName(p.Elem()) {
					case "Sender":
						n := sc.Name()
						if o := sc.Origin(); o != nil {
							n = o.Name()
						}
						popS[n] = true
					case "Receiver":
						n := sc.Name()
						if o := sc.Origin(); o != nil {
							n = o.Name()
						}
						popR[n] = true
					}
				}
			}
		}
	}
	// lists popped in line: an element read at len-1 (or at 0) of a pending list
	for _, g := range region {
		for _, b := range g.Blocks {
			for _, in := range b.Instrs {
				ia, ok := in.(*ssa.IndexAddr)
				if !ok {
					continue
				}
				en := elemTypeName(ia.X.Type())
				if en != "Sender" && en != "Receiver" {
					continue
				}
				end := "other"
				t, off := core.Linear(ia.Index)
				switch {
				case t == "len("+core.Canon(ia.X)+")" && off == -1:
					end = "inline:last"
				case t == "0" && off == 0:
					end = "inline:first"
				}
				if en == "Sender" {
					popS[end] = true
				} else {
					popR[end] = true
				}
			}
		}
	}
	key := "reconciler:ends"
	same := len(popS) == len(popR)
	for k := range popS {
		if !popR[k] {
			same = false
		}
	}
	if revS == revR && same && len(popS) > 0 {
		ob.Pass(key, c.P.Pos(fn.Pos()), "senders and receivers are consumed from the same end relative to push order")
	} else {
		ob.Fail(key, c.P.Pos(fn.Pos()), "senders and receivers are not consumed from the same end (reversed a different number of times, or popped differently): first-come-first-served pairing is broken")
	}
	// merge under equality of both names; the merge may live in a helper that is handed the
	// two names: its parameters then stand for what every call passes
	for _, g := range append([]*ssa.Function{fn}, c.postingBuilders(r)...) {
		c.mergeUnderNameEquality(ob, g, r)
	}
}

func (c *Ctx) mergeUnderNameEquality(ob *core.Obligation, fn *ssa.Function, r *Roles) {
	fieldOfVal := func(v ssa.Value) *types.Var {
		if p, ok := core.Strip(v).(*ssa.Parameter); ok && p.Parent() == fn {
			as, ok := c.argSites(fn, p)
			if !ok {
				return nil
			}
			var f *types.Var
			for i, a := range as {
				g := postingFieldOf(a.Arg)
				if g == nil || (i > 0 && g != f) {
					return nil
				}
				f = g
			}
			return f
		}
		return postingFieldOf(v)
	}
	nameEq := func(l core.Lit, postF, nameF *types.Var) bool {
		bo, ok := l.Cond.(*ssa.BinOp)
		if !ok || (bo.Op != token.EQL && bo.Op != token.NEQ) {
			return false
		}
		fx, fy := fieldOfVal(bo.X), fieldOfVal(bo.Y)
		// the same field of two different postings: the one built from the pair at hand (whose
		// names PostingShape traces to the sender and the receiver) and the previous one
		twoPostings := fx == postF && fy == postF && core.Canon(bo.X) != core.Canon(bo.Y)
		if !((fx == postF && fy == nameF) || (fx == nameF && fy == postF) || twoPostings) {
			return false
		}
		return (bo.Op == token.EQL) == l.Val
	}
	pc := core.NewPathConds(fn)
	for _, b := range fn.Blocks {
		for _, in := range b.Instrs {
			call, ok := in.(*ssa.Call)
			if !ok {
				continue
			}
			tn, m := core.BigMethod(&call.Call)
			if tn != "Int" || m != "Add" {
				continue
			}
			recv := core.CallArgs(&call.Call)[0]
			if postingFieldOf(recv) != r.PostAmt {
				continue
			}
			c.Touch(fn)
			srcEq := pc.Requires(b, func(l core.Lit) bool { return nameEq(l, r.PostSrc, r.SenderName) })
			dstEq := pc.Requires(b, func(l core.Lit) bool { return nameEq(l, r.PostDst, r.ReceiverName) })
			// the posting merged into is selected through a pointer variable (nil = no merge): the
			// equalities must hold where that pointer is given a non-nil value
			if ld, ok := core.Strip(recv).(*ssa.UnOp); ok {
				if fa, ok := ld.X.(*ssa.FieldAddr); ok {
					if ph, ok := fa.X.(*ssa.Phi); ok && !(srcEq && dstEq) {
						srcEq, dstEq = true, true
						for i, e := range ph.Edges {
							if core.IsNilConst(e) {
								continue
							}
							pred := ph.Block().Preds[i]
							if !pc.EdgeRequires(pred, ph.Block(), func(l core.Lit) bool { return nameEq(l, r.PostSrc, r.SenderName) }) {
								srcEq = false
							}
							if !pc.EdgeRequires(pred, ph.Block(), func(l core.Lit) bool { return nameEq(l, r.PostDst, r.ReceiverName) }) {
								dstEq = false
							}
						}
					}
				}
			}
			if srcEq && dstEq {
				ob.Pass("reconciler:merge", c.P.Pos(call.Pos()), "a posting is merged into the previous one only when source and destination are both the same")
			} else {
				ob.Fail("reconciler:merge", c.P.Pos(call.Pos()), "a posting can be merged into the previous one although its source or destination differs: funds would be attributed to the wrong pair")
			}
		}
	}
}

func elemTypeName(t types.Type) string {
	if s, ok := t.Underlying().(*types.Slice); ok {
		return typeShort(s.Elem())
	}
	return ""
}

// nameEq: literal "<posting>.F == <sender/receiver>.Name" holds.
func nameEq(l core.Lit, postF, nameF *types.Var) bool {
	bo, ok := l.Cond.(*ssa.BinOp)
	if !ok || (bo.Op != token.EQL && bo.Op != token.NEQ) {
		return false
	}
	fx, fy := postingFieldOf(bo.X), postingFieldOf(bo.Y)
	if !((fx == postF && fy == nameF) || (fx == nameF && fy == postF)) {
		return false
	}
	return (bo.Op == token.EQL) == l.Val
}

// ResetBeforePush (C09.2): in the statement dispatcher the pending lists are reset before any
// call that can reach a push, on every path.
func (c *Ctx) ResetBeforePush(ob *core.Obligation, r *Roles, dispatcher *ssa.Function) {
	if r == nil || dispatcher == nil {
		return
	}
	c.Touch(dispatcher)
	resetHelpers := map[*ssa.Function]bool{}
	for _, item := range []struct {
		f    *types.Var
		push *ssa.Function
		name string
	}{{r.SendersF, r.PushSender.Fn, "Senders"}, {r.ReceiversF, r.PushReceiver.Fn, "Receivers"}} {
		key := "reset:" + item.name
		var resets []ssa.Instruction
		for _, b := range dispatcher.Blocks {
			for _, in := range b.Instrs {
				if st, ok := in.(*ssa.Store); ok && core.FieldOf(st.Addr) == item.f && core.IsNilConst(st.Val) {
					resets = append(resets, st)
				}
				// or a helper that resets the list on every path through it
				if call, ok := in.(*ssa.Call); ok {
					if sc := call.Call.StaticCallee(); sc != nil && resetsAlways(sc, item.f) {
						resets = append(resets, call)
						resetHelpers[sc] = true
						c.Touch(sc)
					}
				}
			}
		}
		if len(resets) == 0 {
			ob.Fail(key, c.P.Pos(dispatcher.Pos()), "the pending "+item.name+" list is never reset per statement: amounts of a previous statement would be paired again")
			continue
		}
		bad := ""
		for _, b := range dispatcher.Blocks {
			for idx, in := range b.Instrs {
				call, ok := in.(*ssa.Call)
				if !ok {
					continue
				}
				sc := call.Call.StaticCallee()
				if sc == nil || !c.P.InModule(sc) {
					continue
				}
				if _, reaches := c.P.Reachable(sc)[item.push]; !reaches {
					continue
				}
				dom := false
				for _, st := range resets {
					if st.Block() == b {
						for _, in2 := range b.Instrs[:idx] {
							if in2 == st {
								dom = true
							}
						}
						if st == in {
							dom = true // the reset helper itself
						}
					} else if st.Block().Dominates(b) {
						dom = true
					}
				}
				if !dom {
					bad = "call to " + sc.Name() + " at " + c.P.Pos(call.Pos()) + " can push before the list was reset"
				}
			}
		}
		if bad != "" {
			ob.Fail(key, c.P.Pos(dispatcher.Pos()), bad)
		} else {
			ob.Pass(key, c.P.Pos(resets[0].Pos()), "reset at the start of every statement, before anything can be pushed")
		}
	}
	// and nobody else stores the lists except the push functions (append) and the dispatcher (reset)
	for _, item := range []struct {
		f    *types.Var
		push *ssa.Function
		name string
	}{{r.SendersF, r.PushSender.Fn, "Senders"}, {r.ReceiversF, r.PushReceiver.Fn, "Receivers"}} {
		for _, fs := range c.fieldStores(item.f) {
			key := "writers:" + item.name + ":" + core.SSAName(fs.Fn)
			if fs.Fn == item.push || ((fs.Fn == dispatcher || resetHelpers[fs.Fn]) && core.IsNilConst(fs.St.Val)) {
				ob.Pass(key, c.P.Pos(fs.St.Pos()), "owned write")
			} else {
				ob.Fail(key, c.P.Pos(fs.St.Pos()), "the pending "+item.name+" list is written outside its push function and the per-statement reset")
			}
		}
	}
}

// NoFetchFromRunners (C09.4): no store fetch of balances is reachable from the statement
// dispatcher (a later fetch could overwrite balances the script already changed locally).
func (c *Ctx) NoFetchFromRunners(ob *core.Obligation, dispatcher *ssa.Function, storeIface *types.Named, method string) {
	if dispatcher == nil || storeIface == nil {
		return
	}
	reach := c.P.Reachable(dispatcher)
	key := "no-fetch:" + core.SSAName(dispatcher)
	for fn := range reach {
		if !c.P.InModule(fn) || fn.Blocks == nil {
			continue
		}
		for _, ci := range core.Calls(fn) {
			call := ci.Common()
			if call.IsInvoke() && call.Method.Name() == method && types.Identical(call.Value.Type().Underlying(), storeIface.Underlying()) {
				ob.Fail(key, c.P.Pos(ci.Pos()), "a balance fetch from the store is reachable while statements are running ("+core.Path(reach, fn)+"): balances fetched once before the first statement and maintained locally could be refreshed mid-script")
				return
			}
		}
	}
	ob.Pass(key, c.P.Pos(dispatcher.Pos()), "no balance fetch reachable from the statement runners")
}

// KeptOnlyForKept (C05.4): the receiver push with the kept marker happens only in the arm for
// the `kept` target; the arm for a destination account never pushes a constant name.
func (c *Ctx) KeptOnlyForKept(ob *core.Obligation, r *Roles, kept string) {
	if r == nil {
		return
	}
	kod := c.P.Named("internal/parser", "KeptOrDestination")
	n := 0
	for _, fn := range c.P.ModuleFunctions() {
		if relOfFn(fn) != "internal/interpreter" {
			continue
		}
		for _, b := range fn.Blocks {
			for _, in := range b.Instrs {
				call, ok := in.(*ssa.Call)
				if !ok || call.Call.StaticCallee() != r.PushReceiver.Fn {
					continue
				}
				name := call.Call.Args[r.PushReceiver.NameIdx]
				k, isConst := core.ConstString(name)
				n++
				key := "kept-push:" + core.SSAName(fn)
				if !isConst {
					ob.Pass(key+":account", c.P.Pos(call.Pos()), "receiver name is an evaluated account")
					continue
				}
				if k != kept {
					ob.Fail(key, c.P.Pos(call.Pos()), "a constant account name other than the kept marker is credited")
					continue
				}
				entry := clauseEntries(fn, kod)["DestinationKept"]
				if entry != nil && entry.Dominates(b) {
					ob.Pass(key, c.P.Pos(call.Pos()), "the kept marker is queued only for a `kept` target")
				} else {
					ob.Fail(key, c.P.Pos(call.Pos()), "the kept marker is queued outside the arm for `kept` targets: funds meant for a destination would be withheld")
				}
			}
		}
	}
	if n == 0 {
		ob.Unknown("kept-push:none", "-", "no receiver push found")
	}
}

// resetsAlways: every path through fn stores nil into the field, and fn stores nothing else
// into it.
func resetsAlways(fn *ssa.Function, f *types.Var) bool {
	if len(fn.Blocks) == 0 {
		return false
	}
	found := false
	for _, b := range fn.Blocks {
		for _, in := range b.Instrs {
			if st, ok := in.(*ssa.Store); ok && core.FieldOf(st.Addr) == f {
				if !core.IsNilConst(st.Val) {
					return false
				}
				if blockOnEveryPath(fn, b) {
					found = true
				}
			}
		}
	}
	return found
}
