package rules

import (
	"fmt"
	"go/token"
	"go/types"

	"nsa/core"

	"golang.org/x/tools/go/ssa"
)

// Rules added after the fourth round of independently written seeded changes (DESIGN 10.9).

// ---------- a result that may be the argument itself ----------

// mayReturnParams: for every function of the given packages, result index -> the indices of
// the big-number parameters that result may be (the function hands its own argument back on
// some path, directly or through a callee that does).
func (c *Ctx) mayReturnParams(fns []*ssa.Function) map[*ssa.Function]map[int]map[int]bool {
	sum := map[*ssa.Function]map[int]map[int]bool{}
	add := func(f *ssa.Function, k, j int) bool {
		if sum[f] == nil {
			sum[f] = map[int]map[int]bool{}
		}
		if sum[f][k] == nil {
			sum[f][k] = map[int]bool{}
		}
		if sum[f][k][j] {
			return false
		}
		sum[f][k][j] = true
		return true
	}
	// leaves: the values v can be, through phis and single-store locals
	var leaves func(v ssa.Value, seen map[ssa.Value]bool, out *[]ssa.Value)
	leaves = func(v ssa.Value, seen map[ssa.Value]bool, out *[]ssa.Value) {
		v = resolveLocal(v)
		if seen[v] {
			return
		}
		seen[v] = true
		if ph, ok := v.(*ssa.Phi); ok {
			for _, e := range ph.Edges {
				leaves(e, seen, out)
			}
			return
		}
		*out = append(*out, v)
	}
	for changed := true; changed; {
		changed = false
		for _, f := range fns {
			for _, ret := range core.Returns(f) {
				for k, rv := range ret.Results {
					if !isBigPtrStd(rv.Type()) {
						continue
					}
					var ls []ssa.Value
					leaves(rv, map[ssa.Value]bool{}, &ls)
					for _, l := range ls {
						if p, ok := l.(*ssa.Parameter); ok && p.Parent() == f {
							if add(f, k, paramIndex(f, p)) {
								changed = true
							}
							continue
						}
						// the result of a callee that may hand back the argument we passed on
						var call *ssa.Call
						idx := 0
						switch y := l.(type) {
						case *ssa.Call:
							call = y
						case *ssa.Extract:
							call, _ = y.Tuple.(*ssa.Call)
							idx = y.Index
						}
						if call == nil {
							continue
						}
						for _, g := range c.calleesOf(f, call) {
							for j := range sum[g][idx] {
								args := core.CallArgs(&call.Call)
								if call.Call.IsInvoke() || j >= len(args) {
									continue
								}
								var as []ssa.Value
								leaves(args[j], map[ssa.Value]bool{}, &as)
								for _, a := range as {
									if p, ok := a.(*ssa.Parameter); ok && p.Parent() == f {
										if add(f, k, paramIndex(f, p)) {
											changed = true
										}
									}
								}
							}
						}
					}
				}
			}
		}
	}
	return sum
}

// ReturnedArgumentNotRewritten: when a function may hand back the very number it was given
// (`return amount`), the caller holds two names for one number. Rewriting the argument in
// place and then reading the result - before the call is made again - reads the rewritten
// number, not the one that was returned.
func (c *Ctx) ReturnedArgumentNotRewritten(ob *core.Obligation, rels ...string) {
	inRel := map[string]bool{}
	for _, r := range rels {
		inRel[r] = true
	}
	var fns []*ssa.Function
	for _, f := range c.P.ModuleFunctions() {
		if inRel[relOfFn(f)] && len(f.Blocks) > 0 {
			fns = append(fns, f)
		}
	}
	sum := c.mayReturnParams(fns)
	nSum := 0
	for _, m := range sum {
		if len(m) > 0 {
			nSum++
		}
	}
	n := 0
	for _, f := range fns {
		for _, ci := range core.Calls(f) {
			call, ok := ci.(*ssa.Call)
			if !ok || call.Call.IsInvoke() {
				continue
			}
			for _, g := range c.calleesOf(f, ci) {
				for k, params := range sum[g] {
					// the SSA value of result k
					var res ssa.Value
					if g.Signature.Results().Len() == 1 {
						res = call
					} else if call.Referrers() != nil {
						for _, r := range *call.Referrers() {
							if ex, ok := r.(*ssa.Extract); ok && ex.Index == k {
								res = ex
							}
						}
					}
					if res == nil {
						continue
					}
					for j := range params {
						args := core.CallArgs(&call.Call)
						if j >= len(args) {
							continue
						}
						n++
						c.Touch(f)
						key := fmt.Sprintf("returned-arg:%s:%s", core.SSAName(f), g.Name())
						cell := cellKey(args[j])
						bad := ""
						for _, b := range f.Blocks {
							for _, in := range b.Instrs {
								w, ok := in.(*ssa.Call)
								if !ok || w == call {
									continue
								}
								tn, m := core.BigMethod(&w.Call)
								if tn == "" || bigReadersOnly[m] {
									continue
								}
								wa := core.CallArgs(&w.Call)
								if len(wa) == 0 || cellKey(wa[0]) != cell || !afterWithoutRedo(call, w) {
									continue
								}
								// a read of the result after that write, the call not made again in between
								for _, u := range usesOf(res) {
									if u == ssa.Instruction(w) {
										continue
									}
									if afterWithoutRedo2(call, w, u) {
										bad = fmt.Sprintf("%s may hand back the very number it was given (%s); that number is rewritten in place at %s and the result is read afterwards at %s: it reads the rewritten number", g.Name(), core.ShortVal(args[j]), c.P.Pos(w.Pos()), c.P.Pos(u.Pos()))
									}
								}
							}
						}
						if bad != "" {
							ob.Fail(key, c.P.Pos(call.Pos()), bad)
						} else {
							ob.Pass(key, c.P.Pos(call.Pos()), "the result is not read after the argument it may be is rewritten")
						}
					}
				}
			}
		}
	}
	ob.Pass("returned-arg:scanned", "-", fmt.Sprintf("%d function(s) that may hand back an argument, %d call(s) examined", nSum, n))
}

// usesOf: the instructions that read v (through single-store locals it is kept in).
func usesOf(v ssa.Value) []ssa.Instruction {
	var out []ssa.Instruction
	seen := map[ssa.Value]bool{}
	var walk func(v ssa.Value)
	walk = func(v ssa.Value) {
		if seen[v] || v.Referrers() == nil {
			return
		}
		seen[v] = true
		for _, r := range *v.Referrers() {
			switch x := r.(type) {
			case *ssa.DebugRef:
				continue
			case *ssa.Store:
				// kept in a local: the loads of that local are the uses
				if al, ok := x.Addr.(*ssa.Alloc); ok && x.Val == v && onlyStore(al) == x {
					if al.Referrers() != nil {
						for _, r2 := range *al.Referrers() {
							if ld, ok := r2.(*ssa.UnOp); ok && ld.Op == token.MUL {
								walk(ld)
							}
						}
					}
					continue
				}
				out = append(out, x)
			case *ssa.Phi:
				out = append(out, x)
				walk(x)
			case *ssa.ChangeType:
				walk(x)
			case *ssa.MakeInterface:
				walk(x)
			default:
				out = append(out, r)
			}
		}
	}
	walk(v)
	return out
}

// afterWithoutRedo: w can execute after def.
func afterWithoutRedo(def, w ssa.Instruction) bool {
	return instrCanPrecede(def, w)
}

// afterWithoutRedo2: u can execute after w without def being executed again in between.
func afterWithoutRedo2(def, w, u ssa.Instruction) bool {
	if w.Block() == u.Block() {
		iw, iu, id := -1, -1, -1
		for i, in := range w.Block().Instrs {
			switch in {
			case w:
				iw = i
			case u:
				iu = i
			case def:
				id = i
			}
		}
		if iw < iu && !(id > iw && id < iu) {
			return true
		}
	}
	if u.Block() == def.Block() {
		// u follows def in def's block (dominance): reaching it again means def ran again
		return false
	}
	avoid := map[*ssa.BasicBlock]bool{def.Block(): true}
	if w.Block() == def.Block() {
		// w follows def in the same block: leave the block without re-entering it
		for _, s := range w.Block().Succs {
			if s != def.Block() && core.ReachableAvoiding(s, u.Block(), avoid) {
				return true
			}
		}
		return false
	}
	for _, s := range w.Block().Succs {
		if core.ReachableAvoiding(s, u.Block(), avoid) {
			return true
		}
	}
	return false
}

// ---------- per-statement state of the checker is set before it is read ----------

// PerStatementStateAssignedBeforeRead: the fields of the check state that the traversals
// overwrite while a statement is checked (the send-all flag, the emptied accounts, the
// unbounded account met) describe the statement at hand. From the point where the check of a
// statement begins - the body of the loop that hands each statement to the statement switch -
// every read of such a field must come after an assignment of it on every path; otherwise the
// value left behind by the previous statement decides what is reported for this one.
//
//	mustAssign(g, f)        every path through g to a return stores f (or calls a function that must)
//	readsUnassigned(g, f)   some path from g's entry reads f (or calls a function that does) with
//	                        no assignment before it
func (c *Ctx) PerStatementStateAssignedBeforeRead(ob *core.Obligation, rel, stateType string) {
	var fns []*ssa.Function
	for _, f := range c.P.ModuleFunctions() {
		if relOfFn(f) == rel && len(f.Blocks) > 0 {
			fns = append(fns, f)
		}
	}
	dispatcher := c.checkerSwitchFn(ob, "Statement")
	if dispatcher == nil {
		return
	}
	c.Touch(dispatcher)
	reach := c.P.Reachable(dispatcher)
	// the per-statement fields: overwritten (not accumulated into) within the statement check
	accumulates := func(st *ssa.Store, f *types.Var) bool {
		// f = append(f, ...) / f = f op x
		switch v := st.Val.(type) {
		case *ssa.Call:
			if bi, ok := v.Call.Value.(*ssa.Builtin); ok && bi.Name() == "append" && len(v.Call.Args) > 0 {
				if ld, ok := v.Call.Args[0].(*ssa.UnOp); ok && core.FieldOf(ld.X) == f {
					return true
				}
			}
		case *ssa.BinOp:
			for _, side := range []ssa.Value{v.X, v.Y} {
				if ld, ok := side.(*ssa.UnOp); ok && core.FieldOf(ld.X) == f {
					return true
				}
			}
		}
		return false
	}
	fields := map[*types.Var]bool{}
	for g := range reach {
		if relOfFn(g) != rel {
			continue
		}
		for _, b := range g.Blocks {
			for _, in := range b.Instrs {
				if st, ok := in.(*ssa.Store); ok {
					if f := core.FieldOf(st.Addr); f != nil && ownerOfVar(f) == stateType && !accumulates(st, f) {
						fields[f] = true
					}
				}
			}
		}
	}
	// a load of f that only feeds an accumulation into f is not a read of the statement's state
	feedsOwnUpdate := func(ld *ssa.UnOp, f *types.Var) bool {
		if ld.Referrers() == nil {
			return false
		}
		for _, r := range *ld.Referrers() {
			if _, dbg := r.(*ssa.DebugRef); dbg {
				continue
			}
			v, ok := r.(ssa.Value)
			if !ok || v.Referrers() == nil {
				return false
			}
			for _, r2 := range *v.Referrers() {
				if _, dbg := r2.(*ssa.DebugRef); dbg {
					continue
				}
				st, ok := r2.(*ssa.Store)
				if !ok || core.FieldOf(st.Addr) != f || !accumulates(st, f) {
					return false
				}
			}
		}
		return true
	}
	type sumT struct{ must, reads bool }
	var names []string
	byName := map[string]*types.Var{}
	for f := range fields {
		names = append(names, f.Name())
		byName[f.Name()] = f
	}
	sortStrings(names)
	for _, name := range names {
		f := byName[name]
		sum := map[*ssa.Function]*sumT{}
		for _, g := range fns {
			sum[g] = &sumT{}
		}
		// run one function: returns (must, reads, and the first unassigned read found)
		var within func(b *ssa.BasicBlock) bool
		run := func(g *ssa.Function, start *ssa.BasicBlock, stop ssa.Instruction) (bool, bool, ssa.Instruction) {
			in := map[*ssa.BasicBlock]bool{} // assigned at block entry (must)
			seenB := map[*ssa.BasicBlock]bool{}
			var firstRead ssa.Instruction
			reads := false
			// optimistic initialisation for the must-analysis, then iterate down
			for _, b := range g.Blocks {
				in[b] = true
			}
			in[start] = false
			outOf := func(b *ssa.BasicBlock, record bool) bool {
				as := in[b]
				for _, ins := range b.Instrs {
					if ins == stop {
						return as
					}
					switch x := ins.(type) {
					case *ssa.UnOp:
						if x.Op == token.MUL && core.FieldOf(x.X) == f && !as && !feedsOwnUpdate(x, f) {
							if record {
								reads = true
								if firstRead == nil {
									firstRead = x
								}
							}
						}
					case *ssa.Store:
						if core.FieldOf(x.Addr) == f && !accumulates(x, f) {
							as = true
						}
					case ssa.CallInstruction:
						cs := c.calleesOf(g, x)
						allMust := len(cs) > 0
						for _, h := range cs {
							s := sum[h]
							if s == nil {
								allMust = false
								continue
							}
							if !as && s.reads && record {
								reads = true
								if firstRead == nil {
									firstRead = x
								}
							}
							if !s.must {
								allMust = false
							}
						}
						if allMust {
							as = true
						}
					}
				}
				return as
			}
			// blocks reachable from start
			var order []*ssa.BasicBlock
			var dfs func(b *ssa.BasicBlock)
			dfs = func(b *ssa.BasicBlock) {
				if seenB[b] || (within != nil && !within(b)) {
					return
				}
				seenB[b] = true
				order = append(order, b)
				if stop != nil && b == stop.Block() {
					return
				}
				for _, s := range b.Succs {
					dfs(s)
				}
			}
			dfs(start)
			for changed := true; changed; {
				changed = false
				for _, b := range order {
					if b != start {
						v := true
						any := false
						for _, p := range b.Preds {
							if !seenB[p] || (stop != nil && p == stop.Block()) {
								continue
							}
							any = true
							if !outOf(p, false) {
								v = false
							}
						}
						if !any {
							v = false
						}
						if in[b] != v {
							in[b] = v
							changed = true
						}
					}
				}
			}
			must := true
			nret := 0
			for _, b := range order {
				o := outOf(b, true)
				if stop != nil && b == stop.Block() {
					continue
				}
				if _, ok := b.Instrs[len(b.Instrs)-1].(*ssa.Return); ok {
					nret++
					if !o {
						must = false
					}
				}
			}
			if nret == 0 {
				must = false
			}
			return must, reads, firstRead
		}
		for changed := true; changed; {
			changed = false
			for _, g := range fns {
				m, r, _ := run(g, g.Blocks[0], nil)
				s := sum[g]
				if m != s.must || (r && !s.reads) {
					// must only grows from false (least fixpoint), reads only grows
					if m && !s.must {
						s.must = true
						changed = true
					}
					if r && !s.reads {
						s.reads = true
						changed = true
					}
				}
			}
		}
		// where the check of a statement begins: the body of the loop around each call of the
		// statement switch (the function entry when the call is not in a loop)
		n := 0
		for _, g := range fns {
			for _, ci := range core.Calls(g) {
				if ci.Common().StaticCallee() != dispatcher || g == dispatcher {
					continue
				}
				n++
				c.Touch(g)
				key := "per-statement:" + f.Name()
				start := g.Blocks[0]
				var head *ssa.BasicBlock
				for _, b := range g.Blocks {
					iff, ok := b.Instrs[len(b.Instrs)-1].(*ssa.If)
					if !ok || !isRangeCond(iff.Cond) {
						continue
					}
					body := b.Succs[0]
					if body.Dominates(ci.Block()) && core.ReachableAvoiding(ci.Block(), b, nil) {
						if start == g.Blocks[0] || start.Dominates(body) {
							start, head = body, b
						}
					}
				}
				within = nil
				if head != nil {
					st, hd := start, head
					within = func(b *ssa.BasicBlock) bool {
						return b.Parent() != st.Parent() || (st.Dominates(b) && core.ReachableAvoiding(b, hd, nil))
					}
				}
				// from where the check of a statement begins: the first read that no assignment
				// precedes (in the loop body itself, or inside the statement switch)
				_, _, at := run(g, start, nil)
				bad := ""
				if at != nil {
					bad = "is read while a statement is checked, on a path on which nothing has assigned it for this statement"
					// name the place inside the callee when the read is not in g itself
					for depth := 0; depth < 4; depth++ {
						call, isCall := at.(ssa.CallInstruction)
						if !isCall {
							break
						}
						var next ssa.Instruction
						for _, h := range c.calleesOf(at.Parent(), call) {
							if sum[h] != nil && sum[h].reads {
								_, _, next = run(h, h.Blocks[0], nil)
							}
						}
						if next == nil {
							break
						}
						at = next
					}
				}
				if bad != "" {
					pos := c.P.Pos(ci.Pos())
					if at != nil {
						pos = c.P.Pos(at.Pos())
					}
					ob.Fail(key, pos, "the field "+f.Name()+" of the check state "+bad+": the value left behind by the previous statement decides what is reported for this one")
				} else {
					ob.Pass(key, c.P.Pos(ci.Pos()), "assigned on every path before it is read within the check of a statement")
				}
				within = nil
			}
		}
		if n == 0 {
			ob.Unknown("per-statement:"+f.Name(), "-", "the statement switch of the checker is never called")
		}
	}
	if len(fields) == 0 {
		ob.Pass("per-statement:none", "-", "no field of the check state is overwritten while a statement is checked")
	}
}

// ---------- a search among siblings gives up only after the last one ----------

// SiblingSearchExhaustive: Range.Contains is inclusive at both ends, so two neighbouring nodes
// can both contain a position (the end of one is the start of the next). In the hover search,
// a loop over sibling nodes may therefore be left with an answer only when there is one: a
// return inside the loop must hand back a value known not to be nil on that path. Returning
// nil - or whatever the first containing sibling found, even nothing - skips the neighbours.
func (c *Ctx) SiblingSearchExhaustive(ob *core.Obligation, rel, resultType string) {
	n := 0
	for _, fn := range c.P.ModuleFunctions() {
		if relOfFn(fn) != rel || len(fn.Blocks) == 0 || fn.Signature.Results().Len() != 1 {
			continue
		}
		if !core.IsNamedType(fn.Signature.Results().At(0).Type(), core.ModPath+"/"+rel, resultType) {
			continue
		}
		var heads []*ssa.BasicBlock
		for _, b := range fn.Blocks {
			if iff, ok := b.Instrs[len(b.Instrs)-1].(*ssa.If); ok && isRangeCond(iff.Cond) {
				heads = append(heads, b)
			}
		}
		if len(heads) == 0 {
			continue
		}
		var pc *core.PathConds
		for _, ret := range core.Returns(fn) {
			inLoop := false
			for _, h := range heads {
				body := h.Succs[0]
				if body.Dominates(ret.Block()) {
					inLoop = true
				}
			}
			if !inLoop || len(ret.Results) != 1 {
				continue
			}
			n++
			c.Touch(fn)
			key := "sibling-search:" + core.SSAName(fn)
			rv := ret.Results[0]
			if core.IsNilConst(rv) {
				ob.Fail(key, c.P.Pos(ret.Pos()), "the search among sibling nodes is given up inside the loop (returns no answer): a neighbour that also contains the position - ranges are inclusive at both ends - is never asked")
				continue
			}
			if pc == nil {
				pc = core.NewPathConds(fn)
			}
			nonNil := false
			switch x := rv.(type) {
			case *ssa.MakeInterface:
				if _, isAlloc := x.X.(*ssa.Alloc); isAlloc {
					nonNil = true
				}
			}
			if !nonNil {
				k := core.Canon(core.Strip(rv))
				nonNil = pc.Requires(ret.Block(), func(l core.Lit) bool {
					bo, ok := l.Cond.(*ssa.BinOp)
					if !ok || (bo.Op != token.NEQ && bo.Op != token.EQL) {
						return false
					}
					var other ssa.Value
					if core.IsNilConst(bo.Y) {
						other = bo.X
					} else if core.IsNilConst(bo.X) {
						other = bo.Y
					} else {
						return false
					}
					return core.Canon(core.Strip(other)) == k && (bo.Op == token.NEQ) == l.Val
				})
			}
			if nonNil {
				ob.Pass(key, c.P.Pos(ret.Pos()), "the loop is left only with an answer (tested non-nil)")
			} else {
				ob.Fail(key, c.P.Pos(ret.Pos()), "the loop over sibling nodes returns whatever the first candidate found, even nothing ("+core.ShortVal(rv)+" is not tested against nil): a neighbour that also contains the position - ranges are inclusive at both ends - is never asked")
			}
		}
	}
	if n == 0 {
		ob.Unknown("sibling-search:none", "-", "no hover function returns from inside a loop over sibling nodes")
	}
}
