package rules

import (
	"go/token"
	"go/types"
	"strings"

	"nsa/core"

	"golang.org/x/tools/go/ssa"
)

// Rules added after the first round of independently written seeded changes (DESIGN 10.5).

// reconciler returns the function that pairs the pending senders and receivers into postings:
// it returns a list of postings, works on the two pending lists (takes them, or reads a
// sender's and a receiver's amount itself) and builds the postings - itself or through a
// helper of its package. When several functions qualify (the loop was split), the outermost.
func (c *Ctx) reconciler(r *Roles) *ssa.Function {
	if c.reconcilerDone {
		return c.reconcilerFn
	}
	c.reconcilerDone = true
	var cands []*ssa.Function
	for _, g := range c.P.ModuleFunctions() {
		if relOfFn(g) != "internal/interpreter" || g.Parent() != nil || !returnsPostings(g) {
			continue
		}
		if !(takesBothPending(g) || readsBothAmounts(g, r)) {
			continue
		}
		if buildsPostings(g, r) || buildsPostingsThroughHelper(g, r, 2) {
			cands = append(cands, g)
		}
	}
	for _, g := range cands {
		inner := false
		for _, h := range cands {
			if h != g && reachesWithin(h, g, 2) {
				inner = true
			}
		}
		if !inner {
			c.reconcilerFn = g
			break
		}
	}
	return c.reconcilerFn
}

// IsReconciler: fn is the reconciler.
func (c *Ctx) IsReconciler(fn *ssa.Function, r *Roles) bool {
	return fn != nil && fn == c.reconciler(r)
}

func takesBothPending(g *ssa.Function) bool {
	s, rc := false, false
	for _, p := range g.Params {
		t := p.Type()
		if pt, ok := t.Underlying().(*types.Pointer); ok {
			t = pt.Elem()
		}
		switch elemTypeName(t) {
		case "Sender":
			s = true
		case "Receiver":
			rc = true
		}
	}
	return s && rc
}

func readsBothAmounts(g *ssa.Function, r *Roles) bool {
	s, rc := false, false
	for _, b := range g.Blocks {
		for _, in := range b.Instrs {
			var f *types.Var
			switch x := in.(type) {
			case *ssa.FieldAddr:
				f = core.FieldOf(x)
			case *ssa.Field:
				f = core.FieldOf(x)
			}
			if f == r.SenderAmt {
				s = true
			}
			if f == r.ReceiverAmt {
				rc = true
			}
		}
	}
	return s && rc
}

// buildsPostingsThroughHelper: g hands its postings to (or receives them from) a helper of its
// package that builds them.
func buildsPostingsThroughHelper(g *ssa.Function, r *Roles, depth int) bool {
	if depth <= 0 {
		return false
	}
	for _, ci := range core.Calls(g) {
		sc := ci.Common().StaticCallee()
		if sc == nil || sc == g || len(sc.Blocks) == 0 || relOfFn(sc) != relOfFn(g) || !handlesPostings(sc) {
			continue
		}
		if buildsPostings(sc, r) || buildsPostingsThroughHelper(sc, r, depth-1) {
			return true
		}
	}
	return false
}

// handlesPostings: fn returns postings or takes (a pointer to) a list of them.
func handlesPostings(fn *ssa.Function) bool {
	if returnsPostings(fn) {
		return true
	}
	for _, p := range fn.Params {
		t := p.Type()
		if pt, ok := t.Underlying().(*types.Pointer); ok {
			t = pt.Elem()
		}
		if elemTypeName(t) == "Posting" {
			return true
		}
	}
	return false
}

// postingBuilders: the helpers of the reconciler that build or merge postings for it.
func (c *Ctx) postingBuilders(r *Roles) []*ssa.Function {
	fn := c.reconciler(r)
	if fn == nil {
		return nil
	}
	var out []*ssa.Function
	seen := map[*ssa.Function]bool{fn: true}
	work := []*ssa.Function{fn}
	for i := 0; i < len(work) && len(work) < 8; i++ {
		for _, ci := range core.Calls(work[i]) {
			sc := ci.Common().StaticCallee()
			if sc == nil || seen[sc] || len(sc.Blocks) == 0 || relOfFn(sc) != relOfFn(fn) || !handlesPostings(sc) {
				continue
			}
			seen[sc] = true
			work = append(work, sc)
			out = append(out, sc)
		}
	}
	return out
}

// ArgSite: one static call of a helper, with the argument passed for one of its parameters.
type ArgSite struct {
	Arg    ssa.Value
	Site   ssa.CallInstruction
	Caller *ssa.Function
}

// argSites: every call of fn in the module with the argument for p; ok is false when fn is
// also used as a value (its callers are then not all known) or is never called.
func (c *Ctx) argSites(fn *ssa.Function, p *ssa.Parameter) ([]ArgSite, bool) {
	idx := paramIndex(fn, p)
	if idx < 0 {
		return nil, false
	}
	if c.fnValues == nil {
		c.fnValues = map[*ssa.Function]bool{}
		for _, g := range c.P.ModuleFunctions() {
			for _, b := range g.Blocks {
				for _, in := range b.Instrs {
					if _, dbg := in.(*ssa.DebugRef); dbg {
						continue
					}
					ci, isCall := in.(ssa.CallInstruction)
					for oi, op := range in.Operands(nil) {
						f, ok := (*op).(*ssa.Function)
						if !ok {
							continue
						}
						if isCall && oi == 0 && ci.Common().Value == ssa.Value(f) {
							continue
						}
						c.fnValues[f] = true
					}
				}
			}
		}
	}
	if c.fnValues[fn] {
		return nil, false
	}
	var out []ArgSite
	for _, g := range c.P.ModuleFunctions() {
		for _, ci := range core.Calls(g) {
			if ci.Common().StaticCallee() != fn {
				continue
			}
			args := core.CallArgs(ci.Common())
			if ci.Common().IsInvoke() || idx >= len(args) {
				return nil, false
			}
			out = append(out, ArgSite{Arg: args[idx], Site: ci, Caller: g})
		}
	}
	return out, len(out) > 0
}

// reconcilerRegion: the reconciler and the helpers of its package it hands the pending lists
// (or elements of them) to.
func (c *Ctx) reconcilerRegion(r *Roles) []*ssa.Function {
	fn := c.reconciler(r)
	if fn == nil {
		return nil
	}
	out := []*ssa.Function{fn}
	seen := map[*ssa.Function]bool{fn: true}
	takesPending := func(g *ssa.Function) bool {
		for _, p := range g.Params {
			t := p.Type()
			if pt, ok := t.Underlying().(*types.Pointer); ok {
				t = pt.Elem()
			}
			en := elemTypeName(t)
			if en == "Sender" || en == "Receiver" || typeShort(t) == "Sender" || typeShort(t) == "Receiver" {
				return true
			}
		}
		return false
	}
	for i := 0; i < len(out) && len(out) < 8; i++ {
		for _, ci := range core.Calls(out[i]) {
			sc := ci.Common().StaticCallee()
			if sc == nil || seen[sc] || len(sc.Blocks) == 0 || relOfFn(sc) != relOfFn(fn) || !takesPending(sc) {
				continue
			}
			seen[sc] = true
			out = append(out, sc)
		}
	}
	return out
}

// amountKind: v is (a load of) a sender's or a receiver's queued amount: "S", "R" or "".
func amountKind(v ssa.Value, r *Roles) string {
	v = core.Strip(v)
	var f *types.Var
	switch x := v.(type) {
	case *ssa.Field:
		f = core.FieldOf(x)
	case *ssa.UnOp:
		if x.Op == token.MUL {
			f = core.FieldOf(x.X)
		}
	}
	switch f {
	case r.SenderAmt:
		return "S"
	case r.ReceiverAmt:
		return "R"
	}
	return ""
}

// PushBackDiscipline (R1): what the reconciler pushes back onto a pending list is a fresh
// remainder x - y of the two amounts it popped, with x taken from that same list (the larger
// one keeps its rest) - never a popped element as is, never the remainder of the other side.
func (c *Ctx) PushBackDiscipline(ob *core.Obligation, r *Roles) {
	if r == nil {
		return
	}
	region := c.reconcilerRegion(r)
	if len(region) == 0 {
		ob.Unknown("anchor:reconciler", "-", "no function building postings found")
		return
	}
	n := 0
	for _, fn := range region {
		c.Touch(fn)
		for _, b := range fn.Blocks {
			for _, in := range b.Instrs {
				st, ok := in.(*ssa.Store)
				if !ok {
					continue
				}
				f := core.FieldOf(st.Addr)
				if f == r.SenderName || f == r.ReceiverName {
					// whoever is pushed back keeps its own name
					who := "sender"
					if f == r.ReceiverName {
						who = "receiver"
					}
					key := "pushback:" + core.SSAName(fn) + ":" + who + ":name"
					if postingFieldOf(st.Val) == f {
						ob.Pass(key, c.P.Pos(st.Pos()), "a pushed-back "+who+" keeps the name of the "+who+" that was popped")
					} else {
						ob.Fail(key, c.P.Pos(st.Pos()), "the remainder pushed back as a "+who+" does not carry the name of the "+who+" it is the rest of ("+core.ShortVal(st.Val)+"): the rest would be attributed to another account")
					}
					continue
				}
				if f != r.SenderAmt && f != r.ReceiverAmt {
					continue
				}
				n++
				own, other := "S", "R"
				name := "sender"
				if f == r.ReceiverAmt {
					own, other, name = "R", "S", "receiver"
				}
				key := "pushback:" + core.SSAName(fn) + ":" + name
				w := subWriter(st.Val)
				if w == nil {
					ob.Fail(key, c.P.Pos(st.Pos()), "a "+name+" is pushed back whose amount is not a fresh difference of the two amounts popped (a popped element goes back unchanged: the share already consumed is counted again)")
					continue
				}
				a := core.CallArgs(&w.Call)
				if amountKind(a[1], r) != own || amountKind(a[2], r) != other {
					ob.Fail(key, c.P.Pos(st.Pos()), "the remainder pushed back as a "+name+" is not (that "+name+"'s amount) - (the other side's amount): the rest of one side would be billed to the other")
					continue
				}
				ob.Pass(key, c.P.Pos(st.Pos()), "pushed-back "+name+" = its own amount minus the other side's")
			}
		}
		// a whole popped struct appended back (no field store at all)
		for _, b := range fn.Blocks {
			for _, in := range b.Instrs {
				call, ok := in.(*ssa.Call)
				if !ok {
					continue
				}
				bi, ok := call.Call.Value.(*ssa.Builtin)
				if !ok || bi.Name() != "append" || len(call.Call.Args) != 2 {
					continue
				}
				en := elemTypeName(call.Call.Args[0].Type())
				if en != "Sender" && en != "Receiver" {
					continue
				}
				var elems []ssa.Value
				if sl, ok := call.Call.Args[1].(*ssa.Slice); ok {
					walk2(sl, &elems)
				}
				for _, e := range elems {
					ld, ok := e.(*ssa.UnOp)
					if !ok {
						continue
					}
					al, ok := ld.X.(*ssa.Alloc)
					if ok && al.Comment == "complit" {
						continue // a fresh literal: its fields were judged above
					}
					n++
					ob.Fail("pushback:"+core.SSAName(fn)+":"+strings.ToLower(en)+":whole", c.P.Pos(call.Pos()), "a popped "+strings.ToLower(en)+" is pushed back unchanged: the part already consumed is counted again")
				}
			}
		}
	}
	if n == 0 {
		ob.Unknown("pushback:none", "-", "the reconciler pushes nothing back")
	}
}

// PendingScanComplete (R3): the balance reader that accounts for pending draws returns only
// after a loop over ALL pending senders (no early return before it, no break out of it), and
// subtracts a sender's amount under no other condition than equality of the names.
func (c *Ctx) PendingScanComplete(ob *core.Obligation, r *Roles) {
	if r == nil {
		return
	}
	n := 0
	for _, fn := range c.P.ModuleFunctions() {
		if relOfFn(fn) != "internal/interpreter" || !r.IsBalanceReader(fn) {
			continue
		}
		// does this reader itself read the pending senders?
		var head *ssa.BasicBlock
		for _, b := range fn.Blocks {
			iff, ok := b.Instrs[len(b.Instrs)-1].(*ssa.If)
			if !ok || !isRangeCond(iff.Cond) {
				continue
			}
			bo := iff.Cond.(*ssa.BinOp)
			if lc, ok := core.Strip(bo.Y).(*ssa.Call); ok {
				if ld, ok := lc.Call.Args[0].(*ssa.UnOp); ok && core.FieldOf(ld.X) == r.SendersF {
					head = b
				}
			}
		}
		if head == nil {
			continue
		}
		n++
		c.Touch(fn)
		key := "pending-scan:" + core.SSAName(fn)
		bad := ""
		pc0 := core.NewPathConds(fn)
		for _, ret := range core.Returns(fn) {
			if !head.Dominates(ret.Block()) {
				// leaving early because there is no pending draw at all is the same thing
				if pc0.Requires(ret.Block(), func(l core.Lit) bool { return sendersEmptyLit(l, r) }) {
					continue
				}
				bad = "the reader can return (at " + c.P.Pos(ret.Pos()) + ") before it has looked at the pending draws: an account already drawn in this statement would be offered its balance again"
			}
		}
		// loop body: blocks dominated by the body entry that can reach the header again
		body := head.Succs[0]
		for _, b := range fn.Blocks {
			if !body.Dominates(b) {
				continue
			}
			for _, s := range b.Succs {
				if s != head && !body.Dominates(s) {
					bad = "the scan of the pending draws is left early (block exits the loop at " + c.P.Pos(firstPos(b)) + "): only some of the earlier draws from the account are subtracted"
				}
			}
		}
		// the subtraction is conditional on name equality only
		pc := core.NewPathConds(fn)
		subs := 0
		for _, b := range fn.Blocks {
			if !body.Dominates(b) {
				continue
			}
			for _, in := range b.Instrs {
				call, ok := in.(*ssa.Call)
				if !ok {
					continue
				}
				tn, m := core.BigMethod(&call.Call)
				if tn != "Int" || (m != "Sub" && m != "Add") {
					continue
				}
				if amountKind(core.CallArgs(&call.Call)[2], r) != "S" {
					continue
				}
				if m == "Add" {
					// the draws are added up first: the sum must be subtracted once after the loop
					if !subtractedAfter(fn, core.CallArgs(&call.Call)[0], head.Succs[1]) {
						continue
					}
				}
				subs++
				for _, term := range pc.At(b) {
					for _, l := range term {
						if rangeLit(l) || sendersLenLit(l, r) {
							continue
						}
						bo, ok := l.Cond.(*ssa.BinOp)
						isNameEq := ok && (bo.Op == token.EQL || bo.Op == token.NEQ) && (fieldOfLoad(bo.X) == r.SenderName || fieldOfLoad(bo.Y) == r.SenderName)
						if !isNameEq {
							bad = "a pending draw is subtracted only under an extra condition (" + core.ShortVal(l.Cond) + "): some earlier draws from the account would be ignored"
						}
					}
				}
			}
		}
		if subs == 0 && bad == "" {
			bad = "the loop over the pending senders does not subtract their amounts"
		}
		if bad != "" {
			ob.Fail(key, c.P.Pos(fn.Pos()), bad)
		} else {
			ob.Pass(key, c.P.Pos(fn.Pos()), "every return follows a complete loop over the pending senders; each sender of the same name is subtracted")
		}
	}
	if n == 0 {
		ob.Unknown("pending-scan:none", "-", "no balance reader scanning the pending senders found")
	}
}

func rangeLit(l core.Lit) bool { return isRangeCond(l.Cond) }

// sendersLenLit: the literal compares the length of the pending senders list with a constant.
func sendersLenLit(l core.Lit, r *Roles) bool {
	bo, ok := l.Cond.(*ssa.BinOp)
	if !ok {
		return false
	}
	for _, side := range []ssa.Value{bo.X, bo.Y} {
		if lc, ok := core.Strip(side).(*ssa.Call); ok && isLenCall(lc) {
			if ld, ok := lc.Call.Args[0].(*ssa.UnOp); ok && core.FieldOf(ld.X) == r.SendersF {
				return true
			}
		}
	}
	return false
}

// sendersEmptyLit: the literal says the pending senders list is empty.
func sendersEmptyLit(l core.Lit, r *Roles) bool {
	if !sendersLenLit(l, r) {
		return false
	}
	bo := l.Cond.(*ssa.BinOp)
	k, ok := core.ConstInt(bo.Y)
	if !ok {
		return false
	}
	switch bo.Op {
	case token.EQL:
		return k == 0 && l.Val
	case token.NEQ:
		return k == 0 && !l.Val
	case token.GTR:
		return k == 0 && !l.Val
	case token.LSS:
		return k == 1 && l.Val
	}
	return false
}

// subtractedAfter: after the block `after`, the number acc is the subtrahend of a Sub.
func subtractedAfter(fn *ssa.Function, acc ssa.Value, after *ssa.BasicBlock) bool {
	key := cellKey(acc)
	for _, ci := range core.Calls(fn) {
		if tn, m := core.BigMethod(ci.Common()); tn == "Int" && m == "Sub" && after.Dominates(ci.Block()) {
			if cellKey(core.CallArgs(ci.Common())[2]) == key {
				return true
			}
		}
	}
	return false
}

func fieldOfLoad(v ssa.Value) *types.Var {
	v = core.Strip(v)
	switch x := v.(type) {
	case *ssa.UnOp:
		if x.Op == token.MUL {
			return core.FieldOf(x.X)
		}
	case *ssa.Field:
		return core.FieldOf(x)
	}
	return nil
}

// BatchRegistersAlways (R4): the query-registration function returns without having updated
// the pending query only for the world account or when the asset is already listed.
func (c *Ctx) BatchRegistersAlways(ob *core.Obligation) {
	ir := c.IRoles(ob)
	if ir == nil || ir.Batch == nil {
		return
	}
	fn := ir.Batch
	queryF := c.P.Field("internal/interpreter", "programState", "CurrentBalanceQuery")
	upd := map[*ssa.BasicBlock]bool{}
	for _, b := range fn.Blocks {
		for _, in := range b.Instrs {
			if mu, ok := in.(*ssa.MapUpdate); ok {
				if ld, ok := mu.Map.(*ssa.UnOp); ok && core.FieldOf(ld.X) == queryF {
					upd[b] = true
				}
			}
		}
	}
	// path conditions of the sub-graph WITHOUT the updating blocks: how a return is reached
	// when nothing was recorded
	pc := core.NewPathCondsAvoiding(fn, upd)
	key := "batch-registers:" + core.SSAName(fn)
	bad := ""
	for _, ret := range core.Returns(fn) {
		for _, term := range pc.At(ret.Block()) {
			okTerm := false
			for _, l := range term {
				if bo, ok := l.Cond.(*ssa.BinOp); ok && (bo.Op == token.EQL || bo.Op == token.NEQ) {
					if k, ok := core.ConstString(bo.Y); ok && k == "world" && (bo.Op == token.EQL) == l.Val {
						okTerm = true
					}
				}
				if call, ok := l.Cond.(*ssa.Call); ok && l.Val {
					if o := core.CalleeObj(&call.Call); o != nil && o.Name() == "Contains" {
						okTerm = true
					}
				}
			}
			if !okTerm {
				bad = "the registration can return without recording the (account, asset) pair although the account is not 'world' and the asset is not yet listed: that balance is never asked for"
			}
		}
	}
	if bad != "" {
		ob.Fail(key, c.P.Pos(fn.Pos()), bad)
	} else {
		ob.Pass(key, c.P.Pos(fn.Pos()), "returns without an update only for 'world' or an asset already listed")
	}
}

// termPassesThrough: the path class described by term necessarily went through one of the
// blocks: some block of the set has a path condition that is implied by the term (every
// literal of some DNF term of the block occurs in term).
func termPassesThrough(term core.Term, blocks map[*ssa.BasicBlock]bool, fn *ssa.Function) bool {
	pc := core.NewPathConds(fn)
	for b := range blocks {
		for _, bt := range pc.At(b) {
			all := true
			for _, l := range bt {
				found := false
				for _, tl := range term {
					if tl == l {
						found = true
					}
				}
				if !found {
					all = false
				}
			}
			if all && len(bt) > 0 {
				// and no exit of b other than towards the return? (b's successors are not examined:
				// sufficient for the straight-line update-then-return shape)
				return true
			}
		}
	}
	return false
}

// OneElementPerIteration (R5): in the loop that turns the allotment items into portions,
// every path through an arm of the switch either returns an error or appends exactly one
// element before the next iteration.
func (c *Ctx) OneElementPerIteration(ob *core.Obligation, rel, fname string) {
	av := c.P.Named("internal/parser", "AllotmentValue")
	n := 0
	// role: the functions of the package that switch over the allotment item kinds and append
	// to a slice of numbers
	for _, g := range c.P.ModuleFunctions() {
		if relOfFn(g) != rel || len(clauseEntries(g, av)) == 0 {
			continue
		}
		appends := false
		for _, h := range append([]*ssa.Function{g}, g.AnonFuncs...) {
			for _, ci := range core.Calls(h) {
				if bi, ok := ci.Common().Value.(*ssa.Builtin); ok && bi.Name() == "append" && isBigSlice(ci.Common().Args[0].Type()) {
					appends = true
				}
			}
		}
		if !appends {
			continue
		}
		n++
		c.oneElementPerIteration(ob, g, av)
	}
	if n == 0 {
		ob.Unknown("anchor:allotment-function", "-", "no function that turns the allotment items into a slice of portions found")
	}
}

func (c *Ctx) oneElementPerIteration(ob *core.Obligation, fn *ssa.Function, av *types.Named) {
	c.Touch(fn)
	entries := clauseEntries(fn, av)
	key := "one-per-item:" + core.SSAName(fn)
	// blocks that append to a slice of rationals
	app := map[*ssa.BasicBlock]bool{}
	appendsBig := func(g *ssa.Function) bool {
		for _, ci := range core.Calls(g) {
			if bi, ok := ci.Common().Value.(*ssa.Builtin); ok && bi.Name() == "append" && isBigSlice(ci.Common().Args[0].Type()) && blockOnEveryPath(g, ci.Block()) {
				return true
			}
		}
		return false
	}
	for _, b := range fn.Blocks {
		for _, in := range b.Instrs {
			if call, ok := in.(*ssa.Call); ok {
				if bi, ok := call.Call.Value.(*ssa.Builtin); ok && bi.Name() == "append" && isBigSlice(call.Call.Args[0].Type()) {
					app[b] = true
				}
				// a local closure that appends on every path through it
				if sc := call.Call.StaticCallee(); sc != nil && sc.Parent() == fn && appendsBig(sc) {
					app[b] = true
				}
			}
		}
	}
	// the loop header: the range condition block that dominates the arms
	var head *ssa.BasicBlock
	for _, b := range fn.Blocks {
		if iff, ok := b.Instrs[len(b.Instrs)-1].(*ssa.If); ok && isRangeCond(iff.Cond) {
			for _, e := range entries {
				if b.Dominates(e) {
					head = b
				}
			}
		}
	}
	if head == nil {
		ob.Unknown(key, c.P.Pos(fn.Pos()), "the switch is not inside a range loop")
		return
	}
	for kind, e := range entries {
		if core.ReachableAvoiding(e, head, app) {
			ob.Fail(key+":"+kind, c.P.Pos(firstPos(e)), "an item of kind "+kind+" can go to the next iteration without adding a portion: the shares slice gets shorter than the item list and the callers' shares[i] goes out of range (or shares are attributed to the wrong item)")
		} else {
			ob.Pass(key+":"+kind, c.P.Pos(firstPos(e)), "every non-error path of the arm appends one portion")
		}
	}
}

// BoundedArithmeticOnNumerals (R6): in the packages that read numbers from text, no machine
// multiplication / shift feeds a big number, and no big number is narrowed to a machine
// integer (Int64/Uint64/Float64) - both silently wrap or round beyond 64 bits.
func (c *Ctx) BoundedArithmeticOnNumerals(ob *core.Obligation, rels map[string]bool) {
	for _, fn := range c.P.ModuleFunctions() {
		if !rels[relOfFn(fn)] {
			continue
		}
		name := core.SSAName(fn)
		for _, ci := range core.Calls(fn) {
			call := ci.Common()
			obj := core.CalleeObj(call)
			if obj == nil {
				continue
			}
			tn, m := core.BigMethod(call)
			if tn != "" && (m == "Int64" || m == "Uint64" || m == "Float64" || m == "Float32") {
				c.Touch(fn)
				ob.Fail("narrow:"+name+":"+tn+"."+m, c.P.Pos(ci.Pos()), "big."+tn+"."+m+" narrows an arbitrary-precision value to 64 bits: amounts beyond that range change silently")
				continue
			}
			var arg ssa.Value
			if core.IsFunc(obj, "math/big", "NewInt") {
				arg = call.Args[0]
			} else if tn == "Int" && (m == "SetInt64" || m == "SetUint64") {
				arg = core.CallArgs(call)[1]
			}
			if arg == nil {
				continue
			}
			if op := machineProduct(arg, map[ssa.Value]bool{}, 0); op != "" {
				c.Touch(fn)
				ob.Fail("machine-arith:"+name, c.P.Pos(ci.Pos()), "a big number is built from machine-integer arithmetic ("+op+"): it wraps silently beyond 64 bits (e.g. a power of ten computed in an int64 loop)")
			} else {
				c.Touch(fn)
				ob.Pass("machine-arith:"+name, c.P.Pos(ci.Pos()), "machine operand is a constant, a length, or a sum of those")
			}
		}
	}
}

// machineProduct: the machine-integer value involves a multiplication, shift, or a loop-carried
// product; returns a description of the offending operation or "".
func machineProduct(v ssa.Value, seen map[ssa.Value]bool, d int) string {
	if seen[v] || d > 12 {
		return ""
	}
	seen[v] = true
	switch x := v.(type) {
	case *ssa.Convert:
		return machineProduct(x.X, seen, d+1)
	case *ssa.ChangeType:
		return machineProduct(x.X, seen, d+1)
	case *ssa.BinOp:
		switch x.Op {
		case token.MUL, token.SHL:
			if _, ok := core.ConstInt(x.X); ok {
				if _, ok := core.ConstInt(x.Y); ok {
					return ""
				}
			}
			return "operator " + x.Op.String()
		}
		if s := machineProduct(x.X, seen, d+1); s != "" {
			return s
		}
		return machineProduct(x.Y, seen, d+1)
	case *ssa.Phi:
		for _, e := range x.Edges {
			if s := machineProduct(e, seen, d+1); s != "" {
				return s
			}
		}
	case *ssa.UnOp:
		if x.Op == token.MUL {
			if al, ok := x.X.(*ssa.Alloc); ok && al.Referrers() != nil {
				for _, r := range *al.Referrers() {
					if st, ok := r.(*ssa.Store); ok && st.Addr == al {
						if s := machineProduct(st.Val, seen, d+1); s != "" {
							return s
						}
					}
				}
			}
		}
	case *ssa.Call:
		if o := core.CalleeObj(&x.Call); o != nil && o.Pkg() != nil && o.Pkg().Path() == "math" {
			return "math." + o.Name()
		}
	}
	return ""
}

// SingleCollectingListener (R7 / C14.4): both recognizers get the same collecting listener and
// the errors returned are that listener's own list.
func (c *Ctx) SingleCollectingListener(ob *core.Obligation) {
	fn := c.P.SSAFunc(c.P.LookupFunc("internal/parser", "Parse"))
	if fn == nil {
		ob.Unknown("anchor:parser.Parse", "-", "Parse not found")
		return
	}
	c.Touch(fn)
	key := "listener:" + core.SSAName(fn)
	var listeners []ssa.Value
	recognizers := 0
	for _, site := range c.callsThroughHelpers(fn, func(o types.Object) bool { return o.Name() == "AddErrorListener" }) {
		recognizers++
		args := core.CallArgs(site.call.Common())
		listeners = append(listeners, core.Strip(site.actual(args[len(args)-1])))
	}
	if recognizers < 2 {
		ob.Fail(key, c.P.Pos(fn.Pos()), "the collecting listener is not installed on both the lexer and the parser: some syntax errors never reach the result")
		return
	}
	for _, l := range listeners[1:] {
		if l != listeners[0] {
			ob.Fail(key, c.P.Pos(fn.Pos()), "lexer and parser report to different listeners: the errors returned must then be recombined, and every recombination seen so far lost some")
			return
		}
	}
	// ParseResult.Errors <- listener.Errors
	errF := c.P.Field("internal/parser", "ParseResult", "Errors")
	okStore := false
	for _, b := range fn.Blocks {
		for _, in := range b.Instrs {
			st, ok := in.(*ssa.Store)
			if !ok || core.FieldOf(st.Addr) != errF {
				continue
			}
			if ld, ok := st.Val.(*ssa.UnOp); ok {
				if fa, ok := ld.X.(*ssa.FieldAddr); ok && core.Strip(fa.X) == listeners[0] {
					okStore = true
				}
			}
		}
	}
	if !okStore {
		ob.Fail(key, c.P.Pos(fn.Pos()), "the errors returned are not the collecting listener's own list")
		return
	}
	// default console listeners removed on both
	removed := 0
	for _, ci := range core.Calls(fn) {
		if o := core.CalleeObj(ci.Common()); o != nil && o.Name() == "RemoveErrorListeners" {
			removed++
		}
	}
	ob.Pass(key, c.P.Pos(fn.Pos()), "one listener on lexer and parser; its list is what Parse returns")
	_ = removed
}

// helperSite: a call found in fn or in a helper of its package that fn calls; actual maps a
// value of the helper that is one of its parameters back to what fn passed.
type helperSite struct {
	call   ssa.CallInstruction
	via    *ssa.Call // nil when the call is in fn itself
	helper *ssa.Function
}

func (h helperSite) actual(v ssa.Value) ssa.Value {
	v = core.Strip(v)
	if h.via == nil {
		return v
	}
	if p, ok := v.(*ssa.Parameter); ok {
		if i := paramIndex(h.helper, p); i >= 0 && i < len(h.via.Call.Args) {
			return core.Strip(h.via.Call.Args[i])
		}
	}
	return v
}

// callsThroughHelpers lists the calls whose callee satisfies pred, in fn and in the module
// functions of its package that fn calls directly.
func (c *Ctx) callsThroughHelpers(fn *ssa.Function, pred func(types.Object) bool) []helperSite {
	var out []helperSite
	for _, ci := range core.Calls(fn) {
		if o := core.CalleeObj(ci.Common()); o != nil && pred(o) {
			out = append(out, helperSite{call: ci})
		}
		call, ok := ci.(*ssa.Call)
		if !ok {
			continue
		}
		sc := call.Call.StaticCallee()
		if sc == nil || sc == fn || len(sc.Blocks) == 0 || relOfFn(sc) != relOfFn(fn) {
			continue
		}
		for _, c2 := range core.Calls(sc) {
			if o := core.CalleeObj(c2.Common()); o != nil && pred(o) {
				out = append(out, helperSite{call: c2, via: call, helper: sc})
				c.Touch(sc)
			}
		}
	}
	return out
}

// StringLiteralBody (R8): the value of a string literal is its token text without exactly
// one character at each end (the delimiters), by one of the enumerated idioms.
func (c *Ctx) StringLiteralBody(ob *core.Obligation) {
	f := c.P.Field("internal/parser", "StringLiteral", "String")
	if f == nil {
		ob.Unknown("anchor:parser.StringLiteral.String", "-", "field not found")
		return
	}
	n := 0
	for _, fn := range c.P.ModuleFunctions() {
		if relOfFn(fn) != "internal/parser" {
			continue
		}
		for _, b := range fn.Blocks {
			for _, in := range b.Instrs {
				st, ok := in.(*ssa.Store)
				if !ok || core.FieldOf(st.Addr) != f {
					continue
				}
				n++
				c.Touch(fn)
				key := "string-body:" + core.SSAName(fn)
				if sl, ok := st.Val.(*ssa.Slice); ok {
					lo, okLo := core.ConstInt(sl.Low)
					t, off := "", int64(0)
					if sl.High != nil {
						t, off = core.Linear(sl.High)
					}
					if okLo && lo == 1 && off == -1 && t == "len("+core.Canon(sl.X)+")" {
						ob.Pass(key, c.P.Pos(st.Pos()), "token text minus its first and last character")
						continue
					}
				}
				if isTrimOnce(st.Val) {
					ob.Pass(key, c.P.Pos(st.Pos()), "token text with one quote removed at each end")
					continue
				}
				ob.Fail(key, c.P.Pos(st.Pos()), "the value of a string literal is not 'token text minus exactly one delimiter at each end' (a cutset trim or an unquoting changes strings that contain escaped quotes or backslashes)")
			}
		}
	}
	if n == 0 {
		ob.Unknown("string-body:none", "-", "no construction of a StringLiteral found")
	}
}

// isTrimOnce: strings.TrimPrefix(strings.TrimSuffix(s, `"`), `"`) in either nesting order.
func isTrimOnce(v ssa.Value) bool {
	call, ok := v.(*ssa.Call)
	if !ok {
		return false
	}
	o := core.CalleeObj(&call.Call)
	if o == nil || o.Pkg() == nil || o.Pkg().Path() != "strings" || (o.Name() != "TrimPrefix" && o.Name() != "TrimSuffix") {
		return false
	}
	q, ok := core.ConstString(call.Call.Args[1])
	if !ok || q != "\"" {
		return false
	}
	inner, ok := call.Call.Args[0].(*ssa.Call)
	if !ok {
		return false
	}
	o2 := core.CalleeObj(&inner.Call)
	if o2 == nil || o2.Pkg() == nil || o2.Pkg().Path() != "strings" || o2.Name() == o.Name() || (o2.Name() != "TrimPrefix" && o2.Name() != "TrimSuffix") {
		return false
	}
	q2, ok := core.ConstString(inner.Call.Args[1])
	return ok && q2 == "\""
}

// SaveRestoreClosures (R9): a checker helper that overrides a field of the check state and
// returns a closure to undo it must restore, in that closure, the value the field had when
// the helper was entered (captured before the helper's own write).
func (c *Ctx) SaveRestoreClosures(ob *core.Obligation) {
	n := 0
	for _, fn := range c.P.ModuleFunctions() {
		if relOfFn(fn) != "internal/analysis" || fn.Parent() != nil {
			continue
		}
		// returns a func()
		if fn.Signature.Results().Len() != 1 {
			continue
		}
		if _, ok := fn.Signature.Results().At(0).Type().Underlying().(*types.Signature); !ok {
			continue
		}
		for _, an := range fn.AnonFuncs {
			for _, b := range an.Blocks {
				for _, in := range b.Instrs {
					st, ok := in.(*ssa.Store)
					if !ok {
						continue
					}
					f := core.FieldOf(st.Addr)
					if f == nil || ownerOfVar(f) != "CheckResult" {
						continue
					}
					n++
					c.Touch(fn)
					key := "save-restore:" + core.SSAName(fn) + ":" + f.Name()
					// the stored value must be (a load of) a captured variable that the parent
					// initialised with a load of the same field before writing it
					if c.restoresEntryValue(st.Val, an, fn, f) {
						ob.Pass(key, c.P.Pos(st.Pos()), "the undo closure puts back the value read on entry")
					} else {
						ob.Fail(key, c.P.Pos(st.Pos()), "the undo closure does not restore the value "+f.Name()+" had when the scope was entered: nested scopes leak their setting into the enclosing one")
					}
				}
			}
		}
	}
	n += c.snapshotPairsChecked(ob, "internal/analysis", "CheckResult")
	if n == 0 {
		ob.Pass("save-restore:none", "-", "no save/restore helper in the checker")
	}
}

// snapshotPair: the save/restore idiom without closures - an "enter" helper that returns a
// snapshot struct of fields of the state, and an "exit" helper that is handed the snapshot and
// stores its fields back.
type snapshotPair struct {
	Enter, Exit *ssa.Function
	// per restored state field: the store in Exit, and the snapshot field it is taken from
	Stores map[*types.Var]*ssa.Store
	From   map[*types.Var]*types.Var
}

func (c *Ctx) snapshotPairs(rel, stateType string) []snapshotPair {
	var out []snapshotPair
	var fns []*ssa.Function
	for _, fn := range c.P.ModuleFunctions() {
		if relOfFn(fn) == rel && fn.Parent() == nil && len(fn.Blocks) > 0 {
			fns = append(fns, fn)
		}
	}
	snapFieldOf := func(v ssa.Value, x *ssa.Function) (*ssa.Parameter, *types.Var) {
		switch y := v.(type) {
		case *ssa.Field:
			if p, ok := y.X.(*ssa.Parameter); ok && p.Parent() == x {
				return p, core.FieldOf(y)
			}
			if ld, ok := y.X.(*ssa.UnOp); ok {
				if al, ok := ld.X.(*ssa.Alloc); ok {
					if st := onlyStore(al); st != nil {
						if p, ok := st.Val.(*ssa.Parameter); ok {
							return p, core.FieldOf(y)
						}
					}
				}
			}
		case *ssa.UnOp:
			if fa, ok := y.X.(*ssa.FieldAddr); ok {
				if al, ok := fa.X.(*ssa.Alloc); ok {
					if st := onlyStore(al); st != nil {
						if p, ok := st.Val.(*ssa.Parameter); ok {
							return p, core.FieldOf(fa)
						}
					}
				}
				if p, ok := fa.X.(*ssa.Parameter); ok && p.Parent() == x {
					return p, core.FieldOf(fa) // snapshot handed over by pointer
				}
			}
		}
		return nil, nil
	}
	for _, x := range fns {
		if x.Signature.Results().Len() != 0 {
			continue
		}
		pair := snapshotPair{Exit: x, Stores: map[*types.Var]*ssa.Store{}, From: map[*types.Var]*types.Var{}}
		var snap *ssa.Parameter
		ok := true
		for _, b := range x.Blocks {
			for _, in := range b.Instrs {
				st, isSt := in.(*ssa.Store)
				if !isSt {
					continue
				}
				f := core.FieldOf(st.Addr)
				if f == nil || ownerOfVar(f) != stateType {
					continue
				}
				p, g := snapFieldOf(st.Val, x)
				if p == nil || g == nil || (snap != nil && snap != p) || pair.Stores[f] != nil {
					ok = false
					continue
				}
				snap = p
				pair.Stores[f] = st
				pair.From[f] = g
			}
		}
		if !ok || snap == nil {
			continue
		}
		st := snap.Type()
		if pt, isPtr := st.Underlying().(*types.Pointer); isPtr {
			st = pt.Elem()
		}
		if _, isStruct := st.Underlying().(*types.Struct); !isStruct {
			continue
		}
		for _, e := range fns {
			if e == x || e.Signature.Results().Len() != 1 {
				continue
			}
			rt := e.Signature.Results().At(0).Type()
			if pt, isPtr := rt.Underlying().(*types.Pointer); isPtr {
				rt = pt.Elem()
			}
			if !types.Identical(rt, st) {
				continue
			}
			pe := pair
			pe.Enter = e
			out = append(out, pe)
		}
	}
	return out
}

// snapshotTakenOnEntry: every return of the enter helper hands back a snapshot whose field g
// holds the value the state field f had before the helper wrote to it.
func snapshotTakenOnEntry(e *ssa.Function, f, g *types.Var) bool {
	rets := core.Returns(e)
	if len(rets) == 0 {
		return false
	}
	for _, ret := range rets {
		if len(ret.Results) != 1 {
			return false
		}
		var al *ssa.Alloc
		switch y := ret.Results[0].(type) {
		case *ssa.UnOp:
			al, _ = y.X.(*ssa.Alloc)
		case *ssa.Alloc:
			al = y
		}
		if al == nil || al.Referrers() == nil {
			return false
		}
		var fst *ssa.Store
		nst := 0
		for _, r := range *al.Referrers() {
			switch z := r.(type) {
			case *ssa.FieldAddr:
				if core.FieldOf(z) != g || z.Referrers() == nil {
					continue
				}
				for _, r2 := range *z.Referrers() {
					if s2, ok := r2.(*ssa.Store); ok && s2.Addr == ssa.Value(z) {
						fst = s2
						nst++
					}
				}
			case *ssa.Store:
				if z.Addr == ssa.Value(al) {
					return false // the whole snapshot is overwritten
				}
			}
		}
		if nst != 1 {
			return false
		}
		ld, ok := fst.Val.(*ssa.UnOp)
		if !ok || core.FieldOf(ld.X) != f || fieldStoredBefore(e, f, ld) {
			return false
		}
	}
	return true
}

// snapshotPairsChecked (R9, second form): the exit helper puts back, for every field it
// writes, the value the enter helper read before its own write; and every scope that is
// entered is left - on every path from a call of the enter helper to a return of its caller
// the exit helper is called with that snapshot.
func (c *Ctx) snapshotPairsChecked(ob *core.Obligation, rel, stateType string) int {
	n := 0
	for _, pr := range c.snapshotPairs(rel, stateType) {
		c.Touch(pr.Enter)
		c.Touch(pr.Exit)
		for f, st := range pr.Stores {
			n++
			key := "save-restore:" + core.SSAName(pr.Exit) + ":" + f.Name()
			if snapshotTakenOnEntry(pr.Enter, f, pr.From[f]) {
				ob.Pass(key, c.P.Pos(st.Pos()), "the exit helper puts back the value "+pr.Enter.Name()+" read on entry")
			} else {
				ob.Fail(key, c.P.Pos(st.Pos()), "the exit helper does not restore the value "+f.Name()+" had when the scope was entered: nested scopes leak their setting into the enclosing one")
			}
		}
		for _, g := range c.P.ModuleFunctions() {
			if relOfFn(g) != rel {
				continue
			}
			for _, ci := range core.Calls(g) {
				ec, ok := ci.(*ssa.Call)
				if !ok || ec.Call.StaticCallee() != pr.Enter {
					continue
				}
				n++
				c.Touch(g)
				key := "save-restore:" + core.SSAName(g) + ":left"
				exits := map[*ssa.BasicBlock]bool{}
				sameBlockAfter := false
				for _, c2 := range core.Calls(g) {
					if c2.Common().StaticCallee() != pr.Exit {
						continue
					}
					handed := false
					for _, a := range c2.Common().Args {
						if resolveLocal(a) == ssa.Value(ec) {
							handed = true
						}
					}
					if !handed {
						continue
					}
					if c2.Block() == ec.Block() {
						for _, in := range ec.Block().Instrs {
							if in == ssa.Instruction(ec) {
								sameBlockAfter = true
								break
							}
							if in == c2.(ssa.Instruction) {
								break
							}
						}
					} else {
						exits[c2.Block()] = true
					}
				}
				left := sameBlockAfter
				if !left && len(exits) > 0 {
					left = true
					for _, ret := range core.Returns(g) {
						if core.ReachableAvoiding(ec.Block(), ret.Block(), exits) {
							left = false
						}
					}
				}
				if left {
					ob.Pass(key, c.P.Pos(ec.Pos()), "the scope entered here is left on every path to a return")
				} else {
					ob.Fail(key, c.P.Pos(ec.Pos()), "a scope is entered with "+pr.Enter.Name()+" but not left with "+pr.Exit.Name()+" on every path: its setting leaks into what is checked afterwards")
				}
			}
		}
	}
	return n
}

func (c *Ctx) restoresEntryValue(v ssa.Value, closure, parent *ssa.Function, f *types.Var) bool {
	// v = load of free var (captured by reference) or the free var itself, or a field of a
	// captured snapshot struct
	var fv *ssa.FreeVar
	var snapField *types.Var
	switch x := v.(type) {
	case *ssa.UnOp:
		fv, _ = x.X.(*ssa.FreeVar)
		if fa, ok := x.X.(*ssa.FieldAddr); ok && fv == nil {
			if q, ok := fa.X.(*ssa.FreeVar); ok {
				fv, snapField = q, core.FieldOf(fa)
			}
		}
	case *ssa.FreeVar:
		fv = x
	case *ssa.Field:
		if ld, ok := x.X.(*ssa.UnOp); ok {
			if q, ok := ld.X.(*ssa.FreeVar); ok {
				fv, snapField = q, core.FieldOf(x)
			}
		}
	}
	if fv == nil {
		return false
	}
	idx := -1
	for i, q := range closure.FreeVars {
		if q == fv {
			idx = i
		}
	}
	if idx < 0 {
		return false
	}
	// find the MakeClosure in the parent and the binding
	for _, b := range parent.Blocks {
		for _, in := range b.Instrs {
			mc, ok := in.(*ssa.MakeClosure)
			if !ok || mc.Fn != closure || idx >= len(mc.Bindings) {
				continue
			}
			bind := mc.Bindings[idx]
			// bound variable: an alloc whose only store is a load of field f, executed before any store to f in the parent
			al, ok := bind.(*ssa.Alloc)
			if !ok {
				// captured by value: the binding itself is the load
				if ld, ok := bind.(*ssa.UnOp); ok && core.FieldOf(ld.X) == f {
					return !fieldStoredBefore(parent, f, ld)
				}
				return false
			}
			if snapField != nil {
				// the snapshot's field is written once, with a load of f taken before f is written
				var fst *ssa.Store
				nst := 0
				if al.Referrers() != nil {
					for _, r := range *al.Referrers() {
						fa, ok := r.(*ssa.FieldAddr)
						if !ok || core.FieldOf(fa) != snapField || fa.Referrers() == nil {
							continue
						}
						for _, r2 := range *fa.Referrers() {
							if s2, ok := r2.(*ssa.Store); ok && s2.Addr == ssa.Value(fa) {
								fst = s2
								nst++
							}
						}
					}
				}
				if nst != 1 {
					return false
				}
				ld, ok := fst.Val.(*ssa.UnOp)
				if !ok || core.FieldOf(ld.X) != f {
					return false
				}
				return !fieldStoredBefore(parent, f, ld)
			}
			st := onlyStore(al)
			if st == nil {
				return false
			}
			ld, ok := st.Val.(*ssa.UnOp)
			if !ok || core.FieldOf(ld.X) != f {
				return false
			}
			return !fieldStoredBefore(parent, f, ld)
		}
	}
	return false
}

func fieldStoredBefore(fn *ssa.Function, f *types.Var, at ssa.Instruction) bool {
	for _, b := range fn.Blocks {
		for _, in := range b.Instrs {
			if st, ok := in.(*ssa.Store); ok && core.FieldOf(st.Addr) == f && instrCanPrecede(st, at) {
				return true
			}
		}
	}
	return false
}

// OriginBeforeDeclaration (R10): in the checker's loop over the declared variables, the call
// that checks a declaration's origin cannot run after the call that declares the variable in
// the same iteration (the interpreter evaluates the origin before binding the variable).
func (c *Ctx) OriginBeforeDeclaration(ob *core.Obligation) {
	declF := c.P.Field("internal/analysis", "CheckResult", "declaredVars")
	originF := c.P.Field("internal/parser", "VarDeclaration", "Origin")
	if declF == nil || originF == nil {
		ob.Unknown("anchor:declaredVars", "-", "symbol table / origin field not found")
		return
	}
	n := 0
	for _, fn := range c.P.ModuleFunctions() {
		if relOfFn(fn) != "internal/analysis" {
			continue
		}
		var declCalls, originCalls []*ssa.Call
		for _, ci := range core.Calls(fn) {
			call, ok := ci.(*ssa.Call)
			if !ok {
				continue
			}
			sc := call.Call.StaticCallee()
			if sc == nil || !c.P.InModule(sc) {
				continue
			}
			if c.updatesMapField(sc, declF, 0, map[*ssa.Function]bool{}) {
				declCalls = append(declCalls, call)
			}
			for _, a := range call.Call.Args {
				if fieldInPath(a, originF) {
					originCalls = append(originCalls, call)
				}
			}
		}
		if len(declCalls) == 0 || len(originCalls) == 0 {
			continue
		}
		n++
		c.Touch(fn)
		key := "origin-order:" + core.SSAName(fn)
		// loop headers: a path that goes round the loop is a different iteration
		heads := map[*ssa.BasicBlock]bool{}
		for _, b := range fn.Blocks {
			if iff, ok := b.Instrs[len(b.Instrs)-1].(*ssa.If); ok && isRangeCond(iff.Cond) {
				heads[b] = true
			}
		}
		bad := false
		// innermost loop (range header) whose body contains the block
		loopOf := func(b *ssa.BasicBlock) *ssa.BasicBlock {
			var best *ssa.BasicBlock
			for h := range heads {
				body := h.Succs[0]
				if body.Dominates(b) && core.ReachableAvoiding(b, h, nil) {
					if best == nil || best.Dominates(h) {
						best = h
					}
				}
			}
			return best
		}
		for _, d := range declCalls {
			for _, o := range originCalls {
				// both in the body of the same loop over the declarations (or both outside any loop:
				// a helper that handles one declaration) ...
				if lh := loopOf(d.Block()); lh != loopOf(o.Block()) {
					bad = true
					continue
				}
				// ... and, within an iteration, the origin check comes first
				if d.Block() == o.Block() {
					for _, in := range d.Block().Instrs {
						if in == d {
							bad = true
							break
						}
						if in == o {
							break
						}
					}
				} else if core.ReachableAvoiding(d.Block(), o.Block(), heads) {
					bad = true
				}
			}
		}
		if bad {
			ob.Fail(key, c.P.Pos(fn.Pos()), "variables are declared before the origin calls that precede them are checked (declaration hoisted out of the per-declaration loop, or placed before the origin check): an origin may then use a variable the interpreter has not bound yet, and the check stays clean")
		} else {
			ob.Pass(key, c.P.Pos(fn.Pos()), "within an iteration the origin is checked before the variable is declared")
		}
	}
	if n == 0 {
		ob.Unknown("origin-order:none", "-", "no function both declaring variables and checking origins found")
	}
}

func (c *Ctx) updatesMapField(fn *ssa.Function, f *types.Var, depth int, seen map[*ssa.Function]bool) bool {
	if depth > 4 || seen[fn] || fn.Blocks == nil {
		return false
	}
	seen[fn] = true
	for _, b := range fn.Blocks {
		for _, in := range b.Instrs {
			switch x := in.(type) {
			case *ssa.MapUpdate:
				if ld, ok := x.Map.(*ssa.UnOp); ok && core.FieldOf(ld.X) == f {
					return true
				}
			case *ssa.Call:
				if sc := x.Call.StaticCallee(); sc != nil && c.P.InModule(sc) && c.updatesMapField(sc, f, depth+1, seen) {
					return true
				}
			}
		}
	}
	return false
}

func fieldInPath(v ssa.Value, f *types.Var) bool {
	for i := 0; i < 8; i++ {
		switch x := v.(type) {
		case *ssa.UnOp:
			if core.FieldOf(x.X) == f {
				return true
			}
			v = x.X
		case *ssa.FieldAddr:
			if core.FieldOf(x) == f {
				return true
			}
			v = x.X
		case *ssa.Field:
			if core.FieldOf(x) == f {
				return true
			}
			v = x.X
		default:
			return false
		}
	}
	return false
}

// OverdraftDiagnosticUnconditional (R11): the interpreter rejects an unbounded overdraft in
// send-all whatever the address expression is; the checker's error for it may therefore depend
// only on the send-all flag and on Bounded == nil, not on the kind of the address.
func (c *Ctx) OverdraftDiagnosticUnconditional(ob *core.Obligation) {
	fn := c.checkerSwitchFn(ob, "Source")
	if fn == nil {
		return
	}
	src := c.P.Named("internal/parser", "Source")
	entry := clauseEntries(fn, src)["SourceOverdraft"]
	flagF := c.P.Field("internal/analysis", "CheckResult", "unboundedSend")
	if entry == nil || flagF == nil {
		ob.Unknown("sendall-uncond", "-", "overdraft arm / send-all flag not found")
		return
	}
	errKinds := c.errorKinds()
	n := 0
	type region struct {
		fn    *ssa.Function
		entry *ssa.BasicBlock
	}
	regions := []region{{fn, entry}}
	// a helper of the package the arm delegates to (not a traversal over the sources)
	for _, call := range callsIn(fn, entry, func(sc *ssa.Function) bool {
		return sc != fn && len(sc.Blocks) > 0 && relOfFn(sc) == relOfFn(fn) && len(clauseEntries(sc, src)) <= 1
	}) {
		takesNode := false
		for _, prm := range call.Call.StaticCallee().Params {
			if typeShort(derefT(prm.Type())) == "SourceOverdraft" {
				takesNode = true
			}
		}
		if takesNode {
			regions = append(regions, region{call.Call.StaticCallee(), nil})
			c.Touch(call.Call.StaticCallee())
		}
	}
	for _, rg := range regions {
		fn, entry := rg.fn, rg.entry
		pc := core.NewPathConds(fn)
		for _, b := range fn.Blocks {
			if entry != nil && !entry.Dominates(b) {
				continue
			}
			for _, in := range b.Instrs {
				al, ok := in.(*ssa.Alloc)
				if !ok || al.Comment != "complit" {
					continue
				}
				tn := typeShort(derefT(al.Type()))
				if !errKinds[tn] || tn == "TypeMismatch" || tn == "UnboundVariable" {
					continue
				}
				n++
				key := "sendall-uncond:" + tn
				extra := ""
				epc := core.NewPathConds(fn)
				_ = epc
				for _, term := range pc.At(b) {
					for _, l := range term {
						if f, is := nilFieldLiteral(l, "SourceOverdraft"); is && f == "Bounded" {
							continue
						}
						if ld, ok := l.Cond.(*ssa.UnOp); ok && ld.Op == token.MUL && core.FieldOf(ld.X) == flagF {
							continue
						}
						if cb := condBlock(l.Cond); entry != nil && (cb == nil || !entry.Dominates(cb)) {
							continue // a condition established before the arm (the type switch itself, earlier guards)
						}
						extra = core.ShortVal(l.Cond)
					}
				}
				if extra == "" {
					ob.Pass(key, c.P.Pos(al.Pos()), "reported for every unbounded overdraft source of a send-all, whatever its address expression")
				} else {
					ob.Fail(key, c.P.Pos(al.Pos()), "the send-all error for an unbounded overdraft is only reported under an extra condition ("+extra+"), but the interpreter rejects the shape unconditionally: e.g. an address given by a variable passes the check and fails at run time")
				}
			}
		}
	}
	if n == 0 {
		ob.Fail("sendall-uncond:none", c.P.Pos(firstPos(entry)), "no error diagnostic for an unbounded overdraft in send-all")
	}
}

func condBlock(v ssa.Value) *ssa.BasicBlock {
	if in, ok := v.(ssa.Instruction); ok {
		return in.Block()
	}
	return nil
}

// ClampTestsItself (R12): a number is reset to zero only because IT was found negative: every
// in-place Set(x, 0) that sits under a sign test of some number must sit under a sign test of
// x itself (an account gives nothing only when balance+grant is negative - not when the
// balance alone is).
func (c *Ctx) ClampTestsItself(ob *core.Obligation, rel string) {
	n := 0
	for _, fn := range c.P.ModuleFunctions() {
		if relOfFn(fn) != rel {
			continue
		}
		var pc *core.PathConds
		for _, b := range fn.Blocks {
			for _, in := range b.Instrs {
				call, ok := in.(*ssa.Call)
				if !ok {
					continue
				}
				tn, m := core.BigMethod(&call.Call)
				if tn != "Int" {
					continue
				}
				args := core.CallArgs(&call.Call)
				if !isZeroSet(m, args) {
					continue
				}
				if pc == nil {
					pc = core.NewPathConds(fn)
				}
				self := cellKey(args[0])
				onSelf, onOther := false, ""
				for _, term := range pc.At(b) {
					for _, l := range term {
						cmp, _, is := core.DecodeCond(l.Cond)
						if !is || !(cmp.B == nil || isZeroBig(cmp.B)) {
							continue
						}
						if cellKey(cmp.A) == self {
							onSelf = true
						} else {
							onOther = core.ShortVal(cmp.A)
						}
					}
				}
				if !onSelf && onOther == "" {
					continue // unconditional reset (e.g. save [A *]): not a clamp
				}
				n++
				c.Touch(fn)
				key := "clamp-self:" + core.SSAName(fn)
				if onSelf {
					ob.Pass(key, c.P.Pos(call.Pos()), "reset to zero under a sign test of the very number reset")
				} else {
					ob.Fail(key, c.P.Pos(call.Pos()), "a number is reset to zero because ANOTHER number ("+onOther+") was found negative: e.g. an overdrawn account with room left under its overdraft limit would give nothing (a spurious insufficient-funds failure)")
				}
			}
		}
	}
	if n == 0 {
		ob.Unknown("clamp-self:none", "-", "no clamp found")
	}
}
