package rules

import (
	"fmt"
	"go/ast"
	"go/constant"
	"go/token"
	"go/types"
	"regexp"
	"sort"
	"strings"

	"nsa/core"

	"golang.org/x/tools/go/ssa"
)

// NumTextIn checks every text->number conversion in the hand-written functions of the
// given packages (N1: explicit base ten; N2: no range-bounded or base-sniffing converter on
// script / variable / metadata text).
func (c *Ctx) NumTextIn(ob *core.Obligation, rels map[string]bool, exempt map[string]string) {
	for _, fn := range c.P.ModuleFunctions() {
		rel := relOfFn(fn)
		if !rels[rel] {
			continue
		}
		name := core.SSAName(fn)
		for _, ci := range core.Calls(fn) {
			call := ci.Common()
			obj := core.CalleeObj(call)
			if obj == nil || obj.Pkg() == nil {
				continue
			}
			pp, tn := core.RecvNamed(obj)
			args := core.CallArgs(call)
			key := "conv:" + name + ":" + shortCallee(obj)
			pos := c.P.Pos(ci.Pos())
			if why, ok := exempt[key]; ok {
				c.Touch(fn)
				ob.Pass(key, pos, "exempt: "+why)
				continue
			}
			switch {
			case pp == "math/big" && tn == "Int" && obj.Name() == "SetString":
				c.Touch(fn)
				if b, ok := core.ConstInt(args[2]); ok && b == 10 {
					ob.Pass(key, pos, "big.Int.SetString with constant base 10 (unbounded, no prefix sniffing)")
				} else {
					ob.Fail(key, pos, "big.Int.SetString base is "+core.ShortVal(args[2])+", not the constant 10: a leading 0/0x/0b would change the value")
				}
			case pp == "math/big" && (tn == "Rat" || tn == "Float") && (obj.Name() == "SetString" || obj.Name() == "Parse" || obj.Name() == "UnmarshalText" || obj.Name() == "Scan"):
				c.Touch(fn)
				if _, isConst := args[1].(*ssa.Const); isConst {
					ob.Pass(key, pos, "constant text")
				} else {
					ob.Fail(key, pos, "big."+tn+"."+obj.Name()+" auto-detects the base of its input (0x, 0b, 0o, and a leading 0 in fractions): not a base-ten reading of external text")
				}
			case pp == "math/big" && tn == "Int" && (obj.Name() == "UnmarshalText" || obj.Name() == "UnmarshalJSON" || obj.Name() == "Scan"):
				c.Touch(fn)
				ob.Fail(key, pos, "big.Int."+obj.Name()+" sniffs the base of its input")
			case obj.Pkg().Path() == "strconv" && pp == "" && (obj.Name() == "Atoi" || obj.Name() == "ParseInt" || obj.Name() == "ParseUint" || obj.Name() == "ParseFloat"):
				c.Touch(fn)
				why := "strconv." + obj.Name() + " has a bounded range: numerals of the (unbounded) lexer classes / variable text overflow it"
				if obj.Name() == "ParseInt" || obj.Name() == "ParseUint" {
					if b, ok := core.ConstInt(args[1]); !ok || b != 10 {
						why += "; and its base argument is " + core.ShortVal(args[1]) + ", not 10"
					}
				}
				ob.Fail(key, pos, why)
			case obj.Pkg().Path() == "fmt" && pp == "" && strings.HasPrefix(obj.Name(), "Sscan"):
				c.Touch(fn)
				ob.Fail(key, pos, "fmt."+obj.Name()+" on external text: base prefixes are honoured for integer verbs")
			case obj.Pkg().Path() == "math" && pp == "" && (obj.Name() == "Pow10" || obj.Name() == "Pow"):
				c.Touch(fn)
				ob.Fail(key, pos, "floating-point power used in a numeric conversion: inexact beyond 2^53 and overflows when cast to an integer")
			}
		}
	}
}

func relOfFn(fn *ssa.Function) string {
	for fn.Parent() != nil {
		fn = fn.Parent()
	}
	pk := fn.Pkg
	if pk == nil && fn.Origin() != nil {
		pk = fn.Origin().Pkg
	}
	if pk == nil {
		return "?"
	}
	rel, ok := core.Rel(pk.Pkg)
	if !ok {
		return "?"
	}
	return rel
}

func shortCallee(obj *types.Func) string {
	pp, tn := core.RecvNamed(obj)
	if tn != "" {
		if i := strings.LastIndex(pp, "/"); i >= 0 {
			pp = pp[i+1:]
		}
		return pp + "." + tn + "." + obj.Name()
	}
	p := obj.Pkg().Path()
	if i := strings.LastIndex(p, "/"); i >= 0 {
		p = p[i+1:]
	}
	return p + "." + obj.Name()
}

var verbRe = regexp.MustCompile(`%[-+# 0]*[0-9*]*(?:\.[0-9*]+)?([a-zA-Z%])`)

// NumRenderIn checks number->text rendering (N3) in the String/MarshalJSON methods of the
// Value types and in the functions named: base ten only.
func (c *Ctx) NumRenderIn(ob *core.Obligation, fns []*ssa.Function) {
	for _, fn := range fns {
		if fn == nil {
			continue
		}
		c.Touch(fn)
		name := core.SSAName(fn)
		n := 0
		for _, ci := range core.Calls(fn) {
			call := ci.Common()
			obj := core.CalleeObj(call)
			if obj == nil || obj.Pkg() == nil {
				continue
			}
			pp, tn := core.RecvNamed(obj)
			args := core.CallArgs(call)
			pos := c.P.Pos(ci.Pos())
			key := "render:" + name + ":" + shortCallee(obj)
			switch {
			case pp == "math/big" && (obj.Name() == "Text" || obj.Name() == "Append"):
				n++
				b := args[len(args)-1]
				if v, ok := core.ConstInt(b); ok && v == 10 {
					ob.Pass(key, pos, "base 10")
				} else {
					ob.Fail(key, pos, "big."+tn+"."+obj.Name()+" with base "+core.ShortVal(b)+": metadata text would not read back as the same number")
				}
			case pp == "math/big" && (obj.Name() == "FloatString" || obj.Name() == "RatString" || obj.Name() == "Float64"):
				n++
				ob.Fail(key, pos, "big."+tn+"."+obj.Name()+" renders a rounded/alternative form, not the exact n/d text that the portion reader accepts")
			case pp == "math/big" && obj.Name() == "String":
				n++
				ob.Pass(key, pos, "big."+tn+".String is base 10")
			case obj.Pkg().Path() == "strconv" && strings.HasPrefix(obj.Name(), "Format"):
				n++
				if obj.Name() == "FormatInt" || obj.Name() == "FormatUint" {
					if v, ok := core.ConstInt(args[1]); ok && v == 10 {
						ob.Pass(key, pos, "base 10")
						continue
					}
				}
				ob.Fail(key, pos, "strconv."+obj.Name()+" not provably base 10 / exact")
			case obj.Pkg().Path() == "fmt" && pp == "" && (strings.HasPrefix(obj.Name(), "Sprint") || strings.HasPrefix(obj.Name(), "Append") || strings.HasPrefix(obj.Name(), "Fprint")):
				n++
				if !strings.HasSuffix(obj.Name(), "f") {
					ob.Pass(key, pos, "default formatting (String methods, base 10)")
					continue
				}
				fidx := 0
				if strings.HasPrefix(obj.Name(), "Fprint") || strings.HasPrefix(obj.Name(), "Append") {
					fidx = 1
				}
				f, ok := core.ConstString(args[fidx])
				if !ok {
					ob.Fail(key, pos, "non-constant format string")
					continue
				}
				bad := ""
				for _, m := range verbRe.FindAllStringSubmatch(f, -1) {
					switch m[1] {
					case "s", "v", "d", "%", "q":
					default:
						bad += "%" + m[1] + " "
					}
				}
				if bad != "" {
					ob.Fail(key, pos, fmt.Sprintf("format %q uses verb(s) %s: not a base-ten exact rendering", f, bad))
				} else {
					ob.Pass(key, pos, fmt.Sprintf("format %q uses only %%s/%%v/%%d", f))
				}
			}
		}
		if n == 0 {
			ob.Pass("render:"+name, c.P.Pos(fn.Pos()), "no numeric formatting call (plain string conversion)")
		}
	}
}

// TypeTables extracts and compares the four type tables (N4): AllowedTypes, the case labels
// of parseVar with the Value type each arm yields, the expect* functions (accepted Value
// type and the type name they report), and the implementers of interpreter.Value.
func (c *Ctx) TypeTables(ob *core.Obligation) {
	an := c.P.Pkg("internal/analysis")
	in := c.P.Pkg("internal/interpreter")
	if an == nil || in == nil {
		ob.Unknown("anchor:packages", "-", "analysis/interpreter package missing")
		return
	}
	// 1. AllowedTypes
	allowed := map[string]bool{}
	var allowedPos string
	if v, ok := an.Types.Scope().Lookup("AllowedTypes").(*types.Var); ok {
		for _, f := range an.Syntax {
			ast.Inspect(f, func(n ast.Node) bool {
				vs, ok := n.(*ast.ValueSpec)
				if !ok {
					return true
				}
				for i, nm := range vs.Names {
					if an.TypesInfo.Defs[nm] == v && i < len(vs.Values) {
						if cl, ok := vs.Values[i].(*ast.CompositeLit); ok {
							allowedPos = c.P.Pos(cl.Pos())
							for _, e := range cl.Elts {
								if tv := an.TypesInfo.Types[e]; tv.Value != nil && tv.Value.Kind() == constant.String {
									allowed[constant.StringVal(tv.Value)] = true
								}
							}
						}
					}
				}
				return true
			})
		}
	}
	if len(allowed) == 0 {
		ob.Unknown("anchor:analysis.AllowedTypes", "-", "could not read the AllowedTypes table")
		return
	}
	// 2. Value implementers
	valueT := c.P.Named("internal/interpreter", "Value")
	sum := c.M.SumOf(valueT)
	if sum == nil {
		ob.Unknown("anchor:interpreter.Value", "-", "Value is not a sealed sum")
		return
	}
	impls := map[string]bool{}
	for _, t := range sum.Impls {
		impls[t.Obj().Name()] = true
	}
	// 3. the reader of variable text: declared type name -> Value type yielded (a switch / if
	// chain on the type-name parameter, or a table of reader functions keyed by type name)
	parseVar := c.variableReaders(impls)
	if len(parseVar) == 0 {
		ob.Unknown("anchor:interpreter.parseVar", "-", "no function or table that reads a variable's text by declared type found")
		return
	}
	// 4. expect*: functions func(Value, Range) (*T, InterpreterError) with a type switch on Value
	expects := c.leafExpectations() // reported type name -> accepted Value type
	// compare
	names := make([]string, 0, len(allowed))
	for k := range allowed {
		names = append(names, k)
	}
	sort.Strings(names)
	usedImpl := map[string]string{}
	for _, tname := range names {
		key := "type:" + tname
		pvT, ok1 := parseVar[tname]
		exT, ok2 := expects[tname]
		switch {
		case !ok1:
			ob.Fail(key, allowedPos, "declared type '"+tname+"' is allowed by the checker but parseVar has no arm for it: a variable of that type cannot be read")
		case pvT == "" || pvT == "<several>":
			ob.Fail(key, allowedPos, "parseVar arm for '"+tname+"' does not yield one Value type")
		case !ok2:
			ob.Fail(key, allowedPos, "no expect* function reports type '"+tname+"': values of that type cannot be demanded")
		case pvT != exT:
			ob.Fail(key, allowedPos, fmt.Sprintf("a variable declared '%s' is read as %s but the expectation for '%s' accepts %s: type tables disagree", tname, pvT, tname, exT))
		default:
			if prev, dup := usedImpl[pvT]; dup {
				ob.Fail(key, allowedPos, "types '"+prev+"' and '"+tname+"' are both represented by "+pvT)
			} else {
				usedImpl[pvT] = tname
				ob.Pass(key, allowedPos, "checker type '"+tname+"' <-> parseVar arm <-> expect* <-> Value type "+pvT)
			}
		}
	}
	for k := range parseVar {
		if !allowed[k] {
			ob.Fail("type:"+k, allowedPos, "parseVar accepts the type name '"+k+"' which the checker does not allow")
		}
	}
	for im := range impls {
		if _, ok := usedImpl[im]; !ok {
			ob.Fail("valuetype:"+im, allowedPos, "Value type "+im+" has no declared type name reaching it through parseVar/expect*")
		}
	}
}

// MarshalMirrorsString: for each Value type that defines MarshalJSON, the set of its own
// fields read and the set of String methods invoked must equal those of its String().
func (c *Ctx) MarshalMirrorsString(ob *core.Obligation) {
	valueT := c.P.Named("internal/interpreter", "Value")
	sum := c.M.SumOf(valueT)
	if sum == nil {
		ob.Unknown("anchor:interpreter.Value", "-", "Value is not a sealed sum")
		return
	}
	in := c.P.Pkg("internal/interpreter")
	for _, t := range sum.Impls {
		var mj, str *types.Func
		for i := 0; i < t.NumMethods(); i++ {
			switch t.Method(i).Name() {
			case "MarshalJSON":
				mj = t.Method(i)
			case "String":
				str = t.Method(i)
			}
		}
		if mj == nil || str == nil {
			continue
		}
		key := "marshal:" + t.Obj().Name()
		a := c.renderSig(in.TypesInfo, mj, t)
		b := c.renderSig(in.TypesInfo, str, t)
		c.R.Functions[core.FuncName(mj)] = true
		c.R.Functions[core.FuncName(str)] = true
		if a == b {
			ob.Pass(key, c.P.Pos(mj.Pos()), "MarshalJSON and String read the same components: "+a)
		} else {
			ob.Fail(key, c.P.Pos(mj.Pos()), "MarshalJSON reads {"+a+"} but String reads {"+b+"}: transaction metadata and account metadata would carry different text")
		}
	}
}

// renderSig: sorted list of own fields selected + big-number kinds rendered.
func (c *Ctx) renderSig(info *types.Info, m *types.Func, t *types.Named) string {
	fd := c.P.Decl(m)
	if fd == nil {
		return "?"
	}
	set := map[string]bool{}
	st, _ := t.Underlying().(*types.Struct)
	ast.Inspect(fd.Body, func(n ast.Node) bool {
		se, ok := n.(*ast.SelectorExpr)
		if !ok {
			return true
		}
		// rendering delegated to another method of the same type (MarshalJSON quoting String())
		if sel := info.Selections[se]; sel != nil && sel.Kind() == types.MethodVal {
			if f, ok := sel.Obj().(*types.Func); ok && f != m && f.Name() == "String" {
				if rn, ok := types.Unalias(derefT(sel.Recv())).(*types.Named); ok && rn.Obj() == t.Obj() {
					for _, k := range strings.Split(c.renderSig(info, f, t), ", ") {
						if k != "" {
							set[k] = true
						}
					}
				}
			}
		}
		if sel := info.Selections[se]; sel != nil && sel.Kind() == types.FieldVal && st != nil {
			for i := 0; i < st.NumFields(); i++ {
				if st.Field(i) == sel.Obj() {
					set["field "+st.Field(i).Name()] = true
				}
			}
		}
		return true
	})
	if st == nil {
		// non-struct: the receiver itself converted to its underlying big type / string
		set["self"] = true
	}
	var out []string
	for k := range set {
		out = append(out, k)
	}
	sort.Strings(out)
	return strings.Join(out, ", ")
}

// PercentScale: every big.Int.Exp in the given packages is 10^(2+len(s)) with nil modulus.
func (c *Ctx) PercentScale(ob *core.Obligation, rels map[string]bool) {
	for _, fn := range c.P.ModuleFunctions() {
		if !rels[relOfFn(fn)] {
			continue
		}
		for _, ci := range core.Calls(fn) {
			tn, m := core.BigMethod(ci.Common())
			if tn != "Int" || m != "Exp" {
				continue
			}
			c.Touch(fn)
			args := core.CallArgs(ci.Common())
			key := "scale:" + core.SSAName(fn)
			pos := c.P.Pos(ci.Pos())
			base, okb := newIntConst(args[1])
			expOK := false
			if call, ok := args[2].(*ssa.Call); ok && core.IsFunc(core.CalleeObj(&call.Call), "math/big", "NewInt") {
				v := core.Strip(call.Call.Args[0])
				if bo, ok := v.(*ssa.BinOp); ok && bo.Op.String() == "+" {
					x, y := core.Strip(bo.X), core.Strip(bo.Y)
					if k, ok := core.ConstInt(x); ok && k == 2 && isLenOfString(y) {
						expOK = true
					}
					if k, ok := core.ConstInt(y); ok && k == 2 && isLenOfString(x) {
						expOK = true
					}
				}
			}
			modNil := core.IsNilConst(args[3])
			switch {
			case !okb || base != 10:
				ob.Fail(key, pos, "power base is not the constant 10")
			case !expOK:
				ob.Fail(key, pos, "exponent is not 2 + (number of fraction digits): a percentage p.q% is p.q/100")
			case !modNil:
				ob.Fail(key, pos, "modulus is not nil")
			default:
				ob.Pass(key, pos, "10^(2+len(fraction)) in big-integer arithmetic")
			}
		}
	}
}

func newIntConst(v ssa.Value) (int64, bool) {
	if call, ok := v.(*ssa.Call); ok && core.IsFunc(core.CalleeObj(&call.Call), "math/big", "NewInt") {
		return core.ConstInt(core.Strip(call.Call.Args[0]))
	}
	return 0, false
}

// isLenOfString: len(s) possibly merged through a phi with the constant 0.
func isLenOfString(v ssa.Value) bool {
	switch x := v.(type) {
	case *ssa.Call:
		if b, ok := x.Call.Value.(*ssa.Builtin); ok && b.Name() == "len" {
			if bt, ok := x.Call.Args[0].Type().Underlying().(*types.Basic); ok && bt.Info()&types.IsString != 0 {
				return true
			}
		}
	case *ssa.Phi:
		okAll := true
		some := false
		for _, e := range x.Edges {
			if k, ok := core.ConstInt(e); ok && k == 0 {
				continue
			}
			if isLenOfString(core.Strip(e)) {
				some = true
				continue
			}
			okAll = false
		}
		return okAll && some
	}
	return false
}

// variableReaders extracts "declared type name -> Value type yielded" from the interpreter:
// (a) a function with a type-name string parameter compared with constants, each arm returning
// values of one Value type; (b) a package-level map from type-name constants to reader functions.
func (c *Ctx) variableReaders(impls map[string]bool) map[string]string {
	out := map[string]string{}
	valueT := c.P.Named("internal/interpreter", "Value")
	isValue := func(t types.Type) bool { return valueT != nil && types.Identical(types.Unalias(t), valueT) }
	var yielded func(v ssa.Value, depth int, into map[string]bool)
	var fnYields func(fn *ssa.Function, depth int, into map[string]bool)
	fnYields = func(fn *ssa.Function, depth int, into map[string]bool) {
		if fn == nil || depth > 3 || len(fn.Blocks) == 0 {
			return
		}
		for _, ret := range core.Returns(fn) {
			if len(ret.Results) > 0 {
				yielded(ret.Results[0], depth, into)
			}
		}
	}
	yielded = func(v ssa.Value, depth int, into map[string]bool) {
		switch x := v.(type) {
		case *ssa.Const:
			return // nil
		case *ssa.MakeInterface:
			if nt, ok := types.Unalias(x.X.Type()).(*types.Named); ok && impls[nt.Obj().Name()] {
				into[nt.Obj().Name()] = true
			} else if p, ok := types.Unalias(x.X.Type()).(*types.Pointer); ok {
				if nt, ok := types.Unalias(p.Elem()).(*types.Named); ok && impls[nt.Obj().Name()] {
					into[nt.Obj().Name()] = true
				}
			}
		case *ssa.Extract:
			if call, ok := x.Tuple.(*ssa.Call); ok && x.Index == 0 {
				yielded(call, depth, into)
			}
		case *ssa.Call:
			if sc := x.Call.StaticCallee(); sc != nil && c.P.InModule(sc) {
				r0 := sc.Signature.Results().At(0).Type()
				if nt, ok := types.Unalias(r0).(*types.Named); ok && impls[nt.Obj().Name()] {
					into[nt.Obj().Name()] = true
				} else {
					fnYields(sc, depth+1, into)
				}
			}
		case *ssa.Phi:
			for _, e := range x.Edges {
				yielded(e, depth, into)
			}
		case *ssa.ChangeInterface:
			yielded(x.X, depth, into)
		}
	}
	one := func(m map[string]bool) string {
		switch len(m) {
		case 0:
			return ""
		case 1:
			for k := range m {
				return k
			}
		}
		return "<several>"
	}
	for _, fn := range c.P.ModuleFunctions() {
		if relOfFn(fn) != "internal/interpreter" {
			continue
		}
		// (b) a table filled in a package initialiser
		if fn.Name() == "init" || strings.HasPrefix(fn.Name(), "init#") {
			for _, b := range fn.Blocks {
				for _, in := range b.Instrs {
					mu, ok := in.(*ssa.MapUpdate)
					if !ok {
						continue
					}
					label, ok := core.ConstString(mu.Key)
					if !ok {
						continue
					}
					var rf *ssa.Function
					switch y := mu.Value.(type) {
					case *ssa.Function:
						rf = y
					case *ssa.MakeClosure:
						rf, _ = y.Fn.(*ssa.Function)
					case *ssa.ChangeType:
						rf, _ = y.X.(*ssa.Function)
					}
					if rf == nil || rf.Signature.Results().Len() != 2 || !isValue(rf.Signature.Results().At(0).Type()) {
						continue
					}
					into := map[string]bool{}
					fnYields(rf, 0, into)
					out[label] = one(into)
					c.Touch(rf)
				}
			}
			continue
		}
		// (a) comparisons of a string parameter with constants
		if fn.Signature.Results().Len() != 2 || !isValue(fn.Signature.Results().At(0).Type()) {
			continue
		}
		for _, b := range fn.Blocks {
			iff, ok := b.Instrs[len(b.Instrs)-1].(*ssa.If)
			if !ok {
				continue
			}
			bo, ok := iff.Cond.(*ssa.BinOp)
			if !ok || bo.Op != token.EQL {
				continue
			}
			if _, isP := bo.X.(*ssa.Parameter); !isP {
				continue
			}
			label, ok := core.ConstString(bo.Y)
			if !ok {
				continue
			}
			arm := b.Succs[0]
			into := map[string]bool{}
			for _, ret := range core.Returns(fn) {
				if arm.Dominates(ret.Block()) && len(ret.Results) > 0 {
					yielded(ret.Results[0], 0, into)
				}
			}
			out[label] = one(into)
			c.Touch(fn)
		}
	}
	return out
}
