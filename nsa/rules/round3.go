package rules

import (
	"fmt"
	"go/token"
	"go/types"
	"strings"

	"golang.org/x/tools/go/ssa"

	"nsa/core"
)

// Rules added after the third round of seeded changes.

// ---------- cache cells are written by their owners only ----------

// returnsFresh: every value the function returns is a number created in it (new(big.Int), the
// result of an operation on such a number, or the result of another fresh function).
func (c *Ctx) returnsFresh(fn *ssa.Function, depth int) bool {
	if fn == nil || len(fn.Blocks) == 0 || depth > 3 {
		return false
	}
	for _, ret := range core.Returns(fn) {
		if len(ret.Results) == 0 {
			return false
		}
		if !c.freshNumber(ret.Results[0], fn, depth, map[ssa.Value]bool{}) {
			return false
		}
	}
	return true
}

func (c *Ctx) freshNumber(v ssa.Value, fn *ssa.Function, depth int, seen map[ssa.Value]bool) bool {
	v = core.Strip(v)
	if seen[v] {
		return true
	}
	seen[v] = true
	switch x := v.(type) {
	case *ssa.Alloc:
		return x.Heap && copiedFrom(x) == nil
	case *ssa.Phi:
		for _, e := range x.Edges {
			if !c.freshNumber(e, fn, depth, seen) {
				return false
			}
		}
		return true
	case *ssa.Call:
		if tn, m := core.BigMethod(&x.Call); tn != "" && !bigReadersOnly[m] {
			return c.freshNumber(core.CallArgs(&x.Call)[0], fn, depth, seen)
		}
		if core.IsFunc(core.CalleeObj(&x.Call), "math/big", "NewInt") {
			return true
		}
		if sc := x.Call.StaticCallee(); sc != nil && c.P.InModule(sc) && sc != fn {
			return c.returnsFresh(sc, depth+1)
		}
	case *ssa.Const:
		return x.IsNil()
	}
	return false
}

// CacheCellsWrittenByOwners: a number obtained from a balance reader that may hand out the
// cached number itself (not a fresh copy) is rewritten in place only where postings are applied
// to the cache and in the save runner. Anywhere else an in-place operation on it changes the
// balance every later draw and statement sees.
func (c *Ctx) CacheCellsWrittenByOwners(ob *core.Obligation, r *Roles) {
	if r == nil {
		return
	}
	owners := map[*ssa.Function]bool{}
	if sr := c.saveRunner(); sr != nil {
		owners[sr] = true
	}
	for _, fn := range c.P.ModuleFunctions() {
		if relOfFn(fn) != "internal/interpreter" {
			continue
		}
		// the function that reconciles and applies, and a helper it hands postings to
		for _, ci := range core.Calls(fn) {
			if sc := ci.Common().StaticCallee(); sc != nil && sc != fn && c.IsReconciler(sc, r) {
				owners[fn] = true
				for _, c2 := range core.Calls(fn) {
					if h := c2.Common().StaticCallee(); h != nil && relOfFn(h) == relOfFn(fn) {
						for _, prm := range h.Params {
							t := prm.Type()
							if typeShort(derefT(t)) == "Posting" || elemTypeName(t) == "Posting" {
								owners[h] = true
							}
						}
					}
				}
			}
		}
	}
	// ... and the helpers those hand a posting (or the postings) on to
	for changed := true; changed; {
		changed = false
		for f := range owners {
			for _, c2 := range core.Calls(f) {
				h := c2.Common().StaticCallee()
				if h == nil || owners[h] || relOfFn(h) != relOfFn(f) {
					continue
				}
				for _, prm := range h.Params {
					t := prm.Type()
					if typeShort(derefT(t)) == "Posting" || elemTypeName(t) == "Posting" {
						owners[h] = true
						changed = true
					}
				}
				// or it is handed the fields of a posting one by one
				for _, a := range c2.Common().Args {
					if f := postingFieldOf(a); f != nil && (f == r.PostSrc || f == r.PostDst || f == r.PostAmt) && !owners[h] {
						owners[h] = true
						changed = true
					}
				}
			}
		}
	}
	n := 0
	for _, fn := range c.P.ModuleFunctions() {
		if relOfFn(fn) != "internal/interpreter" || owners[fn] {
			continue
		}
		for _, ci := range core.Calls(fn) {
			tn, m := core.BigMethod(ci.Common())
			if tn != "Int" || bigReadersOnly[m] {
				continue
			}
			recv := core.CallArgs(ci.Common())[0]
			call, ok := resolveLocal(recv).(*ssa.Call)
			if !ok {
				continue
			}
			sc := call.Call.StaticCallee()
			if sc == nil || !r.IsBalanceReader(sc) || !plainReader(sc) {
				continue
			}
			n++
			c.Touch(fn)
			key := "cache-owner:" + core.SSAName(fn) + ":" + m
			if c.returnsFresh(sc, 0) {
				ob.Pass(key, c.P.Pos(ci.Pos()), "the reader hands out a fresh copy: rewriting it does not touch the cache")
			} else {
				ob.Fail(key, c.P.Pos(ci.Pos()), fmt.Sprintf("big.Int.%s rewrites in place a number obtained from %s, which can hand out the cached balance itself: the cache is changed outside the code that applies postings or saves, so later draws and statements see a wrong balance", m, sc.Name()))
			}
		}
	}
	ob.Pass("cache-owner:scanned", "-", fmt.Sprintf("%d in-place operation(s) on reader results outside the cache owners, all on fresh copies", n))
}

// ---------- a clamp applies to balance + grant ----------

// ClampIncludesGrant: in a function that bounds a draw (it reads a balance and has a *big.Int
// grant among its parameters), a number is reset to zero only if it already contains the grant:
// it was written by an Add one operand of which is that parameter. Resetting the balance alone
// and adding the grant afterwards lets an account already in the red use its whole grant again.
func (c *Ctx) ClampIncludesGrant(ob *core.Obligation, r *Roles) {
	if r == nil {
		return
	}
	n := 0
	save := c.saveRunner()
	for _, fn := range c.P.ModuleFunctions() {
		if relOfFn(fn) != "internal/interpreter" || fn == save || r.IsBalanceReader(fn) {
			continue
		}
		var grants []*ssa.Parameter
		for _, p := range fn.Params {
			if isBigPtrStd(p.Type()) {
				grants = append(grants, p)
			}
		}
		readsBalance := false
		for _, ci := range core.Calls(fn) {
			if sc := ci.Common().StaticCallee(); sc != nil && r.IsBalanceReader(sc) && plainReader(sc) {
				readsBalance = true
			}
		}
		if len(grants) == 0 || !readsBalance {
			continue
		}
		for _, ci := range core.Calls(fn) {
			tn, m := core.BigMethod(ci.Common())
			if tn != "Int" {
				continue
			}
			args := core.CallArgs(ci.Common())
			isReset := false
			switch m {
			case "Set":
				isReset = cellKey(args[1]) == "const:0/1"
			case "SetInt64", "SetUint64":
				k, ok := core.ConstInt(core.Strip(args[1]))
				isReset = ok && k == 0
			}
			if !isReset {
				continue
			}
			n++
			c.Touch(fn)
			cell := cellKey(args[0])
			key := "clamp-grant:" + core.SSAName(fn)
			has := false
			for _, c2 := range core.Calls(fn) {
				if t2, m2 := core.BigMethod(c2.Common()); t2 == "Int" && m2 == "Add" {
					a2 := core.CallArgs(c2.Common())
					if cellKey(a2[0]) != cell || !c2.Block().Dominates(ci.Block()) {
						continue
					}
					for _, g := range grants {
						if core.Strip(a2[1]) == ssa.Value(g) || core.Strip(a2[2]) == ssa.Value(g) || isNilMergedParam(a2[1], g) || isNilMergedParam(a2[2], g) {
							has = true
						}
					}
				}
			}
			if has {
				ob.Pass(key, c.P.Pos(ci.Pos()), "the number reset to zero is balance + grant")
			} else {
				ob.Fail(key, c.P.Pos(ci.Pos()), "a number is reset to zero before the overdraft grant has been added to it: an account already below zero is treated as empty and then given its whole grant again")
			}
		}
	}
	if n == 0 {
		ob.Pass("clamp-grant:none", "-", "no reset to zero in the functions that bound a draw by balance + grant")
	}
}

func isNilMergedParam(v ssa.Value, p *ssa.Parameter) bool {
	ph, ok := core.Strip(v).(*ssa.Phi)
	if !ok {
		return false
	}
	found := false
	for _, e := range ph.Edges {
		if e == ssa.Value(p) {
			found = true
		} else if !core.IsNilConst(e) {
			return false
		}
	}
	return found
}

// ---------- @world is recognised by the evaluated name ----------

// WorldRecognisedByName: where a draw helper turns its grant into "unbounded" (nil) for the
// world account, the test is on the evaluated account name - the very string that is queued as
// the sender - not on the syntax of the expression: a variable holding "world" is world.
func (c *Ctx) WorldRecognisedByName(ob *core.Obligation, r *Roles) {
	if r == nil || r.PushSender == nil {
		return
	}
	n := 0
	for _, fn := range c.P.ModuleFunctions() {
		if relOfFn(fn) != "internal/interpreter" || fn == r.PushSender.Fn {
			continue
		}
		var push *ssa.Call
		for _, ci := range core.Calls(fn) {
			if call, ok := ci.(*ssa.Call); ok && call.Call.StaticCallee() == r.PushSender.Fn {
				push = call
			}
		}
		if push == nil {
			continue
		}
		name := push.Call.Args[r.PushSender.NameIdx]
		pc := core.NewPathConds(fn)
		for _, b := range fn.Blocks {
			for _, in := range b.Instrs {
				ph, ok := in.(*ssa.Phi)
				if !ok || !isBigPtrStd(ph.Type()) {
					continue
				}
				var prm *ssa.Parameter
				for _, e := range ph.Edges {
					if p, ok := e.(*ssa.Parameter); ok && p.Parent() == fn {
						prm = p
					}
				}
				if prm == nil {
					continue
				}
				for i, e := range ph.Edges {
					if !core.IsNilConst(e) {
						continue
					}
					n++
					c.Touch(fn)
					key := "world-by-name:" + core.SSAName(fn)
					pred := ph.Block().Preds[i]
					okEdge := pc.EdgeRequires(pred, ph.Block(), func(l core.Lit) bool {
						bo, ok := l.Cond.(*ssa.BinOp)
						if !ok || (bo.Op != token.EQL && bo.Op != token.NEQ) || (bo.Op == token.EQL) != l.Val {
							return false
						}
						x, k := bo.X, bo.Y
						if _, isK := x.(*ssa.Const); isK {
							x, k = k, x
						}
						if s, ok := core.ConstString(k); !ok || s != "world" {
							return false
						}
						return core.Canon(core.Strip(x)) == core.Canon(core.Strip(name))
					})
					if okEdge {
						ob.Pass(key, c.P.Pos(ph.Pos()), "the grant becomes unbounded where the evaluated account name equals \"world\"")
					} else {
						ob.Fail(key, c.P.Pos(ph.Pos()), "the grant is made unbounded under a test that is not 'evaluated account name == \"world\"' (the name that is queued as the sender): an account variable holding world is not recognised, or something else is")
					}
				}
			}
		}
	}
	if n == 0 {
		ob.Pass("world-by-name:none", "-", "no draw helper turns its grant into nil (world is tested where the amount is chosen)")
	}
}

// ---------- the filter of the balance query ----------

// QueryFilterOnMiss: an entry is put into the query sent to the store under a test that says
// the asset at hand is NOT in the cache (a failed lookup, Contains == false): deciding per
// account with a flag (any asset cached -> skip) drops assets that are still unknown.
func (c *Ctx) QueryFilterOnMiss(ob *core.Obligation, fetch *ssa.Function) {
	if fetch == nil {
		return
	}
	var get ssa.CallInstruction
	for _, ci := range core.Calls(fetch) {
		if ci.Common().IsInvoke() && ci.Common().Method.Name() == "GetBalances" {
			get = ci
		}
	}
	if get == nil {
		return
	}
	q := get.Common().Args[len(get.Common().Args)-1]
	fn := fetch
	mv := resolveLocal(q)
	if call, ok := mv.(*ssa.Call); ok {
		if sc := call.Call.StaticCallee(); sc != nil && c.P.InModule(sc) && len(sc.Blocks) > 0 {
			fn = sc
			for _, ret := range core.Returns(sc) {
				if len(ret.Results) > 0 {
					mv = resolveLocal(ret.Results[0])
				}
			}
		}
	}
	mk, ok := mv.(*ssa.MakeMap)
	if !ok || mk.Referrers() == nil {
		ob.Pass("query-filter:"+core.SSAName(fetch), c.P.Pos(get.Pos()), "the pending query is sent as it is (no filter)")
		return
	}
	pc := core.NewPathConds(fn)
	n := 0
	for _, rr := range *mk.Referrers() {
		mu, ok := rr.(*ssa.MapUpdate)
		if !ok || mu.Map != ssa.Value(mk) {
			continue
		}
		n++
		key := "query-filter:" + core.SSAName(fn)
		miss := pc.Requires(mu.Block(), func(l core.Lit) bool {
			if ex, ok := l.Cond.(*ssa.Extract); ok && ex.Index == 1 && !l.Val {
				if lk, ok := ex.Tuple.(*ssa.Lookup); ok && lk.CommaOk {
					return true
				}
			}
			if call, ok := l.Cond.(*ssa.Call); ok && !l.Val {
				if o := core.CalleeObj(&call.Call); o != nil && strings.HasPrefix(o.Name(), "Contains") {
					return true
				}
			}
			return false
		})
		if miss {
			ob.Pass(key, c.P.Pos(mu.Pos()), "requested where an asset of the account was found missing from the cache")
		} else {
			ob.Fail(key, c.P.Pos(mu.Pos()), "an account enters the query sent to the store under a condition that is not 'this asset is not in the cache' (e.g. a per-account flag): an account with one cached asset and one unknown asset is not asked for")
		}
	}
	if n == 0 {
		ob.Pass("query-filter:"+core.SSAName(fn), c.P.Pos(get.Pos()), "no filtered entries")
	}
}

// ---------- the text of a variable reaches its reader unmodified ----------

// VariableTextUnmodified: in the function that turns the text of a variable into a value (a
// switch on the declared type names), the text parameter is not passed through a string
// transformation (trimming, case folding, replacing): a string variable must come out exactly
// as it went in, and the other readers reject what they do not accept.
func (c *Ctx) VariableTextUnmodified(ob *core.Obligation) {
	n := 0
	for _, fn := range c.P.ModuleFunctions() {
		if relOfFn(fn) != "internal/interpreter" || fn.Signature.Results().Len() != 2 {
			continue
		}
		if !core.IsNamedType(fn.Signature.Results().At(0).Type(), core.ModPath+"/internal/interpreter", "Value") {
			continue
		}
		var strs []*ssa.Parameter
		for _, p := range fn.Params {
			if b, ok := p.Type().Underlying().(*types.Basic); ok && b.Kind() == types.String {
				strs = append(strs, p)
			}
		}
		if len(strs) < 2 {
			continue // the reader takes a type name and a text
		}
		// it compares one of them with type-name constants
		isReader := false
		for _, b := range fn.Blocks {
			for _, in := range b.Instrs {
				if bo, ok := in.(*ssa.BinOp); ok && bo.Op == token.EQL {
					if _, isP := bo.X.(*ssa.Parameter); isP {
						if _, ok := core.ConstString(bo.Y); ok {
							isReader = true
						}
					}
				}
				// or it picks the reader of the type from a table keyed by the type name
				if lk, ok := in.(*ssa.Lookup); ok {
					if _, isP := lk.Index.(*ssa.Parameter); isP {
						if m, ok := lk.X.Type().Underlying().(*types.Map); ok {
							if _, isFn := m.Elem().Underlying().(*types.Signature); isFn {
								isReader = true
							}
						}
					}
				}
			}
		}
		if !isReader {
			continue
		}
		n++
		c.Touch(fn)
		key := "var-text:" + core.SSAName(fn)
		bad := false
		for _, p := range strs {
			if p.Referrers() == nil {
				continue
			}
			for _, r := range *p.Referrers() {
				call, ok := r.(*ssa.Call)
				if !ok {
					continue
				}
				o := core.CalleeObj(&call.Call)
				if o == nil || o.Pkg() == nil {
					continue
				}
				if (o.Pkg().Path() == "strings" || o.Pkg().Path() == "unicode") && call.Type() != nil {
					if bt, ok := call.Type().Underlying().(*types.Basic); ok && bt.Kind() == types.String {
						bad = true
						ob.Fail(key, c.P.Pos(call.Pos()), "the text of a variable is passed through "+o.Pkg().Name()+"."+o.Name()+" before it is read: a string variable no longer comes out as it went in (and what metadata stored is not what a later script reads)")
					}
				}
			}
		}
		if !bad {
			ob.Pass(key, c.P.Pos(fn.Pos()), "the text is handed to the per-type readers as it is")
		}
	}
	if n == 0 {
		ob.Unknown("var-text:none", "-", "no function that reads a variable's text by declared type found")
	}
}

// ---------- the renderer and the lexer agree on line ends ----------

// RendererSplitsOnNewline: a function of the parser package that cuts a source text into lines
// (strings.Split and friends on a string parameter) uses the constant "\n" - the character the
// lexer counts lines by - so that the line numbers of a range index the lines it shows.
func (c *Ctx) RendererSplitsOnNewline(ob *core.Obligation) {
	n := 0
	for _, fn := range c.P.ModuleFunctions() {
		if relOfFn(fn) != "internal/parser" {
			continue
		}
		for _, ci := range core.Calls(fn) {
			o := core.CalleeObj(ci.Common())
			if o == nil || o.Pkg() == nil || o.Pkg().Path() != "strings" || !strings.HasPrefix(o.Name(), "Split") || len(ci.Common().Args) < 2 {
				continue
			}
			// only the splits of a text that is then indexed by line numbers of a Range
			usesRange := false
			if fn.Signature.Recv() != nil && typeShort(derefT(fn.Signature.Recv().Type())) == "Range" {
				usesRange = true
			}
			for g := fn.Parent(); g != nil; g = g.Parent() {
				if g.Signature.Recv() != nil && typeShort(derefT(g.Signature.Recv().Type())) == "Range" {
					usesRange = true
				}
			}
			if !usesRange {
				continue
			}
			n++
			c.Touch(fn)
			key := "line-split:" + core.SSAName(fn)
			if s, ok := core.ConstString(ci.Common().Args[1]); ok && s == "\n" {
				ob.Pass(key, c.P.Pos(ci.Pos()), `lines are cut at "\n", as the lexer counts them`)
			} else {
				ob.Fail(key, c.P.Pos(ci.Pos()), `the source is cut into lines with a separator that is not the constant "\n": line numbers computed by the lexer (which counts "\n") no longer index these lines, and rendering an error can run past the end`)
			}
		}
	}
	if n == 0 {
		ob.Pass("line-split:none", "-", "no line splitting by a function that renders a Range")
	}
}

// ---------- diagnostics about @world do not depend on the bound ----------

// WorldDiagnosticUnconditional: in the checker's handling of an overdraft source, a diagnostic
// that is emitted because the address is @world is not made conditional on the overdraft being
// bounded or not: the interpreter refuses @world in send-all whatever its bound.
func (c *Ctx) WorldDiagnosticUnconditional(ob *core.Obligation) {
	fn := c.checkerSwitchFn(ob, "Source")
	if fn == nil {
		return
	}
	src := c.P.Named("internal/parser", "Source")
	entry := clauseEntries(fn, src)["SourceOverdraft"]
	if entry == nil {
		return
	}
	type region struct {
		fn    *ssa.Function
		entry *ssa.BasicBlock
	}
	regions := []region{{fn, entry}}
	for _, call := range callsIn(fn, entry, func(sc *ssa.Function) bool {
		return sc != fn && len(sc.Blocks) > 0 && relOfFn(sc) == relOfFn(fn) && len(clauseEntries(sc, src)) <= 1
	}) {
		for _, prm := range call.Call.StaticCallee().Params {
			if typeShort(derefT(prm.Type())) == "SourceOverdraft" {
				regions = append(regions, region{call.Call.StaticCallee(), nil})
			}
		}
	}
	n := 0
	for _, rg := range regions {
		pc := core.NewPathConds(rg.fn)
		for _, b := range rg.fn.Blocks {
			if rg.entry != nil && !rg.entry.Dominates(b) {
				continue
			}
			for _, in := range b.Instrs {
				al, ok := in.(*ssa.Alloc)
				if !ok || al.Comment != "complit" || !c.isDiagnosticKind(derefT(al.Type())) {
					continue
				}
				// emitted because the address is world?
				world := pc.Requires(b, func(l core.Lit) bool {
					call, ok := l.Cond.(*ssa.Call)
					if !ok || !l.Val {
						return false
					}
					o := core.CalleeObj(&call.Call)
					return o != nil && o.Name() == "IsWorld"
				})
				if !world {
					continue
				}
				n++
				c.Touch(rg.fn)
				key := "world-diag:" + typeShort(derefT(al.Type()))
				cond := false
				for _, term := range pc.At(b) {
					for _, l := range term {
						if f, is := nilFieldLiteral(l, "SourceOverdraft"); is && f == "Bounded" {
							cond = true
						}
					}
				}
				if cond {
					ob.Fail(key, c.P.Pos(al.Pos()), "the diagnostic about an @world overdraft source is only emitted for one of 'bounded' / 'unbounded': the other form gets no diagnostic at all, yet the interpreter refuses @world in send-all whatever its bound")
				} else {
					ob.Pass(key, c.P.Pos(al.Pos()), "emitted for @world whatever the bound")
				}
			}
		}
	}
	if n == 0 {
		ob.Unknown("world-diag:none", "-", "no diagnostic about an @world overdraft address found")
	}
}

// isDiagnosticKind: the type (or its pointer) has Message and Severity methods.
func (c *Ctx) isDiagnosticKind(t types.Type) bool {
	ms := types.NewMethodSet(types.NewPointer(t))
	return ms.Lookup(nil, "Message") != nil && ms.Lookup(nil, "Severity") != nil || lookupMethod(ms, "Message") && lookupMethod(ms, "Severity")
}

func lookupMethod(ms *types.MethodSet, name string) bool {
	for i := 0; i < ms.Len(); i++ {
		if ms.At(i).Obj().Name() == name {
			return true
		}
	}
	return false
}

// ---------- messages are written verbatim ----------

// FormatStringsConstant: in the CLI, the format argument of every fmt.*printf call is a
// constant. A library message used as a format string is rewritten wherever it contains '%'.
func (c *Ctx) FormatStringsConstant(ob *core.Obligation, rel string) {
	n := 0
	for _, fn := range c.P.ModuleFunctions() {
		if relOfFn(fn) != rel {
			continue
		}
		for _, ci := range core.Calls(fn) {
			o := core.CalleeObj(ci.Common())
			if o == nil || o.Pkg() == nil || o.Pkg().Path() != "fmt" || !strings.HasSuffix(o.Name(), "f") {
				continue
			}
			sig, ok := o.Type().(*types.Signature)
			if !ok || !sig.Variadic() {
				continue
			}
			fi := sig.Params().Len() - 2 // the parameter before the variadic one
			if fi < 0 || fi >= len(ci.Common().Args) {
				continue
			}
			n++
			c.Touch(fn)
			key := "format:" + core.SSAName(fn) + ":" + o.Name()
			if _, ok := core.ConstString(ci.Common().Args[fi]); ok {
				ob.Pass(key, c.P.Pos(ci.Pos()), "constant format")
			} else {
				ob.Fail(key, c.P.Pos(ci.Pos()), "fmt."+o.Name()+" is given a format that is not a constant ("+core.ShortVal(ci.Common().Args[fi])+"): a message containing '%' is not printed as the library produced it")
			}
		}
	}
	ob.Pass("format:scanned", "-", fmt.Sprintf("%d formatted print call(s), all with constant formats", n))
}

// ---------- AST nodes are identified by their address ----------

// NodesNotCopiedBeforeChecking: the expression checker files what it learns about a variable
// use under the address of the node. Handing it the address of a local copy of a node (a
// by-value parameter, a range variable) files the result under an address nobody will look up.
func (c *Ctx) NodesNotCopiedBeforeChecking(ob *core.Obligation) {
	ve := c.P.Named("internal/parser", "ValueExpr")
	n := 0
	for _, fn := range c.P.ModuleFunctions() {
		if relOfFn(fn) != "internal/analysis" {
			continue
		}
		for _, b := range fn.Blocks {
			for _, in := range b.Instrs {
				mi, ok := in.(*ssa.MakeInterface)
				if !ok || !types.Identical(types.Unalias(mi.Type()), types.Unalias(ve)) {
					continue
				}
				if typeShort(derefT(mi.X.Type())) != "Variable" {
					continue
				}
				n++
				al, isLocal := mi.X.(*ssa.Alloc)
				if !isLocal {
					continue
				}
				// the address of a local: a fresh node built here is fine, a copy is not
				if copiedFrom(al) == nil {
					continue
				}
				c.Touch(fn)
				ob.Fail("node-identity:"+core.SSAName(fn), c.P.Pos(mi.Pos()), "the address of a local copy of a variable node is used as the node: what the checker records for it (its declaration) is filed under an address that hover and go-to-definition never look up")
			}
		}
	}
	ob.Pass("node-identity:scanned", "-", fmt.Sprintf("%d variable node(s) handed on as expressions, none through a local copy", n))
}

// plainReader: a balance reader in the narrow sense: it is given names (strings) only, no
// amounts and no lists.
func plainReader(fn *ssa.Function) bool {
	for i, p := range fn.Params {
		if i == 0 && fn.Signature.Recv() != nil {
			continue
		}
		if b, ok := p.Type().Underlying().(*types.Basic); !ok || b.Kind() != types.String {
			return false
		}
	}
	return true
}

// ---------- an amount handed to a function that consumes it is not used afterwards ----------

// paramOf: v denotes (the number pointed to by) a *big.Int parameter of fn: the parameter, a
// local that only ever holds it, or - in a closure - a captured variable that only ever holds
// a parameter of the enclosing function.
func paramOf(v ssa.Value, fn *ssa.Function) (*ssa.Function, *ssa.Parameter) {
	v = resolveLocal(v)
	if p, ok := v.(*ssa.Parameter); ok {
		return p.Parent(), p
	}
	if ld, ok := v.(*ssa.UnOp); ok && ld.Op == token.MUL {
		if st := singleStoreEverywhere(ld.X); st != nil {
			if p, ok := resolveLocal(st.Val).(*ssa.Parameter); ok {
				return p.Parent(), p
			}
		}
	}
	return nil, nil
}

// ConsumedArgumentsDead: a function "consumes" a *big.Int parameter when it rewrites it in
// place (directly, through a local or captured alias, or by handing it to a function that
// consumes it). Whoever passes an amount to a consuming position must not use that amount
// afterwards: it no longer has the value it had.
func (c *Ctx) ConsumedArgumentsDead(ob *core.Obligation, rel string) {
	var fns []*ssa.Function
	for _, f := range c.P.ModuleFunctions() {
		if relOfFn(f) == rel {
			fns = append(fns, f)
		}
	}
	consumes := map[*ssa.Parameter]token.Pos{}
	for changed := true; changed; {
		changed = false
		for _, f := range fns {
			for _, ci := range core.Calls(f) {
				if tn, m := core.BigMethod(ci.Common()); tn != "" && !bigReadersOnly[m] {
					args := core.CallArgs(ci.Common())
					if zeroArgs(m, args) {
						continue
					}
					if _, p := paramOf(args[0], f); p != nil && isBigPtrStd(p.Type()) {
						if _, ok := consumes[p]; !ok {
							consumes[p] = ci.Pos()
							changed = true
						}
					}
					continue
				}
				for _, g := range c.calleesOf(f, ci) {
					for ai, a := range ci.Common().Args {
						if ai >= len(g.Params) {
							continue
						}
						if _, isC := consumes[g.Params[ai]]; !isC {
							continue
						}
						if _, p := paramOf(a, f); p != nil {
							if _, ok := consumes[p]; !ok {
								consumes[p] = ci.Pos()
								changed = true
							}
						}
					}
				}
			}
		}
	}
	n := 0
	for _, f := range fns {
		for _, ci := range core.Calls(f) {
			call, ok := ci.(*ssa.Call)
			if !ok {
				continue
			}
			for _, g := range c.calleesOf(f, ci) {
				for ai, a := range call.Call.Args {
					if ai >= len(g.Params) {
						continue
					}
					if _, isC := consumes[g.Params[ai]]; !isC {
						continue
					}
					n++
					c.Touch(f)
					key := "consumed:" + core.SSAName(f) + ":" + g.Name()
					// a number the caller created itself and lends as an in/out accumulator is its
					// own business
					if c.freshNumber(a, f, 0, map[ssa.Value]bool{}) {
						ob.Pass(key, c.P.Pos(call.Pos()), "the caller lends a number it created itself (an accumulator)")
						continue
					}
					k := cellKey(a)
					var later ssa.Instruction
					for _, b := range f.Blocks {
						for _, in := range b.Instrs {
							if in == ssa.Instruction(call) || !instrCanPrecede(call, in) {
								continue
							}
							if _, isDbg := in.(*ssa.DebugRef); isDbg {
								continue
							}
							for _, op := range in.Operands(nil) {
								if *op != nil && isBigPtrStd((*op).Type()) && cellKey(*op) == k {
									later = in
								}
							}
						}
					}
					if later != nil {
						ob.Fail(key, c.P.Pos(later.Pos()), fmt.Sprintf("the amount handed to %s is rewritten in place by it (at %s) and is used again here: it no longer has the value it had when it was handed over", g.Name(), c.P.Pos(consumes[g.Params[ai]])))
					} else {
						ob.Pass(key, c.P.Pos(call.Pos()), "the amount is not used after being handed to a function that rewrites it")
					}
				}
			}
		}
	}
	ob.Pass("consumed:scanned", "-", fmt.Sprintf("%d parameter(s) rewritten in place by their function, %d hand-over(s) examined", len(consumes), n))
}
