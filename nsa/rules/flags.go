package rules

import (
	"fmt"
	"go/token"
	"go/types"

	"golang.org/x/tools/go/ssa"

	"nsa/core"
)

// FlagGate (W6): "feature flags change nothing except the feature they gate", decided by
// following the feature-flag map from the exported entry points:
//
//	(a) the map (type map[string]struct{} parameter of an exported function of the root or
//	    interpreter package, and every parameter/field/local it is handed to) is only looked
//	    up with a constant key or compared with nil; it is never iterated, measured, stored
//	    in an interface or given to code outside the module;
//	(b) the outcome of a lookup only decides the value stored in a boolean field (a "flag
//	    field"): stored as is, or as the condition of a branch whose whole region consists
//	    of constant stores to such a field;
//	(c) a flag field is written nowhere else, and is read only inside the implementation of
//	    a builtin function (the function the dispatch on the call's name selects).
func (c *Ctx) FlagGate(ob *core.Obligation, t *Tables) {
	impl := map[*ssa.Function]string{}
	for name, f := range t.Impl {
		impl[f] = name
	}
	fns := c.P.ModuleFunctions()
	isFlagMapType := func(ty types.Type) bool {
		m, ok := ty.Underlying().(*types.Map)
		if !ok {
			return false
		}
		b, ok := m.Key().Underlying().(*types.Basic)
		if !ok || b.Kind() != types.String {
			return false
		}
		st, ok := m.Elem().Underlying().(*types.Struct)
		return ok && st.NumFields() == 0
	}
	// field index
	loadsOf := map[*types.Var][]ssa.Value{}
	storesOf := map[*types.Var][]*ssa.Store{}
	for _, fn := range fns {
		for _, b := range fn.Blocks {
			for _, in := range b.Instrs {
				switch x := in.(type) {
				case *ssa.UnOp:
					if x.Op == token.MUL {
						if f := core.FieldOf(x.X); f != nil {
							loadsOf[f] = append(loadsOf[f], x)
						}
					}
				case *ssa.Field:
					if f := core.FieldOf(x); f != nil {
						loadsOf[f] = append(loadsOf[f], x)
					}
				case *ssa.Store:
					if f := core.FieldOf(x.Addr); f != nil {
						storesOf[f] = append(storesOf[f], x)
					}
				}
			}
		}
	}
	fail := func(key string, pos token.Pos, why string) { ob.Fail(key, c.P.Pos(pos), why) }

	// (a) the map
	var maps []ssa.Value
	seenMap := map[ssa.Value]bool{}
	addMap := func(v ssa.Value) {
		if !seenMap[v] {
			seenMap[v] = true
			maps = append(maps, v)
		}
	}
	for _, fn := range fns {
		rel := relOfFn(fn)
		if (rel != "" && rel != "internal/interpreter") || fn.Object() == nil || !fn.Object().Exported() || fn.Parent() != nil {
			continue
		}
		for _, p := range fn.Params {
			if isFlagMapType(p.Type()) {
				addMap(p)
				c.Touch(fn)
			}
		}
	}
	var oks []ssa.Value
	seenOk := map[ssa.Value]bool{}
	addOk := func(v ssa.Value) {
		if !seenOk[v] {
			seenOk[v] = true
			oks = append(oks, v)
		}
	}
	lookups := 0
	for i := 0; i < len(maps); i++ {
		v := maps[i]
		if v.Referrers() == nil {
			continue
		}
		fn := valueFn(v)
		key := "flagmap:" + fnName(fn)
		for _, r := range *v.Referrers() {
			switch x := r.(type) {
			case *ssa.DebugRef:
			case *ssa.Lookup:
				if x.X != v {
					fail(key, x.Pos(), "the feature-flag map is used as a lookup key")
					continue
				}
				if _, ok := x.Index.(*ssa.Const); !ok {
					fail(key, x.Pos(), "the feature-flag map is looked up with a key that is not a constant: which flag is consulted depends on run-time data")
					continue
				}
				lookups++
				c.Touch(fn)
				ob.Pass("flaglookup:"+fnName(fn), c.P.Pos(x.Pos()), "the flag map is looked up with the constant "+x.Index.String())
				if x.CommaOk && x.Referrers() != nil {
					for _, rr := range *x.Referrers() {
						if ex, ok := rr.(*ssa.Extract); ok && ex.Index == 1 {
							addOk(ex)
						}
					}
				}
			case *ssa.BinOp:
				if (x.Op == token.EQL || x.Op == token.NEQ) && (core.IsNilConst(x.X) || core.IsNilConst(x.Y)) {
					continue
				}
				fail(key, x.Pos(), "the feature-flag map is compared with something other than nil")
			case *ssa.Phi:
				addMap(x)
			case *ssa.ChangeType:
				addMap(x)
			case *ssa.Store:
				if x.Val != v {
					continue
				}
				if f := core.FieldOf(x.Addr); f != nil {
					for _, l := range loadsOf[f] {
						addMap(l)
					}
					continue
				}
				if al, ok := x.Addr.(*ssa.Alloc); ok && al.Referrers() != nil {
					for _, rr := range *al.Referrers() {
						if u, ok := rr.(*ssa.UnOp); ok && u.Op == token.MUL {
							addMap(u)
						}
					}
					continue
				}
				fail(key, x.Pos(), "the feature-flag map is stored somewhere the analysis cannot follow")
			case ssa.CallInstruction:
				cc := x.Common()
				sc := cc.StaticCallee()
				if sc == nil || !c.P.InModule(sc) || sc.Blocks == nil {
					if b, ok := cc.Value.(*ssa.Builtin); ok {
						fail(key, x.Pos(), "the feature-flag map is given to "+b.Name()+": behaviour depends on more than the presence of one named flag")
					} else {
						fail(key, x.Pos(), "the feature-flag map escapes to a call the analysis cannot follow: "+x.String())
					}
					continue
				}
				for ai, a := range cc.Args {
					if a == v && ai < len(sc.Params) {
						addMap(sc.Params[ai])
						c.Touch(sc)
					}
				}
			case *ssa.MakeClosure:
				if sc, ok := x.Fn.(*ssa.Function); ok {
					for bi, bv := range x.Bindings {
						if bv == v && bi < len(sc.FreeVars) {
							addMap(sc.FreeVars[bi])
						}
					}
				}
			default:
				fail(key, r.Pos(), "the feature-flag map is used for something other than a constant-key lookup: "+r.String())
			}
		}
	}
	if lookups == 0 {
		ob.Unknown("flaglookup:none", "-", "no lookup of the feature-flag map found")
	}

	// (b) the outcome of a lookup
	flagFields := map[*types.Var]bool{}
	okStores := map[*ssa.Store]bool{}
	for i := 0; i < len(oks); i++ {
		v := oks[i]
		if v.Referrers() == nil {
			continue
		}
		fn := valueFn(v)
		key := "flagvalue:" + fnName(fn)
		for _, r := range *v.Referrers() {
			switch x := r.(type) {
			case *ssa.DebugRef:
			case *ssa.UnOp:
				if x.Op == token.NOT {
					addOk(x)
				} else {
					fail(key, x.Pos(), "unexpected use of a flag lookup result")
				}
			case *ssa.Phi:
				addOk(x)
			case *ssa.Store:
				if x.Val != v {
					continue
				}
				if f := core.FieldOf(x.Addr); f != nil {
					flagFields[f] = true
					okStores[x] = true
					continue
				}
				if al, ok := x.Addr.(*ssa.Alloc); ok && al.Referrers() != nil {
					for _, rr := range *al.Referrers() {
						if u, ok := rr.(*ssa.UnOp); ok && u.Op == token.MUL {
							addOk(u)
						}
					}
					continue
				}
				fail(key, x.Pos(), "a flag lookup result is stored somewhere the analysis cannot follow")
			case *ssa.If:
				for _, s := range x.Block().Succs {
					if len(s.Preds) != 1 {
						continue
					}
					for _, bb := range fn.Blocks {
						if !s.Dominates(bb) {
							continue
						}
						for _, in := range bb.Instrs {
							switch y := in.(type) {
							case *ssa.DebugRef, *ssa.Jump, *ssa.FieldAddr:
							case *ssa.Store:
								f := core.FieldOf(y.Addr)
								if _, isConst := y.Val.(*ssa.Const); f != nil && isConst {
									flagFields[f] = true
									okStores[y] = true
								} else {
									fail(key, y.Pos(), "under a test of the feature-flag map, something other than a constant is stored into a flag field: the flag changes more than the feature it gates")
								}
							default:
								fail(key, in.Pos(), fmt.Sprintf("behaviour other than setting a flag field depends directly on the feature-flag map: %s", in.String()))
							}
						}
					}
				}
			case *ssa.Return:
				for ri, res := range x.Results {
					if res != v {
						continue
					}
					for _, caller := range fns {
						for _, ci := range core.Calls(caller) {
							if ci.Common().StaticCallee() != fn {
								continue
							}
							val := ci.Value()
							if val == nil {
								continue
							}
							if len(x.Results) == 1 {
								addOk(val)
							} else if val.Referrers() != nil {
								for _, rr := range *val.Referrers() {
									if ex, ok := rr.(*ssa.Extract); ok && ex.Index == ri {
										addOk(ex)
									}
								}
							}
						}
					}
				}
			case ssa.CallInstruction:
				cc := x.Common()
				sc := cc.StaticCallee()
				if sc == nil || !c.P.InModule(sc) || sc.Blocks == nil {
					fail(key, x.Pos(), "a flag lookup result is given to a call the analysis cannot follow: "+x.String())
					continue
				}
				for ai, a := range cc.Args {
					if a == v && ai < len(sc.Params) {
						addOk(sc.Params[ai])
					}
				}
			default:
				fail(key, r.Pos(), "a flag lookup result is used for something other than setting a flag field: "+r.String())
			}
		}
	}
	if len(flagFields) == 0 {
		ob.Unknown("flagfield:none", "-", "no field set from the feature-flag map found")
	}

	// (c) flag fields
	reads := 0
	for f := range flagFields {
		fname := f.Name()
		for _, st := range storesOf[f] {
			fn := st.Parent()
			if okStores[st] {
				ob.Pass("flagfield:"+fname+":write:"+fnName(fn), c.P.Pos(st.Pos()), "set from the lookup of the flag map")
				c.Touch(fn)
				continue
			}
			fail("flagfield:"+fname+":write:"+fnName(fn), st.Pos(), "the flag field "+fname+" is written from something other than the lookup of the flag map")
		}
		for _, l := range loadsOf[f] {
			in := l.(ssa.Instruction)
			fn := in.Parent()
			top := fn
			for top.Parent() != nil {
				top = top.Parent()
			}
			reads++
			c.Touch(fn)
			if b, ok := impl[top]; ok {
				ob.Pass("flagfield:"+fname+":read:"+fnName(fn), c.P.Pos(in.Pos()), "read by the implementation of the builtin '"+b+"', the feature it gates")
				continue
			}
			fail("flagfield:"+fname+":read:"+fnName(fn), in.Pos(), "the flag field "+fname+" is read outside the implementation of a builtin function: the flag changes more than the feature it gates")
		}
	}
	if len(flagFields) > 0 && reads == 0 {
		ob.Unknown("flagfield:reads", "-", "the flag field is never read")
	}
}

func valueFn(v ssa.Value) *ssa.Function {
	switch x := v.(type) {
	case *ssa.Parameter:
		return x.Parent()
	case *ssa.FreeVar:
		return x.Parent()
	case ssa.Instruction:
		return x.Parent()
	}
	return nil
}

func fnName(fn *ssa.Function) string {
	if fn == nil {
		return "?"
	}
	return core.SSAName(fn)
}
