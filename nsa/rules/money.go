package rules

import (
	"fmt"
	"go/token"
	"go/types"
	"strings"

	"nsa/core"

	"golang.org/x/tools/go/ssa"
)

// Roles of the interpreter discovered from the code (not from names): who queues senders and
// receivers, who reads balances, which functions traverse sources / destinations.
type Roles struct {
	c *Ctx

	SendersF, ReceiversF, CachedF, CurAssetF         *types.Var
	SenderAmt, ReceiverAmt, SenderName, ReceiverName *types.Var
	PostSrc, PostDst, PostAmt, PostAsset             *types.Var

	PushSender   *pushFn
	PushReceiver *pushFn
	readerMemo   map[*ssa.Function]int
}

type pushFn struct {
	Fn       *ssa.Function
	NameIdx  int
	AmtIdx   int
	AppendSt *ssa.Store
}

func (c *Ctx) Roles(ob *core.Obligation) *Roles {
	r := &Roles{c: c, readerMemo: map[*ssa.Function]int{}}
	in := "internal/interpreter"
	r.SendersF = c.P.Field(in, "programState", "Senders")
	r.ReceiversF = c.P.Field(in, "programState", "Receivers")
	r.CachedF = c.P.Field(in, "programState", "CachedBalances")
	r.CurAssetF = c.P.Field(in, "programState", "CurrentAsset")
	r.SenderAmt = c.P.Field(in, "Sender", "Monetary")
	r.ReceiverAmt = c.P.Field(in, "Receiver", "Monetary")
	r.SenderName = c.P.Field(in, "Sender", "Name")
	r.ReceiverName = c.P.Field(in, "Receiver", "Name")
	r.PostSrc = c.P.Field(in, "Posting", "Source")
	r.PostDst = c.P.Field(in, "Posting", "Destination")
	r.PostAmt = c.P.Field(in, "Posting", "Amount")
	r.PostAsset = c.P.Field(in, "Posting", "Asset")
	for name, f := range map[string]*types.Var{"programState.Senders": r.SendersF, "programState.Receivers": r.ReceiversF, "programState.CachedBalances": r.CachedF,
		"programState.CurrentAsset": r.CurAssetF, "Sender.Monetary": r.SenderAmt, "Receiver.Monetary": r.ReceiverAmt, "Sender.Name": r.SenderName, "Receiver.Name": r.ReceiverName,
		"Posting.Source": r.PostSrc, "Posting.Destination": r.PostDst, "Posting.Amount": r.PostAmt, "Posting.Asset": r.PostAsset} {
		if f == nil {
			ob.Unknown("anchor:interpreter."+name, "-", "state field not found (renamed or removed): the money rules cannot see the code they are about")
			return nil
		}
	}
	r.PushSender = r.findPush(r.SendersF, r.SenderName, r.SenderAmt)
	r.PushReceiver = r.findPush(r.ReceiversF, r.ReceiverName, r.ReceiverAmt)
	if r.PushSender == nil || r.PushReceiver == nil {
		ob.Unknown("anchor:push-functions", "-", "no function appending a (name, amount) pair built from its parameters to Senders / Receivers found")
		return nil
	}
	c.Touch(r.PushSender.Fn)
	c.Touch(r.PushReceiver.Fn)
	return r
}

// findPush: the method of programState that appends a struct {Name: param, Monetary: param} to listF.
func (r *Roles) findPush(listF, nameF, amtF *types.Var) *pushFn {
	for _, fn := range r.c.P.ModuleFunctions() {
		if relOfFn(fn) != "internal/interpreter" {
			continue
		}
		for _, b := range fn.Blocks {
			for _, in := range b.Instrs {
				st, ok := in.(*ssa.Store)
				if !ok || core.FieldOf(st.Addr) != listF {
					continue
				}
				call, ok := st.Val.(*ssa.Call)
				if !ok {
					continue
				}
				if bi, ok := call.Call.Value.(*ssa.Builtin); !ok || bi.Name() != "append" {
					continue
				}
				var elems []ssa.Value
				if sl, ok := call.Call.Args[1].(*ssa.Slice); ok {
					walk2(sl, &elems)
				}
				if len(elems) != 1 {
					continue
				}
				// the element is a struct value loaded from a literal alloc
				ld, ok := elems[0].(*ssa.UnOp)
				if !ok {
					continue
				}
				al, ok := ld.X.(*ssa.Alloc)
				if !ok {
					continue
				}
				pf := &pushFn{Fn: fn, NameIdx: -1, AmtIdx: -1, AppendSt: st}
				for _, ref := range *al.Referrers() {
					fa, ok := ref.(*ssa.FieldAddr)
					if !ok || fa.Referrers() == nil {
						continue
					}
					for _, r2 := range *fa.Referrers() {
						s2, ok := r2.(*ssa.Store)
						if !ok || s2.Addr != fa {
							continue
						}
						if p, ok := s2.Val.(*ssa.Parameter); ok {
							switch core.FieldOf(fa) {
							case nameF:
								pf.NameIdx = paramIndex(fn, p)
							case amtF:
								pf.AmtIdx = paramIndex(fn, p)
							}
						}
					}
				}
				if pf.NameIdx >= 0 && pf.AmtIdx >= 0 {
					return pf
				}
			}
		}
	}
	return nil
}

// ReadsCache: fn (transitively, through module callees without Source/ValueExpr parameters)
// loads the balance cache field.
func (r *Roles) ReadsCache(fn *ssa.Function) bool { return r.readsField(fn, r.CachedF, 0) }

func (r *Roles) readsField(fn *ssa.Function, f *types.Var, d int) bool {
	if fn == nil || fn.Blocks == nil || d > 4 || !r.c.P.InModule(fn) {
		return false
	}
	key := fn
	if f == r.CachedF {
		if v, ok := r.readerMemo[key]; ok {
			return v == 1
		}
		r.readerMemo[key] = 2
	}
	res := false
	for _, b := range fn.Blocks {
		for _, in := range b.Instrs {
			switch x := in.(type) {
			case *ssa.UnOp:
				if x.Op == token.MUL && core.FieldOf(x.X) == f {
					res = true
				}
			case *ssa.Call:
				if sc := x.Call.StaticCallee(); sc != nil && sc != fn && r.readsField(sc, f, d+1) {
					res = true
				}
			}
		}
	}
	if f == r.CachedF && res {
		r.readerMemo[key] = 1
	}
	return res
}

// IsBalanceReader: a leaf helper returning a *big.Int read from the cache (no AST parameter).
func (r *Roles) IsBalanceReader(fn *ssa.Function) bool {
	if fn == nil || fn.Signature.Results().Len() == 0 || !isBigPtrStd(fn.Signature.Results().At(0).Type()) {
		return false
	}
	for _, p := range fn.Params {
		if isParserType(p.Type()) {
			return false
		}
	}
	return r.ReadsCache(fn)
}

func isBigPtrStd(t types.Type) bool {
	p, ok := types.Unalias(t).Underlying().(*types.Pointer)
	return ok && (core.IsNamedType(p.Elem(), "math/big", "Int"))
}

func isParserType(t types.Type) bool {
	t = types.Unalias(t)
	if p, ok := t.(*types.Pointer); ok {
		t = types.Unalias(p.Elem())
	}
	if n, ok := t.(*types.Named); ok && n.Obj().Pkg() != nil {
		rel, isMod := core.Rel(n.Obj().Pkg())
		return isMod && rel == "internal/parser"
	}
	return false
}

// ---------- C02.1 zero filter ----------

// ZeroFilter: every amount queued as sender / receiver is non-zero: in the push functions
// the append is guarded by a comparison with zero that excludes equality; in the reconciler
// the remainder pushed back comes from a subtraction ordered by a strict comparison.
func (c *Ctx) ZeroFilter(ob *core.Obligation, r *Roles) {
	if r == nil {
		return
	}
	for _, fn := range c.P.ModuleFunctions() {
		if relOfFn(fn) != "internal/interpreter" {
			continue
		}
		var pc *core.PathConds
		for _, b := range fn.Blocks {
			for _, in := range b.Instrs {
				st, ok := in.(*ssa.Store)
				if !ok {
					continue
				}
				f := core.FieldOf(st.Addr)
				if f != r.SenderAmt && f != r.ReceiverAmt {
					continue
				}
				c.Touch(fn)
				if pc == nil {
					pc = core.NewPathConds(fn)
				}
				key := "zerofilter:" + core.SSAName(fn) + ":" + ownerOfVar(f) + ".Monetary"
				v := st.Val
				want := cellKey(v)
				nonZero := pc.Requires(b, func(l core.Lit) bool {
					cmp, rel, ok := core.DecodeCond(l.Cond)
					if !ok {
						return false
					}
					if !l.Val {
						rel = core.ANY &^ rel
					}
					if rel&core.EQ != 0 {
						return false
					}
					if cellKey(cmp.A) == want && (cmp.B == nil || isZeroBig(cmp.B)) {
						return true
					}
					// remainder of an ordered subtraction: v = x - y under x != y
					if call := subWriter(v); call != nil {
						{
							a := core.CallArgs(&call.Call)
							x, y := cellKey(a[1]), cellKey(a[2])
							ka, kb := cellKey(cmp.A), ""
							if cmp.B != nil {
								kb = cellKey(cmp.B)
							}
							if (ka == x && kb == y) || (ka == y && kb == x) {
								return true
							}
						}
					}
					return false
				})
				if nonZero {
					ob.Pass(key, c.P.Pos(st.Pos()), "the queued amount is compared unequal to zero (or is the remainder of a strictly ordered subtraction) on every path")
				} else {
					ob.Fail(key, c.P.Pos(st.Pos()), "an amount is queued without a non-zero test on every path: zero postings would be emitted")
				}
			}
		}
	}
}

// subWriter: v is the result of an Int.Sub call, or a fresh number whose only writer is one.
func subWriter(v ssa.Value) *ssa.Call {
	v = core.Strip(v)
	if call, ok := v.(*ssa.Call); ok {
		if tn, m := core.BigMethod(&call.Call); tn == "Int" && m == "Sub" {
			return call
		}
		return nil
	}
	al, ok := v.(*ssa.Alloc)
	if !ok || al.Referrers() == nil {
		return nil
	}
	var w *ssa.Call
	for _, r := range *al.Referrers() {
		call, ok := r.(*ssa.Call)
		if !ok {
			continue
		}
		tn, m := core.BigMethod(&call.Call)
		if tn == "" || bigReadersOnly[m] || core.CallArgs(&call.Call)[0] != al {
			continue
		}
		if w != nil || m != "Sub" || tn != "Int" {
			return nil
		}
		w = call
	}
	return w
}

func ownerOfVar(f *types.Var) string {
	// find the struct in the field's package that declares f
	if f.Pkg() == nil {
		return "?"
	}
	for _, n := range f.Pkg().Scope().Names() {
		if tn, ok := f.Pkg().Scope().Lookup(n).(*types.TypeName); ok {
			if st, ok := tn.Type().Underlying().(*types.Struct); ok {
				for i := 0; i < st.NumFields(); i++ {
					if st.Field(i) == f {
						return tn.Name()
					}
				}
			}
		}
	}
	return "?"
}

// ---------- C02.4 / C02.5 postings ----------

// PostingShape: Posting.Source comes from a sender's name, Posting.Destination from a
// receiver's name, Posting.Asset from the reconciler's asset parameter whose every argument
// is the current asset; a posting is never built on the path taken for the kept marker.
func (c *Ctx) PostingShape(ob *core.Obligation, r *Roles, keptConst string) {
	if r == nil {
		return
	}
	n := 0
	for _, fn := range c.P.ModuleFunctions() {
		if relOfFn(fn) != "internal/interpreter" {
			continue
		}
		var pc *core.PathConds
		for _, b := range fn.Blocks {
			for _, in := range b.Instrs {
				st, ok := in.(*ssa.Store)
				if !ok {
					continue
				}
				f := core.FieldOf(st.Addr)
				if f != r.PostSrc && f != r.PostDst && f != r.PostAsset {
					continue
				}
				n++
				c.Touch(fn)
				if pc == nil {
					pc = core.NewPathConds(fn)
				}
				key := "posting:" + core.SSAName(fn) + ":" + f.Name()
				pos := c.P.Pos(st.Pos())
				switch f {
				case r.PostSrc, r.PostDst:
					wantF := r.SenderName
					other := "a sender"
					if f == r.PostDst {
						wantF, other = r.ReceiverName, "a receiver"
					}
					// where the name is materialised: here, or - when the posting is built by a helper
					// that is handed the two names - at every call of that helper
					type nameSite struct {
						val ssa.Value
						b   *ssa.BasicBlock
						pc  *core.PathConds
						pos string
					}
					sitesN := []nameSite{{st.Val, b, pc, pos}}
					if prm, ok := core.Strip(st.Val).(*ssa.Parameter); ok {
						if as, ok := c.argSites(fn, prm); ok {
							sitesN = nil
							for _, a := range as {
								c.Touch(a.Caller)
								sitesN = append(sitesN, nameSite{a.Arg, a.Site.Block(), core.NewPathConds(a.Caller), c.P.Pos(a.Site.Pos())})
							}
						}
					}
					failed := false
					for _, ns := range sitesN {
						got := core.FieldOf(core.Strip(ns.val))
						if ld, ok := core.Strip(ns.val).(*ssa.UnOp); ok {
							got = core.FieldOf(ld.X)
						}
						if got != wantF {
							ob.Fail(key, ns.pos, "Posting."+f.Name()+" is not taken from the name of "+other+" ("+core.ShortVal(ns.val)+")")
							failed = true
							break
						}
						if f == r.PostDst {
							// never the kept marker: on every path the receiver's name was compared unequal to it
							val := ns.val
							okKept := ns.pc.Requires(ns.b, func(l core.Lit) bool {
								bo, ok := l.Cond.(*ssa.BinOp)
								if !ok || (bo.Op != token.EQL && bo.Op != token.NEQ) {
									return false
								}
								var oth ssa.Value
								if k, ok := core.ConstString(bo.Y); ok && k == keptConst {
									oth = bo.X
								} else if k, ok := core.ConstString(bo.X); ok && k == keptConst {
									oth = bo.Y
								} else {
									return false
								}
								return core.Canon(oth) == core.Canon(val) && (bo.Op == token.NEQ) == l.Val
							})
							if !okKept {
								ob.Fail(key, ns.pos, "a posting can be built whose destination is the internal kept marker: the branch for kept funds does not exclude it on every path")
								failed = true
								break
							}
						}
					}
					if failed {
						continue
					}
					ob.Pass(key, pos, "Posting."+f.Name()+" <- "+other+"'s name")
				case r.PostAsset:
					p, ok := st.Val.(*ssa.Parameter)
					if !ok {
						ob.Fail(key, pos, "Posting.Asset is not the reconciler's asset parameter")
						continue
					}
					bad := c.assetParamIsCurrent(fn, p, r, 0)
					if bad != "" {
						ob.Fail(key, pos, bad)
					} else {
						ob.Pass(key, pos, "Posting.Asset <- asset parameter <- CurrentAsset at every call")
					}
				}
			}
		}
	}
	if n == 0 {
		ob.Unknown("posting:none", "-", "no construction of a Posting found")
	}
}

// assetParamIsCurrent: every call in the module passes the statement's current asset for p
// (or forwards its own parameter for which that holds); the complaint otherwise.
func (c *Ctx) assetParamIsCurrent(fn *ssa.Function, p *ssa.Parameter, r *Roles, depth int) string {
	idx := paramIndex(fn, p)
	node := c.P.CallGraph().Nodes[fn]
	if node == nil || idx < 0 || depth > 3 {
		return ""
	}
	for _, e := range node.In {
		if !c.P.InModule(e.Caller.Func) {
			continue
		}
		args := core.CallArgs(e.Site.Common())
		if idx >= len(args) {
			continue
		}
		arg := args[idx]
		if q, ok := arg.(*ssa.Parameter); ok && q.Parent() == e.Caller.Func {
			if bad := c.assetParamIsCurrent(e.Caller.Func, q, r, depth+1); bad != "" {
				return bad
			}
			continue
		}
		ld, ok := arg.(*ssa.UnOp)
		if !ok || core.FieldOf(ld.X) != r.CurAssetF {
			return "the asset passed at " + c.P.Pos(e.Site.Pos()) + " is not the current asset of the statement"
		}
	}
	return ""
}

// AssetAssignedBeforeUse (C02.4 / C09.2): in every function that assigns the current asset,
// each call that can read it is dominated by an assignment (no value carried over from a
// previous statement).
func (c *Ctx) AssetAssignedBeforeUse(ob *core.Obligation, r *Roles) {
	if r == nil {
		return
	}
	n := 0
	for _, fn := range c.P.ModuleFunctions() {
		if relOfFn(fn) != "internal/interpreter" {
			continue
		}
		var stores []*ssa.Store
		for _, b := range fn.Blocks {
			for _, in := range b.Instrs {
				if st, ok := in.(*ssa.Store); ok && core.FieldOf(st.Addr) == r.CurAssetF {
					stores = append(stores, st)
				}
			}
		}
		if len(stores) == 0 {
			continue
		}
		n++
		c.Touch(fn)
		key := "asset-before-use:" + core.SSAName(fn)
		bad := ""
		for _, b := range fn.Blocks {
			for idx, in := range b.Instrs {
				call, ok := in.(*ssa.Call)
				if !ok {
					continue
				}
				sc := call.Call.StaticCallee()
				if sc == nil || !r.readsField(sc, r.CurAssetF, 0) {
					continue
				}
				dominated := false
				for _, st := range stores {
					if st.Block() == b {
						for _, in2 := range b.Instrs[:idx] {
							if in2 == st {
								dominated = true
							}
						}
					} else if st.Block().Dominates(b) {
						dominated = true
					}
				}
				if !dominated {
					bad = "call to " + sc.Name() + " at " + c.P.Pos(call.Pos()) + " can read the current asset before this statement assigned it"
				}
			}
		}
		if bad != "" {
			ob.Fail(key, c.P.Pos(fn.Pos()), bad)
		} else {
			ob.Pass(key, c.P.Pos(fn.Pos()), "the current asset is assigned before every call that reads it")
		}
	}
	if n == 0 {
		ob.Unknown("asset-before-use:none", "-", "no assignment of the current asset found")
	}
}

// ---------- C03.1 exactness ----------

// ExactnessTest: a function that builds the insufficient-funds error returns success only on
// an edge of a comparison, between the amount actually drawn (result of the draw traversal it
// calls) and the requested amount (its parameter, which it also passes to that traversal),
// that excludes "less".
func (c *Ctx) ExactnessTest(ob *core.Obligation, errType string) {
	n := 0
	for _, fn := range c.P.ModuleFunctions() {
		if relOfFn(fn) != "internal/interpreter" {
			continue
		}
		builds := false
		for _, b := range fn.Blocks {
			for _, in := range b.Instrs {
				if al, ok := in.(*ssa.Alloc); ok && al.Comment == "complit" && typeShort(derefT(al.Type())) == errType {
					builds = true
				}
			}
		}
		if !builds {
			continue
		}
		n++
		c.Touch(fn)
		key := "exact:" + core.SSAName(fn)
		pc := core.NewPathConds(fn)
		ei := errIndex(fn.Signature)
		bad := ""
		for _, ret := range core.Returns(fn) {
			if ei < 0 || !core.IsNilConst(ret.Results[ei]) {
				continue
			}
			ok := pc.Requires(ret.Block(), func(l core.Lit) bool {
				cmp, rel, is := core.DecodeCond(l.Cond)
				if !is || cmp.B == nil {
					return false
				}
				if !l.Val {
					rel = core.ANY &^ rel
				}
				drawn, req := cmp.A, cmp.B
				if !isDrawResult(drawn) {
					drawn, req = cmp.B, cmp.A
					rel = rel.Flip()
				}
				if !isDrawResult(drawn) {
					return false
				}
				p, isParam := core.Strip(req).(*ssa.Parameter)
				if !isParam {
					return false
				}
				// the same parameter was the amount requested from the traversal
				call := drawCall(drawn)
				passed := false
				for _, a := range call.Call.Args {
					if a == p {
						passed = true
					}
				}
				return passed && rel&core.LT == 0
			})
			if !ok {
				bad = "success return at " + c.P.Pos(ret.Pos()) + " is not conditional on 'amount drawn >= amount requested' (the comparison that turns a short draw into an insufficient-funds error)"
			}
		}
		if bad != "" {
			ob.Fail(key, c.P.Pos(fn.Pos()), bad)
		} else {
			ob.Pass(key, c.P.Pos(fn.Pos()), "succeeds only when the drawn amount is not less than the requested one; otherwise "+errType)
		}
	}
	if n == 0 {
		ob.Unknown("exact:none", "-", "no function building "+errType+" found")
	}
}

func isDrawResult(v ssa.Value) bool { return drawCall(v) != nil }

func drawCall(v ssa.Value) *ssa.Call {
	ex, ok := core.Strip(v).(*ssa.Extract)
	if !ok || ex.Index != 0 {
		return nil
	}
	call, ok := ex.Tuple.(*ssa.Call)
	if !ok {
		return nil
	}
	sc := call.Call.StaticCallee()
	if sc == nil {
		return nil
	}
	for _, p := range sc.Params {
		if core.IsNamedType(p.Type(), core.ModPath+"/internal/parser", "Source") {
			return call
		}
	}
	return nil
}

// NegativeTestStrict (C03.5 / C08.2): every negative-amount error is built under "amount < 0"
// exactly (zero is accepted).
func (c *Ctx) NegativeTestStrict(ob *core.Obligation, errType string) {
	n := 0
	for _, fn := range c.P.ModuleFunctions() {
		if relOfFn(fn) != "internal/interpreter" {
			continue
		}
		var pc *core.PathConds
		for _, b := range fn.Blocks {
			for _, in := range b.Instrs {
				al, ok := in.(*ssa.Alloc)
				if !ok || al.Comment != "complit" || typeShort(derefT(al.Type())) != errType {
					continue
				}
				n++
				c.Touch(fn)
				if pc == nil {
					pc = core.NewPathConds(fn)
				}
				key := "negtest:" + core.SSAName(fn)
				ok2 := pc.Requires(b, func(l core.Lit) bool {
					cmp, rel, is := core.DecodeCond(l.Cond)
					if !is {
						return false
					}
					if !l.Val {
						rel = core.ANY &^ rel
					}
					return rel == core.LT && (cmp.B == nil || isZeroBig(cmp.B))
				})
				if ok2 {
					ob.Pass(key, c.P.Pos(al.Pos()), errType+" only for amount < 0 (zero accepted)")
				} else {
					ob.Fail(key, c.P.Pos(al.Pos()), errType+" is not confined to 'amount strictly below zero': a send or save of 0 would be rejected (or a negative one accepted)")
				}
			}
		}
	}
	if n == 0 {
		ob.Unknown("negtest:none", "-", "no construction of "+errType+" found")
	}
}

var _ = fmt.Sprint
var _ = strings.Join
