package rules

import (
	"fmt"
	"go/token"
	"go/types"
	"sort"
	"strings"

	"nsa/core"

	"golang.org/x/tools/go/ssa"
)

// Sign analysis (DESIGN.md 3.8): a forward, path-sensitive may-be-negative analysis over the
// big-number cells of the interpreter. A sign is either ANY (may be negative) or "non-negative
// provided the parameters in deps are" - so helpers such as MinBigInt get a transfer summary
// instead of one verdict for all call sites. Sinks: the amounts queued as senders / receivers
// and placed in postings. Subtraction of big integers is treated optimistically (clean if both
// operands are clean: that "drawn <= requested" is the arithmetic contract NOT decided here);
// subtraction of rationals needs an ordering fact (y <= x) established by a comparison.

type sg struct {
	any  bool
	deps uint32
	// ref: non-negative only because a test or a clamp said so (its magnitude is unknown - it
	// may well be zero): subtracting from such a value is NOT treated optimistically
	ref bool
}

var sgNN = sg{}
var sgAny = sg{any: true}
var sgRef = sg{ref: true}

func sgJoin(a, b sg) sg {
	if a.any || b.any {
		return sgAny
	}
	return sg{deps: a.deps | b.deps, ref: a.ref || b.ref}
}

type signState struct {
	cells   map[string]sg
	leq     map[string]bool      // "a<=b"
	written map[string]bool      // cells rewritten in place on some path to here
	rep     map[string]ssa.Value // for a cell rewritten in place: a value that denotes it
}

func (s *signState) clone() *signState {
	n := &signState{cells: make(map[string]sg, len(s.cells)), leq: make(map[string]bool, len(s.leq)), written: make(map[string]bool, len(s.written)), rep: make(map[string]ssa.Value, len(s.rep))}
	for k, v := range s.cells {
		n.cells[k] = v
	}
	for k, v := range s.rep {
		n.rep[k] = v
	}
	for k := range s.leq {
		n.leq[k] = true
	}
	for k := range s.written {
		n.written[k] = true
	}
	return n
}

func (s *signState) equal(o *signState) bool {
	if len(s.cells) != len(o.cells) || len(s.leq) != len(o.leq) || len(s.written) != len(o.written) {
		return false
	}
	for k := range s.written {
		if !o.written[k] {
			return false
		}
	}
	for k, v := range s.cells {
		if ov, ok := o.cells[k]; !ok || ov != v {
			return false
		}
	}
	for k := range s.leq {
		if !o.leq[k] {
			return false
		}
	}
	return true
}

func (s *signState) kill(key string) {
	for k := range s.leq {
		if strings.HasPrefix(k, key+"<=") || strings.HasSuffix(k, "<="+key) {
			delete(s.leq, k)
		}
	}
}

type signSummary struct {
	ret     []sg // per result
	retElem []sg // per result: elements of a returned slice of numbers
	sinkReq uint32
	sinkWhy map[int]string
}

type SignCfg struct {
	Rel       string
	SinkField func(f *types.Var) (string, bool) // field whose stored value must be non-negative
	// NNFields: fields whose loaded value is non-negative by an obligation checked elsewhere
	// (the sink fields themselves) or by lexer class (digits-only literals).
	NNField func(f *types.Var) bool
	// NNCall: calls whose *big.Rat / *big.Int result is non-negative by a separately checked
	// invariant (portions are in [0,1]).
	NNCall func(call *ssa.Call) bool
	// SubMustBeOrdered: subtractions x - y for which optimism is not acceptable (pairing of
	// sender and receiver amounts): an ordering fact y <= x must hold at the call.
	SubMustBeOrdered func(x, y ssa.Value) bool
	// MustBeNNAtReturn: numbers (e.g. the saved account's balance in the save runner) that, once
	// rewritten in place, must be non-negative again whenever the function returns.
	MustBeNNAtReturn func(fn *ssa.Function) []ssa.Value
}

type signAn struct {
	c         *Ctx
	cfg       SignCfg
	fns       []*ssa.Function
	sum       map[*ssa.Function]*signSummary
	out       map[*ssa.Function]map[*ssa.BasicBlock]*signState
	elem      map[*ssa.Function]map[string]sg
	rep       []signFinding
	dirty     bool
	sinksSeen map[*ssa.Function][]string
	cloArg    map[*ssa.Function][]sg // closures called directly: join of the argument signs
}

type signFinding struct {
	fn   *ssa.Function
	pos  token.Pos
	sink string
	why  string
}

func isBigPtr(t types.Type) bool {
	p, ok := types.Unalias(t).Underlying().(*types.Pointer)
	if !ok {
		return false
	}
	return isBigVal(p.Elem())
}

// isBigVal: big.Int, big.Rat or a named type with the same underlying struct (MonetaryInt, Portion).
func isBigVal(t types.Type) bool {
	n, ok := types.Unalias(t).(*types.Named)
	if !ok {
		return false
	}
	for _, name := range []string{"Int", "Rat"} {
		if bn := bigPkgTypes[name]; bn != nil && types.Identical(n.Underlying(), bn.Underlying()) {
			return true
		}
	}
	return false
}

var bigPkgTypes = map[string]*types.Named{}

func isBigSlice(t types.Type) bool {
	s, ok := types.Unalias(t).Underlying().(*types.Slice)
	return ok && isBigPtr(s.Elem())
}

func isBigValueType(t types.Type) bool {
	return core.IsNamedType(t, "math/big", "Int") || core.IsNamedType(t, "math/big", "Rat")
}

// neverWrittenBig: no in-place big-number operation has the cell as its receiver, nothing is
// stored through it, and its address is only handed to calls as a (read) operand.
func neverWrittenBig(al *ssa.Alloc) bool {
	if al.Referrers() == nil {
		return true
	}
	for _, r := range *al.Referrers() {
		switch y := r.(type) {
		case *ssa.DebugRef, *ssa.Phi:
		case *ssa.Store:
			if y.Addr == ssa.Value(al) {
				return false
			}
		case ssa.CallInstruction:
			if tn, m := core.BigMethod(y.Common()); tn != "" && !bigReadersOnly[m] {
				if args := core.CallArgs(y.Common()); len(args) > 0 && args[0] == ssa.Value(al) {
					return false
				}
			}
		case *ssa.FieldAddr, *ssa.UnOp:
			return false
		}
	}
	return true
}

// cellKey names the storage a big-number pointer refers to.
func cellKey(v ssa.Value) string {
	for i := 0; i < 12; i++ {
		switch x := v.(type) {
		case *ssa.ChangeType:
			v = x.X
			continue
		case *ssa.Convert:
			v = x.X
			continue
		case *ssa.Alloc:
			// new(big.Int) that nothing ever writes: the number zero
			if x.Heap && isBigValueType(derefT(x.Type())) && neverWrittenBig(x) {
				return "const:0/1"
			}
		case *ssa.Call:
			obj := core.CalleeObj(&x.Call)
			if core.IsFunc(obj, "math/big", "NewInt") {
				if k, ok := core.ConstInt(core.Strip(x.Call.Args[0])); ok {
					return fmt.Sprintf("const:%d/1", k)
				}
			}
			if core.IsFunc(obj, "math/big", "NewRat") {
				a, ok1 := core.ConstInt(core.Strip(x.Call.Args[0]))
				b, ok2 := core.ConstInt(core.Strip(x.Call.Args[1]))
				if ok1 && ok2 {
					return fmt.Sprintf("const:%d/%d", a, b)
				}
			}
			if tn, m := core.BigMethod(&x.Call); tn != "" && !bigReadersOnly[m] && isBigPtr(x.Type()) {
				v = core.CallArgs(&x.Call)[0]
				continue
			}
			if tn, m := core.BigMethod(&x.Call); tn == "Rat" && (m == "Num" || m == "Denom") {
				return strings.ToLower(m) + "(" + cellKey(core.CallArgs(&x.Call)[0]) + ")"
			}
		}
		// a pointer variable assigned exactly once (possibly captured by closures): its cell
		if ld, ok := v.(*ssa.UnOp); ok && ld.Op == token.MUL && isBigPtr(ld.Type()) {
			if st := singleStoreEverywhere(ld.X); st != nil {
				v = st.Val
				continue
			}
		}
		break
	}
	return core.Canon(v)
}

// singleStoreEverywhere: addr is a local variable (or a closure's view of one) that is assigned
// exactly once, counting the function that declares it and every closure that captures it.
func singleStoreEverywhere(addr ssa.Value) *ssa.Store {
	var al *ssa.Alloc
	switch x := addr.(type) {
	case *ssa.Alloc:
		al = x
	case *ssa.FreeVar:
		// find the binding in the parent
		fn := x.Parent()
		idx := -1
		for i, fv := range fn.FreeVars {
			if fv == x {
				idx = i
			}
		}
		if par := fn.Parent(); par != nil && idx >= 0 {
			for _, b := range par.Blocks {
				for _, in := range b.Instrs {
					if mc, ok := in.(*ssa.MakeClosure); ok && mc.Fn == ssa.Value(fn) && idx < len(mc.Bindings) {
						if a2, ok := mc.Bindings[idx].(*ssa.Alloc); ok {
							al = a2
						}
					}
				}
			}
		}
	}
	if al == nil || al.Referrers() == nil {
		return nil
	}
	var stores []*ssa.Store
	okAll := true
	var visit func(v ssa.Value)
	visit = func(v ssa.Value) {
		if v.Referrers() == nil {
			return
		}
		for _, r := range *v.Referrers() {
			switch y := r.(type) {
			case *ssa.Store:
				if y.Addr == v {
					stores = append(stores, y)
				} else {
					okAll = false
				}
			case *ssa.MakeClosure:
				if f, ok := y.Fn.(*ssa.Function); ok {
					for bi, bv := range y.Bindings {
						if bv == v && bi < len(f.FreeVars) {
							visit(f.FreeVars[bi])
						}
					}
				}
			case *ssa.UnOp, *ssa.DebugRef:
			default:
				okAll = false
			}
		}
	}
	visit(al)
	if okAll && len(stores) == 1 {
		return stores[0]
	}
	return nil
}

func constSign(key string) (sg, bool) {
	if !strings.HasPrefix(key, "const:") {
		return sg{}, false
	}
	var a, b int64
	fmt.Sscanf(key, "const:%d/%d", &a, &b)
	if (a >= 0) == (b > 0) || a == 0 {
		return sgNN, true
	}
	return sgAny, true
}

// SignAnalysis runs the analysis over the package and reports possibly-negative values
// reaching a sink.
func (c *Ctx) SignAnalysis(ob *core.Obligation, cfg SignCfg) {
	for _, pkg := range c.P.All {
		if pkg.PkgPath == "math/big" {
			for _, n := range []string{"Int", "Rat"} {
				if tn, ok := pkg.Types.Scope().Lookup(n).(*types.TypeName); ok {
					bigPkgTypes[n], _ = tn.Type().(*types.Named)
				}
			}
		}
	}
	a := &signAn{c: c, cfg: cfg, sum: map[*ssa.Function]*signSummary{}, out: map[*ssa.Function]map[*ssa.BasicBlock]*signState{}, elem: map[*ssa.Function]map[string]sg{}}
	for _, fn := range c.P.ModuleFunctions() {
		r := relOfFn(fn)
		if r == cfg.Rel || r == "internal/utils" {
			a.fns = append(a.fns, fn)
			n := fn.Signature.Results().Len()
			a.sum[fn] = &signSummary{ret: make([]sg, n), retElem: make([]sg, n), sinkWhy: map[int]string{}}
			a.elem[fn] = map[string]sg{}
		}
	}
	for iter := 0; iter < 25; iter++ {
		a.dirty = false
		for _, fn := range a.fns {
			a.analyse(fn, false)
		}
		if !a.dirty {
			break
		}
	}
	for _, fn := range a.fns {
		a.analyse(fn, true)
	}
	// report per sink construct
	seen := map[string]bool{}
	for _, f := range a.rep {
		key := "sign:" + core.SSAName(f.fn) + ":" + f.sink
		if seen[key] {
			continue
		}
		seen[key] = true
		ob.Fail(key, c.P.Pos(f.pos), f.why)
	}
	for _, fn := range a.fns {
		c.Touch(fn)
		for _, s := range a.sinksSeen[fn] {
			key := "sign:" + core.SSAName(fn) + ":" + s
			if !seen[key] {
				seen[key] = true
				ob.Pass(key, c.P.Pos(fn.Pos()), "only values proved non-negative (tested, clamped, or built from non-negative parts) reach this sink")
			}
		}
	}
}

func (a *signAn) setRet(fn *ssa.Function, i int, s sg, elem bool) {
	sm := a.sum[fn]
	tgt := &sm.ret[i]
	if elem {
		tgt = &sm.retElem[i]
	}
	n := sgJoin(*tgt, s)
	if n != *tgt {
		*tgt = n
		a.dirty = true
	}
}

func (a *signAn) addReq(fn *ssa.Function, deps uint32, why string) {
	sm := a.sum[fn]
	if sm.sinkReq|deps != sm.sinkReq {
		sm.sinkReq |= deps
		a.dirty = true
	}
	for i := 0; i < 32; i++ {
		if deps&(1<<uint(i)) != 0 {
			if _, ok := sm.sinkWhy[i]; !ok {
				sm.sinkWhy[i] = why
			}
		}
	}
}

// elemBucket: slices, arrays and pointers to arrays of one element type share a bucket (an
// append goes through a one-element array).
func elemBucket(t types.Type) string {
	u := types.Unalias(t).Underlying()
	if p, ok := u.(*types.Pointer); ok {
		u = types.Unalias(p.Elem()).Underlying()
	}
	switch x := u.(type) {
	case *types.Slice:
		return "elem:" + types.Unalias(x.Elem()).String()
	case *types.Array:
		return "elem:" + types.Unalias(x.Elem()).String()
	}
	return u.String()
}

// analyse runs the block dataflow of one function.
func (a *signAn) analyse(fn *ssa.Function, report bool) {
	if a.sinksSeen == nil {
		a.sinksSeen = map[*ssa.Function][]string{}
	}
	outs := map[*ssa.BasicBlock]*signState{}
	a.out[fn] = outs
	order := fn.Blocks
	for round := 0; round < 30; round++ {
		changed := false
		for _, b := range order {
			in := a.inState(fn, b, outs)
			if in == nil {
				continue
			}
			st := in.clone()
			for _, instr := range b.Instrs {
				a.transfer(fn, b, instr, st, outs, report && false)
			}
			if old, ok := outs[b]; !ok || !old.equal(st) {
				outs[b] = st
				changed = true
			}
		}
		if !changed {
			break
		}
	}
	// final pass with reporting (states are stable)
	for _, b := range order {
		in := a.inState(fn, b, outs)
		if in == nil {
			continue
		}
		st := in.clone()
		for _, instr := range b.Instrs {
			a.transfer(fn, b, instr, st, outs, report)
		}
	}
}

// inState: meet of the predecessors' out-states refined by the branch taken.
func (a *signAn) inState(fn *ssa.Function, b *ssa.BasicBlock, outs map[*ssa.BasicBlock]*signState) *signState {
	if b == fn.Blocks[0] {
		return &signState{cells: map[string]sg{}, leq: map[string]bool{}, written: map[string]bool{}, rep: map[string]ssa.Value{}}
	}
	var acc *signState
	for _, p := range b.Preds {
		ps, ok := outs[p]
		if !ok {
			continue
		}
		es := a.edgeState(fn, p, b, ps, outs)
		if acc == nil {
			acc = es
			continue
		}
		// meet: keep keys present in both (join signs); a key present on one side only keeps
		// its value joined with "unknown" - conservatively we drop overrides that are not on
		// all paths unless the other side can recompute the same sign from the definition
		for k, v := range acc.cells {
			if ov, ok := es.cells[k]; ok {
				acc.cells[k] = sgJoin(v, ov)
			} else if val, wr := acc.rep[k]; wr && acc.written[k] {
				// rewritten in place on this side only: on the other side the cell still has
				// the sign its definition gives it - except for a cell that is only looked at by
				// the exit obligation "if this function rewrote it, it left it non-negative": a
				// path that did not rewrite it has nothing to answer for
				if a.exitOnly(fn, k) {
					continue
				}
				acc.cells[k] = sgJoin(v, a.signOf(fn, val, es, outs, 0))
			} else {
				delete(acc.cells, k)
			}
		}
		for k, ov := range es.cells {
			if _, ok := acc.cells[k]; ok {
				continue
			}
			if val, wr := es.rep[k]; wr && es.written[k] {
				if a.exitOnly(fn, k) {
					acc.cells[k] = ov
					acc.rep[k] = val
					continue
				}
				tmp := acc.clone()
				delete(tmp.cells, k)
				acc.cells[k] = sgJoin(ov, a.signOf(fn, val, tmp, outs, 0))
				acc.rep[k] = val
			}
		}
		for k := range acc.leq {
			if !es.leq[k] {
				delete(acc.leq, k)
			}
		}
		for k := range es.written {
			acc.written[k] = true
		}
	}
	return acc
}

// exitOnly: the cell is one of those the configuration only constrains at the function's
// returns (a balance this function may rewrite).
func (a *signAn) exitOnly(fn *ssa.Function, key string) bool {
	if a.cfg.MustBeNNAtReturn == nil {
		return false
	}
	for _, v := range a.cfg.MustBeNNAtReturn(fn) {
		if cellKey(v) == key {
			return true
		}
	}
	return false
}

// edgeState refines p's out-state by the condition of the edge p->b.
func (a *signAn) edgeState(fn *ssa.Function, p, b *ssa.BasicBlock, ps *signState, outs map[*ssa.BasicBlock]*signState) *signState {
	st := ps.clone()
	iff, ok := p.Instrs[len(p.Instrs)-1].(*ssa.If)
	if !ok || p.Succs[0] == p.Succs[1] {
		return st
	}
	cmp, rel, isCmp := core.DecodeCond(iff.Cond)
	if !isCmp {
		return st
	}
	if p.Succs[0] != b {
		rel = core.ANY &^ rel
	}
	ka := cellKey(cmp.A)
	if cmp.B == nil || isZeroBig(cmp.B) {
		if rel&core.LT == 0 {
			st.cells[ka] = sgRef
		}
		return st
	}
	kb := cellKey(cmp.B)
	sb := a.signOf(fn, cmp.B, st, outs, 0)
	sa := a.signOf(fn, cmp.A, st, outs, 0)
	if rel&core.LT == 0 { // A >= B
		st.leq[kb+"<="+ka] = true
		if !sb.any {
			st.cells[ka] = sgJoin(sgRef, sb)
		}
	}
	if rel&core.GT == 0 { // A <= B
		st.leq[ka+"<="+kb] = true
		_ = sa
	}
	return st
}

func (a *signAn) transfer(fn *ssa.Function, b *ssa.BasicBlock, in ssa.Instruction, st *signState, outs map[*ssa.BasicBlock]*signState, report bool) {
	switch x := in.(type) {
	case *ssa.Store:
		// copy of a big number value into a local
		if isBigVal(derefT(x.Addr.Type())) || isBigValPtr(x.Addr.Type()) {
			if ld, ok := core.Strip(x.Val).(*ssa.UnOp); ok && ld.Op == token.MUL {
				k := cellKey(x.Addr)
				st.cells[k] = a.signOf(fn, ld.X, st, outs, 0)
				st.kill(k)
			} else if _, ok := core.Strip(x.Val).(*ssa.Parameter); ok {
				// spill of a by-value parameter: keep definitional sign
			}
		}
		if isBigPtr(x.Val.Type()) {
			s := a.signOf(fn, x.Val, st, outs, 0)
			if f := core.FieldOf(x.Addr); f != nil && a.cfg.SinkField != nil {
				if name, ok := a.cfg.SinkField(f); ok {
					a.sink(fn, x.Pos(), name, s, report, "")
				}
			}
			if ia, ok := x.Addr.(*ssa.IndexAddr); ok {
				a.joinElem(fn, ia.X.Type(), s)
			}
		}
	case *ssa.Return:
		if a.cfg.MustBeNNAtReturn != nil {
			for _, v := range a.cfg.MustBeNNAtReturn(fn) {
				k := cellKey(v)
				if st.written[k] {
					a.sink(fn, x.Pos(), "exit:balance", a.signOf(fn, v, st, outs, 0), report, " (a balance rewritten by this function must not be left negative)")
				}
			}
		}
		for i, r := range x.Results {
			if isBigPtr(r.Type()) {
				a.setRet(fn, i, a.signOf(fn, r, st, outs, 0), false)
			}
			if isBigSlice(r.Type()) {
				a.setRet(fn, i, a.elemOf(fn, r.Type()), true)
			}
		}
	case ssa.CallInstruction:
		call := x.Common()
		if tn, m := core.BigMethod(call); tn != "" {
			if bigReadersOnly[m] {
				return
			}
			args := core.CallArgs(call)
			k := cellKey(args[0])
			if m == "Sub" && tn == "Int" && a.cfg.SubMustBeOrdered != nil && a.cfg.SubMustBeOrdered(args[1], args[2]) {
				a.sinksSeen[fn] = appendUnique(a.sinksSeen[fn], "ordered-sub")
				if !st.leq[cellKey(args[2])+"<="+cellKey(args[1])] && report {
					a.rep = append(a.rep, signFinding{fn: fn, pos: x.Pos(), sink: "ordered-sub", why: "a sender amount and a receiver amount are subtracted without a comparison establishing which is larger on this path: the difference can be negative (the regular pairing branch enumerates <, =, > first)"})
				}
			}
			ns := a.opSign(fn, tn, m, args, st, outs)
			st.cells[k] = ns
			st.kill(k)
			st.written[k] = true
			st.rep[k] = args[0]
			// in-place update of a slice element
			if ld, ok := args[0].(*ssa.UnOp); ok {
				if ia, ok := ld.X.(*ssa.IndexAddr); ok {
					a.joinElem(fn, ia.X.Type(), ns)
				}
			}
			return
		}
		callee := call.StaticCallee()
		if callee == nil {
			return
		}
		if callee.Parent() != nil && !closureEscapes(callee) {
			// a closure called directly: its parameters take the signs of the arguments
			if a.cloArg == nil {
				a.cloArg = map[*ssa.Function][]sg{}
			}
			cur := a.cloArg[callee]
			if cur == nil {
				cur = make([]sg, len(callee.Params))
				for i := range cur {
					cur[i] = sgNN
				}
				a.cloArg[callee] = cur
				a.dirty = true
			}
			for i, arg := range call.Args {
				if i >= len(cur) || !(isBigPtr(arg.Type()) || isBigSlice(arg.Type())) {
					continue
				}
				var s2 sg
				if isBigSlice(arg.Type()) {
					s2 = a.elemOf2(fn, arg, st, outs, 0)
				} else {
					s2 = a.signOf(fn, arg, st, outs, 0)
				}
				if rootFn(fn) != rootFn(callee) {
					s2.deps = 0
					s2.any = true // dependencies only make sense within one enclosing function
				}
				if n := sgJoin(cur[i], s2); n != cur[i] {
					cur[i] = n
					a.dirty = true
				}
			}
		}
		sm := a.sum[callee]
		if sm == nil {
			return
		}
		args := call.Args
		for i := 0; i < len(args) && i < 32; i++ {
			if sm.sinkReq&(1<<uint(i)) == 0 {
				continue
			}
			var s sg
			if isBigSlice(args[i].Type()) {
				s = a.elemOf(fn, args[i].Type())
			} else {
				s = a.signOf(fn, args[i], st, outs, 0)
			}
			a.sink(fn, x.Pos(), "arg:"+callee.Name()+"#"+fmt.Sprint(i), s, report, " (it is "+sm.sinkWhy[i]+")")
		}
	}
}

func isBigValPtr(t types.Type) bool { return isBigPtr(t) }

// closureEscapes: the closure value is used for something other than being called.
func closureEscapes(f *ssa.Function) bool {
	par := f.Parent()
	if par == nil {
		return true
	}
	for _, b := range par.Blocks {
		for _, in := range b.Instrs {
			mc, ok := in.(*ssa.MakeClosure)
			if !ok || mc.Fn != ssa.Value(f) || mc.Referrers() == nil {
				continue
			}
			for _, r := range *mc.Referrers() {
				switch y := r.(type) {
				case *ssa.DebugRef:
				case ssa.CallInstruction:
					if y.Common().Value != ssa.Value(mc) {
						return true
					}
				default:
					return true
				}
			}
		}
	}
	return false
}

func rootFn(fn *ssa.Function) *ssa.Function {
	for fn.Parent() != nil {
		fn = fn.Parent()
	}
	return fn
}

func (a *signAn) joinElem(fn *ssa.Function, sliceT types.Type, s sg) {
	fn = rootFn(fn) // closures fill the slices of the function they live in
	if a.elem[fn] == nil {
		a.elem[fn] = map[string]sg{}
	}
	k := elemBucket(sliceT)
	old, ok := a.elem[fn][k]
	n := s
	if ok {
		n = sgJoin(old, s)
	}
	if !ok || n != old {
		a.elem[fn][k] = n
		a.dirty = true
	}
}

func (a *signAn) elemOf(fn *ssa.Function, sliceT types.Type) sg {
	fn = rootFn(fn)
	if s, ok := a.elem[fn][elemBucket(sliceT)]; ok {
		return s
	}
	return sgNN // no element ever stored
}

// sink: s flows into a place that must be non-negative.
func (a *signAn) sink(fn *ssa.Function, pos token.Pos, name string, s sg, report bool, extra string) {
	a.sinksSeen[fn] = appendUnique(a.sinksSeen[fn], name)
	if s.any {
		if report {
			a.rep = append(a.rep, signFinding{fn: fn, pos: pos, sink: name, why: "a possibly negative amount reaches " + name + extra + " without a sign test or clamp on every path: negative postings / balances moving the wrong way"})
		}
		return
	}
	if s.deps != 0 {
		// inside a closure the dependencies are on the parameters of the enclosing function
		a.addReq(rootFn(fn), s.deps, "passed on to "+name+" in "+fn.Name())
	}
}

func appendUnique(xs []string, s string) []string {
	for _, x := range xs {
		if x == s {
			return xs
		}
	}
	xs = append(xs, s)
	sort.Strings(xs)
	return xs
}

func (a *signAn) opSign(fn *ssa.Function, tn, m string, args []ssa.Value, st *signState, outs map[*ssa.BasicBlock]*signState) sg {
	s := func(i int) sg {
		if i < len(args) && isBigPtr(args[i].Type()) {
			return a.signOf(fn, args[i], st, outs, 0)
		}
		return sgAny
	}
	switch m {
	case "Set", "SetInt", "Abs", "Sqrt":
		if m == "Abs" {
			return sgNN
		}
		return s(1)
	case "SetInt64":
		if k, ok := core.ConstInt(core.Strip(args[1])); ok && k >= 0 {
			return sgRef
		}
		return sgAny
	case "SetUint64", "SetBit", "SetBits", "SetBytes":
		return sgNN
	case "Add", "Mul":
		return sgJoin(s(1), s(2))
	case "Sub":
		ka, kb := cellKey(args[1]), cellKey(args[2])
		if st.leq[kb+"<="+ka] {
			r := sgJoin(s(1), s(2))
			r.ref = true
			return r
		}
		if tn == "Int" {
			x, y := s(1), s(2)
			if _, isConst := constSign(ka); isConst {
				x.ref = true // a constant has a known, possibly zero, magnitude
			}
			// optimistic (see the file comment) only between values that are clean by
			// construction; a value that is merely clamped/tested may be zero
			if !x.any && !y.any && !x.ref && !y.ref {
				return sgJoin(x, y)
			}
		}
		return sgAny
	case "Div", "Quo", "Mod", "Rem", "SetFrac", "Exp":
		return sgJoin(s(1), s(2))
	case "Inv":
		return s(1)
	case "Neg":
		return sgAny
	}
	return sgAny
}

// signOf evaluates the sign of the number a pointer value refers to, in state st.
func (a *signAn) signOf(fn *ssa.Function, v ssa.Value, st *signState, outs map[*ssa.BasicBlock]*signState, depth int) sg {
	if depth > 12 {
		return sgAny
	}
	k := cellKey(v)
	if s, ok := st.cells[k]; ok {
		return s
	}
	if s, ok := constSign(k); ok {
		return s
	}
	for {
		switch x := v.(type) {
		case *ssa.ChangeType:
			v = x.X
			continue
		case *ssa.Convert:
			v = x.X
			continue
		}
		break
	}
	switch x := v.(type) {
	case *ssa.Const:
		return sgNN
	case *ssa.Alloc:
		// fresh number (zero) unless a value was copied in (handled by the Store transfer)
		if st2 := onlyStore(x); st2 != nil {
			if p, ok := st2.Val.(*ssa.Parameter); ok {
				if i := paramIndex(fn, p); i >= 0 && i < 32 {
					return sg{deps: 1 << uint(i)}
				}
			}
			if ld, ok := core.Strip(st2.Val).(*ssa.UnOp); ok && ld.Op == token.MUL {
				return a.signOf(fn, ld.X, st, outs, depth+1)
			}
		}
		return sgNN
	case *ssa.Parameter:
		if fn.Parent() != nil {
			// a closure: what its direct calls pass (it must not escape)
			if args, ok := a.cloArg[fn]; ok {
				if i := paramIndex(fn, x); i >= 0 && i < len(args) {
					return args[i]
				}
			}
			return sgAny
		}
		if i := paramIndex(fn, x); i >= 0 && i < 32 {
			return sg{deps: 1 << uint(i)}
		}
		return sgAny
	case *ssa.Phi:
		res := sgNN
		for i, e := range x.Edges {
			p := x.Block().Preds[i]
			ps, ok := outs[p]
			if !ok {
				continue
			}
			es := a.edgeState(fn, p, x.Block(), ps, outs)
			res = sgJoin(res, a.signOf(fn, e, es, outs, depth+1))
		}
		return res
	case *ssa.FieldAddr:
		if f := core.FieldOf(x); f != nil && a.cfg.NNField != nil && a.cfg.NNField(f) {
			return sgNN
		}
		return sgAny
	case *ssa.UnOp:
		if x.Op != token.MUL {
			return sgAny
		}
		if f := core.FieldOf(x.X); f != nil {
			if a.cfg.NNField != nil && a.cfg.NNField(f) {
				return sgNN
			}
			return sgAny
		}
		if ia, ok := x.X.(*ssa.IndexAddr); ok {
			return a.elemOf2(fn, ia.X, st, outs, depth)
		}
		if al, ok := x.X.(*ssa.Alloc); ok {
			// local pointer variable: join of what was stored
			res := sgNN
			n := 0
			if al.Referrers() != nil {
				for _, r := range *al.Referrers() {
					if s2, ok := r.(*ssa.Store); ok && s2.Addr == al {
						n++
						res = sgJoin(res, a.signOf(fn, s2.Val, st, outs, depth+1))
					}
				}
			}
			if n == 0 {
				return sgNN
			}
			return res
		}
		return sgAny
	case *ssa.Extract:
		if call, ok := x.Tuple.(*ssa.Call); ok {
			return a.callSign(fn, call, x.Index, st, outs, depth)
		}
		return sgAny
	case *ssa.Call:
		if tn, m := core.BigMethod(&x.Call); tn != "" {
			args := core.CallArgs(&x.Call)
			if tn == "Rat" && m == "Denom" {
				return sgNN
			}
			if tn == "Rat" && m == "Num" {
				return a.signOf(fn, args[0], st, outs, depth+1)
			}
			// result aliases the receiver whose state entry is missing: recompute
			return a.opSign(fn, tn, m, args, st, outs)
		}
		return a.callSign(fn, x, 0, st, outs, depth)
	}
	return sgAny
}

// elemOf2: sign of an element of slice value s (a local bucket, or the elements of a slice
// returned by a module function).
func (a *signAn) elemOf2(fn *ssa.Function, s ssa.Value, st *signState, outs map[*ssa.BasicBlock]*signState, depth int) sg {
	switch x := s.(type) {
	case *ssa.Extract:
		if call, ok := x.Tuple.(*ssa.Call); ok {
			if callee := call.Call.StaticCallee(); callee != nil && a.sum[callee] != nil {
				return a.mapDeps(fn, a.sum[callee].retElem[x.Index], call, st, outs, depth)
			}
		}
	case *ssa.Call:
		if callee := x.Call.StaticCallee(); callee != nil && a.sum[callee] != nil && len(a.sum[callee].retElem) > 0 {
			return a.mapDeps(fn, a.sum[callee].retElem[0], x, st, outs, depth)
		}
	case *ssa.Parameter:
		if i := paramIndex(fn, x); i >= 0 && i < 32 {
			return sg{deps: 1 << uint(i)}
		}
	}
	return a.elemOf(fn, s.Type())
}

func (a *signAn) callSign(fn *ssa.Function, call *ssa.Call, idx int, st *signState, outs map[*ssa.BasicBlock]*signState, depth int) sg {
	if a.cfg.NNCall != nil && a.cfg.NNCall(call) {
		return sgNN
	}
	callee := call.Call.StaticCallee()
	if callee == nil {
		return sgAny
	}
	sm := a.sum[callee]
	if sm == nil || idx >= len(sm.ret) {
		return sgAny
	}
	return a.mapDeps(fn, sm.ret[idx], call, st, outs, depth)
}

// mapDeps instantiates a summary sign at a call site.
func (a *signAn) mapDeps(fn *ssa.Function, s sg, call *ssa.Call, st *signState, outs map[*ssa.BasicBlock]*signState, depth int) sg {
	if s.any {
		return sgAny
	}
	res := sgNN
	args := call.Call.Args
	for i := 0; i < len(args) && i < 32; i++ {
		if s.deps&(1<<uint(i)) == 0 {
			continue
		}
		if isBigSlice(args[i].Type()) {
			res = sgJoin(res, a.elemOf2(fn, args[i], st, outs, depth+1))
		} else {
			res = sgJoin(res, a.signOf(fn, args[i], st, outs, depth+1))
		}
	}
	return res
}

// PortionRangeChecked: every successful return of the portion reader (the function that turns
// variable text into a *big.Rat) is reached only after the value was compared >= 0 and <= 1.
func (c *Ctx) PortionRangeChecked(ob *core.Obligation) {
	fn := c.P.SSAFunc(c.P.LookupFunc("internal/interpreter", "ParsePortionSpecific"))
	if fn == nil {
		ob.Unknown("anchor:interpreter.ParsePortionSpecific", "-", "portion reader not found")
		return
	}
	c.Touch(fn)
	pc := core.NewPathConds(fn)
	n := 0
	for _, ret := range core.Returns(fn) {
		if core.IsNilConst(ret.Results[0]) {
			continue
		}
		n++
		key := "portion-range:" + core.SSAName(fn)
		want := core.Canon(ret.Results[0])
		lo, hi := true, true
		for _, term := range pc.At(ret.Block()) {
			tlo, thi := false, false
			for _, l := range term {
				cmp, rel, ok := core.DecodeCond(l.Cond)
				if !ok || core.Canon(core.Strip(cmp.A)) != want {
					continue
				}
				if !l.Val {
					rel = core.ANY &^ rel
				}
				if cmp.B == nil { // x.Sign()
					if rel&core.LT == 0 {
						tlo = true
					}
					continue
				}
				k, isK := bigRatConst(cmp.B)
				if isK && k == 0 && rel&core.LT == 0 {
					tlo = true
				}
				if isK && k == 1 && rel&core.GT == 0 {
					thi = true
				}
			}
			lo = lo && tlo
			hi = hi && thi
		}
		switch {
		case !lo:
			ob.Fail(key, c.P.Pos(ret.Pos()), "a portion can be returned without having been compared >= 0: negative portions would flow into allotments")
		case !hi:
			ob.Fail(key, c.P.Pos(ret.Pos()), "a portion can be returned without having been compared <= 1")
		default:
			ob.Pass(key, c.P.Pos(ret.Pos()), "returned only after 0 <= value <= 1 was established")
		}
	}
	if n == 0 {
		ob.Unknown("portion-range:"+core.SSAName(fn), "-", "no successful return found")
	}
}
