package rules

import (
	"fmt"
	"go/token"
	"go/types"
	"strings"

	"golang.org/x/tools/go/ssa"

	"nsa/core"
	"nsa/model"
)

// Rules added after the second round of seeded changes.

// ---------- shallow copies of numbers are never rewritten ----------

// ShallowCopyNeverMutated: `bi := big.Int(m)` copies the struct but shares the digit slice
// with m. A mutating big-number method whose receiver is such a local copy (or a big-number
// field of a local copy of a struct) writes into the digits of the original. Every in-place
// operation must work on a number that was created empty (new(big.Int), a zero literal).
func (c *Ctx) ShallowCopyNeverMutated(ob *core.Obligation, reachKey string, roots []*ssa.Function) {
	fns, reach := c.reachableModule(reachKey, roots)
	n := 0
	for _, fn := range fns {
		for _, ci := range core.Calls(fn) {
			tn, m := core.BigMethod(ci.Common())
			if tn == "" || bigReadersOnly[m] {
				continue
			}
			args := core.CallArgs(ci.Common())
			if len(args) == 0 {
				continue
			}
			n++
			recv := args[0]
			al := rootAlloc(recv)
			if al == nil {
				continue
			}
			if _, isStruct := derefT(al.Type()).Underlying().(*types.Struct); !isStruct {
				continue
			}
			// a reset to zero only truncates the digit slice
			if zeroArgs(m, args) {
				continue
			}
			if src := copiedFrom(al); src != nil {
				c.Touch(fn)
				ob.Fail("shallow-copy:"+core.SSAName(fn)+":"+tn+"."+m, c.P.Pos(ci.Pos()),
					fmt.Sprintf("big.%s.%s rewrites a local that is a shallow copy of another number (%s): the copy shares its digits with the original, whose value changes under its holder (reached via %s)", tn, m, core.ShortVal(src), core.Path(reach, fn)))
			}
		}
	}
	ob.Pass("shallow-copy:scanned", "-", fmt.Sprintf("%d in-place big-number operations examined; none has a shallow copy of another number as receiver", n))
}

func zeroArgs(m string, args []ssa.Value) bool {
	if m != "SetInt64" && m != "SetUint64" {
		return false
	}
	k, ok := core.ConstInt(core.Strip(args[1]))
	return ok && k == 0
}

// copiedFrom: the local is (somewhere) assigned a whole struct value that is not a zero
// literal: a copy of an existing value.
func copiedFrom(al *ssa.Alloc) ssa.Value {
	if al.Referrers() == nil {
		return nil
	}
	for _, r := range *al.Referrers() {
		st, ok := r.(*ssa.Store)
		if !ok || st.Addr != ssa.Value(al) {
			continue
		}
		v := st.Val
		for {
			switch x := v.(type) {
			case *ssa.ChangeType:
				v = x.X
				continue
			case *ssa.Convert:
				v = x.X
				continue
			}
			break
		}
		if k, ok := v.(*ssa.Const); ok && k.Value == nil {
			continue // zero literal
		}
		// a load from a fresh, untouched local is a zero value as well
		if ld, ok := v.(*ssa.UnOp); ok && ld.Op == token.MUL {
			if a2, ok := ld.X.(*ssa.Alloc); ok && allocUntouched(a2) {
				continue
			}
			// *new(big.Int).Op(...): a copy of a number nobody else holds
			if call, ok := ld.X.(*ssa.Call); ok {
				if tn, m := core.BigMethod(&call.Call); tn != "" && !bigReadersOnly[m] {
					if a2 := rootAlloc(core.CallArgs(&call.Call)[0]); a2 != nil && a2.Heap && copiedFrom(a2) == nil {
						continue
					}
				}
				if core.IsFunc(core.CalleeObj(&call.Call), "math/big", "NewInt") || core.IsFunc(core.CalleeObj(&call.Call), "math/big", "NewRat") {
					continue
				}
			}
		}
		return v
	}
	return nil
}

// ---------- the available balance is returned unaltered ----------

// ReaderReturnsUnaltered: the reader that bounds a draw returns (cached balance) - (pending
// draws of the statement) and nothing else: the number it returns is written only by Set from
// a cache read and by Sub of pending sender amounts. A clamp or any other adjustment inside
// the reader would be applied BEFORE the overdraft grant is added by the callers.
func (c *Ctx) ReaderReturnsUnaltered(ob *core.Obligation, r *Roles) {
	if r == nil {
		return
	}
	n := 0
	for _, fn := range c.P.ModuleFunctions() {
		if relOfFn(fn) != "internal/interpreter" || !r.IsBalanceReader(fn) || !r.readsField(fn, r.SendersF, 0) {
			continue
		}
		// only the function that itself scans the pending senders
		direct := false
		for _, b := range fn.Blocks {
			for _, in := range b.Instrs {
				if ld, ok := in.(*ssa.UnOp); ok && ld.Op == token.MUL && core.FieldOf(ld.X) == r.SendersF {
					direct = true
				}
			}
		}
		if !direct {
			continue
		}
		n++
		c.Touch(fn)
		key := "reader-unaltered:" + core.SSAName(fn)
		bad := ""
		var badPos token.Pos
		for _, ret := range core.Returns(fn) {
			if len(ret.Results) == 0 {
				continue
			}
			k0 := cellKey(ret.Results[0])
			for _, ci := range core.Calls(fn) {
				tn, m := core.BigMethod(ci.Common())
				if tn == "" || bigReadersOnly[m] {
					continue
				}
				args := core.CallArgs(ci.Common())
				if cellKey(args[0]) != k0 {
					continue
				}
				okWrite := false
				switch m {
				case "Set":
					if call, ok := core.Strip(args[1]).(*ssa.Call); ok && call.Call.StaticCallee() != nil && r.IsBalanceReader(call.Call.StaticCallee()) {
						okWrite = true
					}
				case "Sub":
					if cellKey(args[1]) == k0 || isReaderCall(args[1], r) {
						if f := postingFieldOf(args[2]); f == r.SenderAmt {
							okWrite = true
						}
						if isPendingSum(fn, args[2], r) {
							okWrite = true // the pending draws added up in a local
						}
						if call, ok := core.Strip(args[2]).(*ssa.Call); ok && call.Call.StaticCallee() != nil && c.P.InModule(call.Call.StaticCallee()) {
							okWrite = true // a helper of the module that adds up the pending draws
						}
					}
				}
				if !okWrite {
					bad = fmt.Sprintf("the balance that bounds a draw is adjusted inside the reader by big.Int.%s: callers add the overdraft grant to it afterwards, so the account can give more (or less) than balance + grant", m)
					badPos = ci.Pos()
				}
			}
		}
		if bad != "" {
			ob.Fail(key, c.P.Pos(badPos), bad)
		} else {
			ob.Pass(key, c.P.Pos(fn.Pos()), "returns the cached balance minus the pending draws, untouched otherwise")
		}
	}
	if n == 0 {
		ob.Unknown("reader-unaltered:none", "-", "no balance reader that scans the pending senders found")
	}
}

// isPendingSum: v is a local number every in-place operation on which adds a pending sender
// amount to it.
func isPendingSum(fn *ssa.Function, v ssa.Value, r *Roles) bool {
	key := cellKey(v)
	n := 0
	for _, ci := range core.Calls(fn) {
		tn, m := core.BigMethod(ci.Common())
		if tn == "" || bigReadersOnly[m] {
			continue
		}
		args := core.CallArgs(ci.Common())
		if cellKey(args[0]) != key {
			continue
		}
		if m != "Add" || cellKey(args[1]) != key || postingFieldOf(args[2]) != r.SenderAmt {
			return false
		}
		n++
	}
	return n > 0
}

func isReaderCall(v ssa.Value, r *Roles) bool {
	call, ok := core.Strip(v).(*ssa.Call)
	return ok && call.Call.StaticCallee() != nil && r.IsBalanceReader(call.Call.StaticCallee())
}

// ---------- loops of a traversal ----------

// loopInfo describes a range/for loop by its head.
type loopInfo struct {
	head, body, done *ssa.BasicBlock
}

func loopsOf(fn *ssa.Function) []loopInfo {
	var out []loopInfo
	for _, b := range fn.Blocks {
		iff, ok := b.Instrs[len(b.Instrs)-1].(*ssa.If)
		if !ok || len(b.Succs) != 2 {
			continue
		}
		if _, isCmp := iff.Cond.(*ssa.BinOp); !isCmp {
			continue
		}
		// a loop head dominates one of its predecessors
		back := false
		for _, p := range b.Preds {
			if b.Dominates(p) {
				back = true
			}
		}
		if back {
			out = append(out, loopInfo{head: b, body: b.Succs[0], done: b.Succs[1]})
		}
	}
	return out
}

func (l loopInfo) contains(b *ssa.BasicBlock) bool {
	return b == l.head || (l.body.Dominates(b) && core.ReachableAvoiding(b, l.head, nil))
}

// earlyExits: the edges that leave the loop from inside its body and go on to the code after
// the loop (not straight into a return of an error).
func (l loopInfo) earlyExits(fn *ssa.Function) [][2]*ssa.BasicBlock {
	var out [][2]*ssa.BasicBlock
	for _, b := range fn.Blocks {
		if b == l.head || !l.contains(b) {
			continue
		}
		for _, s := range b.Succs {
			if l.contains(s) {
				continue
			}
			out = append(out, [2]*ssa.BasicBlock{b, s})
		}
	}
	return out
}

// returnsErrorOnly: every return reachable from b is an error exit: it returns an error
// built on the spot, or an error value that the path has tested to be non-nil.
func returnsErrorOnly(fn *ssa.Function, b *ssa.BasicBlock, pc *core.PathConds) bool {
	any := false
	for _, ret := range core.Returns(fn) {
		if !core.ReachableAvoiding(b, ret.Block(), nil) {
			continue
		}
		any = true
		if !errorReturn(fn, ret, pc) {
			return false
		}
	}
	return any
}

func errorReturn(fn *ssa.Function, ret *ssa.Return, pc *core.PathConds) bool {
	ei := errIndex(fn.Signature)
	if ei < 0 || ei >= len(ret.Results) {
		return false
	}
	if rejectingReturn(ret, fn) {
		return true
	}
	e := ret.Results[ei]
	if core.IsNilConst(e) {
		return false
	}
	return pc.Requires(ret.Block(), func(l core.Lit) bool {
		bo, ok := l.Cond.(*ssa.BinOp)
		if !ok || (bo.Op != token.NEQ && bo.Op != token.EQL) {
			return false
		}
		var other ssa.Value
		if core.IsNilConst(bo.Y) {
			other = bo.X
		} else if core.IsNilConst(bo.X) {
			other = bo.Y
		}
		return other == e && (bo.Op == token.NEQ) == l.Val
	})
}

// OrderedDestinationStopsOnlyWhenEmpty: in the loop over the clauses of an ordered
// destination, leaving the loop early (break) is right only when nothing is left to
// distribute: every early exit edge requires `remaining == 0` for the number the loop
// subtracts from. Any other reason (a zero cap, ...) would starve the clauses that follow.
func (c *Ctx) OrderedDestinationStopsOnlyWhenEmpty(ob *core.Obligation, receive *ssa.Function) {
	if receive == nil {
		return
	}
	dst := c.P.Named("internal/parser", "Destination")
	type region struct {
		fn    *ssa.Function
		entry *ssa.BasicBlock
	}
	var regions []region
	if e := clauseEntries(receive, dst)["DestinationInorder"]; e != nil {
		regions = append(regions, region{receive, e})
		for _, call := range callsIn(receive, e, func(sc *ssa.Function) bool {
			return sc != receive && len(sc.Blocks) > 0 && relOfFn(sc) == relOfFn(receive) && len(clauseEntries(sc, dst)) <= 1
		}) {
			regions = append(regions, region{call.Call.StaticCallee(), nil})
		}
	}
	n := 0
	for _, rg := range regions {
		pc := core.NewPathConds(rg.fn)
		for _, l := range loopsOf(rg.fn) {
			if rg.entry != nil && !rg.entry.Dominates(l.head) {
				continue
			}
			// what is left: the operand, other than the clause's own cap, of the verified minimum
			// handed to a clause inside the loop
			acc := ""
			minOK := map[*ssa.Function]bool{}
			for _, ci := range core.Calls(rg.fn) {
				if !l.contains(ci.Block()) {
					continue
				}
				for _, arg := range ci.Common().Args {
					if !isBigPtrStd(arg.Type()) {
						continue
					}
					a, b, isMin := c.minCallOperands(arg, minOK)
					if !isMin {
						continue
					}
					if c.evaluatedFrom(a, rg.fn, "DestinationInorderClause.Cap") {
						acc = ptrCell(b)
					} else if c.evaluatedFrom(b, rg.fn, "DestinationInorderClause.Cap") {
						acc = ptrCell(a)
					}
				}
			}
			if acc == "" {
				continue
			}
			n++
			c.Touch(rg.fn)
			key := "ordered-stop:" + core.SSAName(rg.fn)
			bad := false
			for _, e := range l.earlyExits(rg.fn) {
				if returnsErrorOnly(rg.fn, e[1], pc) {
					continue
				}
				okEdge := pc.EdgeRequires(e[0], e[1], func(lit core.Lit) bool {
					cell, ord, ok := cmp3Literal(lit)

					return ok && cell == acc && ord == "eq0"
				})
				if !okEdge {
					bad = true
					ob.Fail(key, c.P.Pos(lastPos(e[0])), "the loop over the clauses of an ordered destination is left early although something may remain to distribute: the clauses that follow receive nothing and `remaining` receives too much")
				}
			}
			if !bad {
				ob.Pass(key, c.P.Pos(firstPos(l.head)), "the clause loop is only left early when the amount left is zero")
			}
		}
	}
	if n == 0 {
		ob.Unknown("ordered-stop:none", "-", "no loop over the clauses of an ordered destination found")
	}
}

// ptrCell is cellKey that also sees through a pointer variable captured by closures when the
// variable is assigned exactly once (in the function or in the closures that capture it).
func ptrCell(v ssa.Value) string {
	if ld, ok := core.Strip(v).(*ssa.UnOp); ok && ld.Op == token.MUL {
		if al, ok := ld.X.(*ssa.Alloc); ok && al.Referrers() != nil {
			var stores []*ssa.Store
			okAll := true
			for _, r := range *al.Referrers() {
				switch x := r.(type) {
				case *ssa.Store:
					if x.Addr == ssa.Value(al) {
						stores = append(stores, x)
					} else {
						okAll = false
					}
				case *ssa.MakeClosure:
					if f, ok := x.Fn.(*ssa.Function); ok {
						for bi, bv := range x.Bindings {
							if bv != ssa.Value(al) || bi >= len(f.FreeVars) || f.FreeVars[bi].Referrers() == nil {
								continue
							}
							for _, r2 := range *f.FreeVars[bi].Referrers() {
								switch y := r2.(type) {
								case *ssa.Store:
									if y.Addr == ssa.Value(f.FreeVars[bi]) {
										stores = append(stores, y)
									}
								case *ssa.UnOp, *ssa.DebugRef:
								default:
									okAll = false
								}
							}
						}
					}
				case *ssa.UnOp, *ssa.DebugRef:
				default:
					okAll = false
				}
			}
			if okAll && len(stores) == 1 {
				return cellKey(stores[0].Val)
			}
		}
	}
	return cellKey(v)
}

func lastPos(b *ssa.BasicBlock) token.Pos {
	for i := len(b.Instrs) - 1; i >= 0; i-- {
		if p := b.Instrs[i].Pos(); p.IsValid() {
			return p
		}
	}
	return firstPos(b)
}

// cmp3Literal decodes a literal `x.Cmp(zero) OP k` / `x.Sign() OP k` into the cell of x and
// whether the literal (with its truth value) says x == 0 ("eq0"); other outcomes give "".
func cmp3Literal(l core.Lit) (string, string, bool) {
	bo, ok := l.Cond.(*ssa.BinOp)
	if !ok {
		return "", "", false
	}
	call, ok := core.Strip(bo.X).(*ssa.Call)
	if !ok {
		return "", "", false
	}
	k, ok := core.ConstInt(bo.Y)
	if !ok {
		return "", "", false
	}
	tn, m := core.BigMethod(&call.Call)
	if tn == "" {
		return "", "", false
	}
	args := core.CallArgs(&call.Call)
	switch m {
	case "Sign":
	case "Cmp":
		if s, isConst := constSign(cellKey(args[1])); !isConst || cellKey(args[1]) != "const:0/1" {
			_ = s
			return "", "", false
		}
	default:
		return "", "", false
	}
	cell := ptrCell(args[0])
	eq := (bo.Op == token.EQL && k == 0 && l.Val) || (bo.Op == token.NEQ && k == 0 && !l.Val)
	if eq {
		return cell, "eq0", true
	}
	return cell, "", true
}

// ---------- validation before success ----------

// AllotmentValidatedBeforeSuccess: in every traversal arm for an allotment (source or
// destination), no successful return is reachable without passing through the call of the
// allotment function, which is where the portions are checked to add up to one.
func (c *Ctx) AllotmentValidatedBeforeSuccess(ob *core.Obligation) {
	// the validating function: the one that builds the sum error
	validators := map[*ssa.Function]bool{}
	for _, g := range c.P.ModuleFunctions() {
		if relOfFn(g) != "internal/interpreter" {
			continue
		}
		for _, b := range g.Blocks {
			for _, in := range b.Instrs {
				if al, ok := in.(*ssa.Alloc); ok && typeShort(derefT(al.Type())) == "InvalidAllotmentSum" {
					validators[g] = true
				}
			}
		}
	}
	if len(validators) == 0 {
		ob.Unknown("validated:none", "-", "no function that checks the sum of the portions found")
		return
	}
	memo := map[*ssa.Function]int{}
	var always func(fn *ssa.Function, entry *ssa.BasicBlock, depth int) (bool, token.Pos)
	// always: every non-error return reachable from entry passes through a validating call
	always = func(fn *ssa.Function, entry *ssa.BasicBlock, depth int) (bool, token.Pos) {
		vb := map[*ssa.BasicBlock]bool{}
		for _, ci := range core.Calls(fn) {
			sc := ci.Common().StaticCallee()
			if sc == nil {
				continue
			}
			if validators[sc] {
				vb[ci.Block()] = true
				continue
			}
			if depth < 3 && len(sc.Blocks) > 0 && c.P.InModule(sc) && sc != fn {
				st, seen := memo[sc]
				if !seen {
					memo[sc] = 2
					if ok, _ := always(sc, sc.Blocks[0], depth+1); ok {
						memo[sc] = 1
					} else {
						memo[sc] = 0
					}
					st = memo[sc]
				}
				if st == 1 {
					vb[ci.Block()] = true
				}
			}
		}
		pcs := core.NewPathConds(fn)
		for _, ret := range core.Returns(fn) {
			if !entry.Dominates(ret.Block()) && entry != fn.Blocks[0] {
				continue
			}
			if errorReturn(fn, ret, pcs) {
				continue
			}
			if vb[ret.Block()] {
				continue
			}
			if core.ReachableAvoiding(entry, ret.Block(), vb) {
				return false, ret.Pos()
			}
		}
		return true, token.NoPos
	}
	n := 0
	for _, sumName := range []string{"Source", "Destination"} {
		sum := c.P.Named("internal/parser", sumName)
		for _, fn := range c.P.ModuleFunctions() {
			if relOfFn(fn) != "internal/interpreter" {
				continue
			}
			// only the traversals that move money (they call, directly or not, a validator somewhere)
			e := clauseEntries(fn, sum)[sumName+"Allotment"]
			if e == nil {
				continue
			}
			reaches := false
			for _, ci := range core.Calls(fn) {
				if sc := ci.Common().StaticCallee(); sc != nil && (validators[sc] || memoReaches(sc, validators, 0)) {
					reaches = true
				}
			}
			if !reaches {
				continue
			}
			n++
			c.Touch(fn)
			key := "validated:" + core.SSAName(fn) + ":" + sumName + "Allotment"
			if ok, pos := always(fn, e, 0); ok {
				ob.Pass(key, c.P.Pos(firstPos(e)), "every successful path through the arm goes through the function that checks the portions")
			} else {
				ob.Fail(key, c.P.Pos(pos), "a successful return of the allotment arm is reachable without the portions having been checked: an allotment whose portions do not add up to one is accepted on that path")
			}
		}
	}
	if n == 0 {
		ob.Unknown("validated:none", "-", "no allotment arm that splits an amount found")
	}
}

func memoReaches(fn *ssa.Function, targets map[*ssa.Function]bool, d int) bool {
	if fn == nil || d > 3 || len(fn.Blocks) == 0 {
		return false
	}
	for _, ci := range core.Calls(fn) {
		sc := ci.Common().StaticCallee()
		if sc == nil || sc == fn {
			continue
		}
		if targets[sc] || memoReaches(sc, targets, d+1) {
			return true
		}
	}
	return false
}

// ---------- children are descended into on every successful path ----------

// ChildrenDescendedOnEveryPath: in a traversal arm, a child of the node (a field holding a
// sub-tree) that is handed to a call on some path is handed to a call on every path that ends
// in a successful return. An arm that visits a child on one path and returns successfully
// without it on another silently drops the effect of that sub-tree for some inputs.
func (c *Ctx) ChildrenDescendedOnEveryPath(ob *core.Obligation, rels map[string]bool, sumNames []string, skip map[*ssa.Function]bool) {
	n := 0
	for _, fn := range c.P.ModuleFunctions() {
		if !rels[relOfFn(fn)] || skip[fn] {
			continue
		}
		var pc *core.PathConds
		for _, sn := range sumNames {
			sumT := c.P.Named("internal/parser", sn)
			if sumT == nil {
				continue
			}
			for _, b := range fn.Blocks {
				for _, in := range b.Instrs {
					ta, ok := in.(*ssa.TypeAssert)
					if !ok || !ta.CommaOk || !types.Identical(types.Unalias(ta.X.Type()), types.Unalias(sumT)) || ta.Referrers() == nil {
						continue
					}
					impl, ok := types.Unalias(derefT(ta.AssertedType)).(*types.Named)
					if !ok {
						continue
					}
					var bound ssa.Value
					var entry *ssa.BasicBlock
					for _, r := range *ta.Referrers() {
						ex, ok := r.(*ssa.Extract)
						if !ok {
							continue
						}
						if ex.Index == 0 {
							bound = ex
						}
						if ex.Index == 1 && ex.Referrers() != nil {
							for _, r2 := range *ex.Referrers() {
								if iff, ok := r2.(*ssa.If); ok {
									entry = iff.Block().Succs[0]
								}
							}
						}
					}
					if bound == nil || entry == nil {
						continue
					}
					var kids []*types.Var
					for _, ch := range c.M.Children(impl) {
						if ch.Kind == "sum" {
							kids = append(kids, ch.Var)
						}
					}
					if len(kids) == 0 {
						continue
					}
					if pc == nil {
						pc = core.NewPathConds(fn)
					}
					// blocks that hand the whole node to a call
					whole := map[*ssa.BasicBlock]bool{}
					per := map[*types.Var]map[*ssa.BasicBlock]bool{}
					for _, bb := range fn.Blocks {
						if !entry.Dominates(bb) {
							continue
						}
						for _, i2 := range bb.Instrs {
							ci, ok := i2.(ssa.CallInstruction)
							if !ok {
								continue
							}
							if _, isBuiltin := ci.Common().Value.(*ssa.Builtin); isBuiltin {
								continue
							}
							for _, a := range ci.Common().Args {
								f, isWhole := childFieldOf(a, bound)
								if isWhole {
									whole[bb] = true
								}
								if f != nil {
									if per[f] == nil {
										per[f] = map[*ssa.BasicBlock]bool{}
									}
									per[f][bb] = true
								}
							}
						}
					}
					for _, f := range kids {
						if len(per[f]) == 0 {
							continue // never descended here: the coverage rule (S2) judges that
						}
						n++
						c.Touch(fn)
						key := "descend:" + core.SSAName(fn) + ":" + impl.Obj().Name() + "." + f.Name()
						avoid := map[*ssa.BasicBlock]bool{}
						for k := range per[f] {
							avoid[k] = true
						}
						for k := range whole {
							avoid[k] = true
						}
						for k := range c.deadBlocks(fn) {
							avoid[k] = true
						}
						bad := token.NoPos
						for _, ret := range core.Returns(fn) {
							if !entry.Dominates(ret.Block()) || errorReturn(fn, ret, pc) {
								continue
							}
							if fn.Signature.Results().Len() == 0 {
								continue
							}
							// leaving because an amount is zero: there is nothing left to hand on
							if pc.Requires(ret.Block(), func(l core.Lit) bool {
								_, ord, ok := cmp3Literal(l)
								return ok && ord == "eq0"
							}) {
								continue
							}
							if core.ReachableAvoiding(entry, ret.Block(), avoid) {
								bad = ret.Pos()
							}
						}
						if bad.IsValid() {
							ob.Fail(key, c.P.Pos(bad), fmt.Sprintf("the arm for %s hands its child %s on to a call on some paths but reaches this successful return without doing so: for some inputs that sub-tree has no effect", impl.Obj().Name(), f.Name()))
						} else {
							ob.Pass(key, c.P.Pos(firstPos(entry)), "descended into on every successful path")
						}
					}
				}
			}
		}
	}
	if n == 0 {
		ob.Unknown("descend:none", "-", "no traversal arm with a child handed to a call found")
	}
}

// childFieldOf: a is (a load of) field f of the node bound (pointer or value), possibly
// wrapped in an interface conversion; or the whole node (bound, *bound).
func childFieldOf(a ssa.Value, bound ssa.Value) (*types.Var, bool) {
	for i := 0; i < 8; i++ {
		switch x := a.(type) {
		case *ssa.MakeInterface:
			a = x.X
			continue
		case *ssa.ChangeInterface:
			a = x.X
			continue
		case *ssa.ChangeType:
			a = x.X
			continue
		}
		break
	}
	if a == bound {
		return nil, true
	}
	switch x := a.(type) {
	case *ssa.UnOp:
		if x.Op != token.MUL {
			return nil, false
		}
		if x.X == bound {
			return nil, true
		}
		if fa, ok := x.X.(*ssa.FieldAddr); ok {
			base := fa.X
			// through a local copy of the node: `n := *bound`
			if al, ok := base.(*ssa.Alloc); ok {
				if st := onlyStore(al); st != nil {
					if ld, ok := st.Val.(*ssa.UnOp); ok && ld.X == bound {
						base = bound
					} else if st.Val == bound {
						base = bound
					}
				}
			}
			if base == bound {
				return core.FieldOf(fa), false
			}
		}
	case *ssa.Field:
		if x.X == bound {
			return core.FieldOf(x), false
		}
		if ld, ok := x.X.(*ssa.UnOp); ok && ld.X == bound {
			return core.FieldOf(x), false
		}
	}
	return nil, false
}

// deadBlocks: blocks that call a function that never returns (it always panics): what
// follows them is not executed.
func (c *Ctx) deadBlocks(fn *ssa.Function) map[*ssa.BasicBlock]bool {
	out := map[*ssa.BasicBlock]bool{}
	for _, ci := range core.Calls(fn) {
		if o := core.CalleeObj(ci.Common()); o != nil && model.NeverReturns(o.Origin()) {
			out[ci.Block()] = true
		}
	}
	for _, b := range fn.Blocks {
		if _, ok := b.Instrs[len(b.Instrs)-1].(*ssa.Panic); ok {
			out[b] = true
		}
	}
	return out
}

// ---------- every cache read is preceded by a fetch ----------

// calleesOf resolves a call site: the static callee, or the targets the call graph gives.
func (c *Ctx) calleesOf(fn *ssa.Function, ci ssa.CallInstruction) []*ssa.Function {
	if sc := ci.Common().StaticCallee(); sc != nil {
		return []*ssa.Function{sc}
	}
	var out []*ssa.Function
	if node := c.P.CallGraph().Nodes[fn]; node != nil {
		for _, e := range node.Out {
			if e.Site == ci && e.Callee != nil && e.Callee.Func != nil {
				out = append(out, e.Callee.Func)
			}
		}
	}
	return out
}

// NoReadBeforeFetch: on every path from the entry point, a read of the balance cache (which
// silently creates a zero entry for what it does not know) comes after a fetch from the
// store. Summaries over the module's call graph:
//
//	mustFetch(f)      every path through f to a successful return passes a call of the fetch
//	                  function (or of a function that must fetch) after which f leaves with
//	                  an error if that call failed
//	readsUnfetched(f) some path from f's entry reaches a cache read (or a call of a function
//	                  that reads unfetched) without a fetch before it
//
// The obligation is !readsUnfetched(entry).
func (c *Ctx) NoReadBeforeFetch(ob *core.Obligation, entry, fetch *ssa.Function, isReader func(*ssa.Function) bool) {
	if entry == nil || fetch == nil {
		ob.Unknown("fetch-first:roles", "-", "entry point or fetch function not found")
		return
	}
	var fns []*ssa.Function
	for _, f := range c.P.ModuleFunctions() {
		if relOfFn(f) == relOfFn(entry) {
			fns = append(fns, f)
		}
	}
	mustFetch := map[*ssa.Function]bool{fetch: true}
	unfetched := map[*ssa.Function]bool{}
	witness := map[*ssa.Function]token.Pos{}
	for _, f := range fns {
		if isReader(f) && f != fetch {
			// a leaf reader reads unfetched by definition
			unfetched[f] = true
			witness[f] = f.Pos()
		}
	}
	pcs := map[*ssa.Function]*core.PathConds{}
	pcOf := func(f *ssa.Function) *core.PathConds {
		if pcs[f] == nil {
			pcs[f] = core.NewPathConds(f)
		}
		return pcs[f]
	}
	// failureExits: the callee reports failure through an error result, and this caller leaves
	// with an error whenever that result is not nil - so whatever follows the call runs only
	// after the callee succeeded.
	failureExits := func(f *ssa.Function, call *ssa.Call, callee *ssa.Function) bool {
		ei := errIndex(callee.Signature)
		if ei < 0 {
			return true // cannot fail
		}
		var errv ssa.Value
		if callee.Signature.Results().Len() == 1 {
			errv = call
		} else if call.Referrers() != nil {
			for _, r := range *call.Referrers() {
				if ex, ok := r.(*ssa.Extract); ok && ex.Index == ei {
					errv = ex
				}
			}
		}
		if errv == nil || errv.Referrers() == nil {
			return false
		}
		// the callee's error is this function's own result: its callers deal with it
		if ret, ok := call.Block().Instrs[len(call.Block().Instrs)-1].(*ssa.Return); ok {
			if fe := errIndex(f.Signature); fe >= 0 && fe < len(ret.Results) && ret.Results[fe] == errv {
				return true
			}
		}
		for _, r := range *errv.Referrers() {
			bo, ok := r.(*ssa.BinOp)
			if !ok || (bo.Op != token.NEQ && bo.Op != token.EQL) || bo.Referrers() == nil {
				continue
			}
			for _, r2 := range *bo.Referrers() {
				iff, ok := r2.(*ssa.If)
				if !ok {
					continue
				}
				nonNil := iff.Block().Succs[0]
				if bo.Op == token.EQL {
					nonNil = iff.Block().Succs[1]
				}
				if iff.Block() == call.Block() && returnsErrorOnly(f, nonNil, pcOf(f)) {
					return true
				}
			}
		}
		return false
	}
	fetchBlockUpTo := func(f *ssa.Function) (map[*ssa.BasicBlock]bool, map[ssa.Instruction]bool) {
		fb := map[*ssa.BasicBlock]bool{}
		fi := map[ssa.Instruction]bool{}
		for _, ci := range core.Calls(f) {
			call, isCall := ci.(*ssa.Call)
			if !isCall {
				continue
			}
			all := true
			cs := c.calleesOf(f, ci)
			if len(cs) == 0 {
				all = false
			}
			for _, sc := range cs {
				if !mustFetch[sc] || !failureExits(f, call, sc) {
					all = false
				}
			}
			if all {
				fb[ci.Block()] = true
				fi[ci] = true
			}
		}
		return fb, fi
	}
	// first the mustFetch summaries, to their fixpoint ...
	for iter := 0; iter < 20; iter++ {
		changed := false
		for _, f := range fns {
			if len(f.Blocks) == 0 || mustFetch[f] {
				continue
			}
			fb, _ := fetchBlockUpTo(f)
			if len(fb) == 0 {
				continue
			}
			mf := true
			for _, ret := range core.Returns(f) {
				if errorReturn(f, ret, pcOf(f)) {
					continue // mustFetch speaks of the successful returns
				}
				if !fb[ret.Block()] && core.ReachableAvoiding(f.Blocks[0], ret.Block(), fb) {
					mf = false
				}
			}
			if mf && len(core.Returns(f)) > 0 {
				mustFetch[f] = true
				changed = true
			}
		}
		if !changed {
			break
		}
	}
	// ... then who reads before any fetch
	for iter := 0; iter < 20; iter++ {
		changed := false
		for _, f := range fns {
			if len(f.Blocks) == 0 || unfetched[f] || f == fetch {
				continue // the fetch function is atomic: what it looks up in the cache is part of fetching
			}
			fb, fi := fetchBlockUpTo(f)
			for _, ci := range core.Calls(f) {
				reads := false
				for _, sc := range c.calleesOf(f, ci) {
					if unfetched[sc] {
						reads = true
					}
				}
				if !reads {
					continue
				}
				b := ci.Block()
				// a fetch earlier in the same block protects the read
				protected := false
				for _, in := range b.Instrs {
					if in == ssa.Instruction(ci) {
						break
					}
					if fi[in] {
						protected = true
					}
				}
				if protected {
					continue
				}
				avoid := map[*ssa.BasicBlock]bool{}
				for k := range fb {
					if k != b {
						avoid[k] = true
					}
				}
				if b == f.Blocks[0] || core.ReachableAvoiding(f.Blocks[0], b, avoid) {
					unfetched[f] = true
					witness[f] = ci.Pos()
					changed = true
					break
				}
			}
		}
		if !changed {
			break
		}
	}
	c.Touch(entry)
	c.Touch(fetch)
	key := "fetch-first:" + core.SSAName(entry)
	if unfetched[entry] {
		// follow the witnesses down to the read
		path := core.SSAName(entry)
		cur := entry
		for i := 0; i < 8; i++ {
			next := (*ssa.Function)(nil)
			for _, ci := range core.Calls(cur) {
				if ci.Pos() != witness[cur] {
					continue
				}
				for _, sc := range c.calleesOf(cur, ci) {
					if unfetched[sc] {
						next = sc
					}
				}
			}
			if next == nil {
				break
			}
			path += " -> " + core.SSAName(next)
			cur = next
		}
		ob.Fail(key, c.P.Pos(witness[entry]), "a balance is read from the cache on a path on which nothing has been fetched from the store yet ("+path+"): the read creates a zero entry, which later fetches treat as known")
		return
	}
	n := 0
	for f := range unfetched {
		if !isReader(f) {
			n++
		}
	}
	ob.Pass(key, c.P.Pos(entry.Pos()), fmt.Sprintf("every path from the entry point fetches before the first cache read (%d functions read the cache only after their callers fetched)", n))
}

// ---------- the query sent to the store is complete ----------

// FilteredQueryComplete: the query handed to Store.GetBalances is the pending query itself, or
// a map filled from it in which the entry of an account is either the account's whole pending
// list or is extended by append from its previous value. An entry overwritten with a fresh
// list (one asset) loses the other assets that were still missing for that account.
func (c *Ctx) FilteredQueryComplete(ob *core.Obligation, fetch *ssa.Function, pendingF *types.Var) {
	if fetch == nil || pendingF == nil {
		ob.Unknown("query-complete:roles", "-", "fetch function or pending-query field not found")
		return
	}
	c.Touch(fetch)
	var get ssa.CallInstruction
	for _, ci := range core.Calls(fetch) {
		if ci.Common().IsInvoke() && ci.Common().Method.Name() == "GetBalances" {
			get = ci
		}
	}
	key := "query-complete:" + core.SSAName(fetch)
	if get == nil {
		ob.Unknown(key, c.P.Pos(fetch.Pos()), "no call of Store.GetBalances in the fetch function")
		return
	}
	q := get.Common().Args[len(get.Common().Args)-1]
	// where the map is built
	fn := fetch
	mv := resolveLocal(q)
	if call, ok := mv.(*ssa.Call); ok {
		if sc := call.Call.StaticCallee(); sc != nil && c.P.InModule(sc) && len(sc.Blocks) > 0 {
			fn = sc
			c.Touch(sc)
			mv = nil
			for _, ret := range core.Returns(sc) {
				if len(ret.Results) > 0 {
					mv = resolveLocal(ret.Results[0])
				}
			}
		}
	}
	if ld, ok := mv.(*ssa.UnOp); ok && core.FieldOf(ld.X) == pendingF {
		ob.Pass(key, c.P.Pos(get.Pos()), "the whole pending query is sent")
		return
	}
	mk, ok := mv.(*ssa.MakeMap)
	if !ok {
		ob.Unknown(key, c.P.Pos(get.Pos()), "the query sent to the store is neither the pending query nor a map built in the fetch function")
		return
	}
	n := 0
	bad := false
	for _, r := range *mk.Referrers() {
		mu, ok := r.(*ssa.MapUpdate)
		if !ok || mu.Map != ssa.Value(mk) {
			continue
		}
		n++
		// (a) key and value of one iteration over the pending query
		kx, ok1 := mu.Key.(*ssa.Extract)
		vx, ok2 := mu.Value.(*ssa.Extract)
		if ok1 && ok2 && kx.Tuple == vx.Tuple && kx.Index == 1 && vx.Index == 2 {
			if nx, ok := kx.Tuple.(*ssa.Next); ok {
				if rg, ok := nx.Iter.(*ssa.Range); ok {
					if ld, ok := resolveLocal(rg.X).(*ssa.UnOp); ok && core.FieldOf(ld.X) == pendingF {
						continue
					}
				}
			}
		}
		// (b) extended from its previous value under the same key
		if call, ok := mu.Value.(*ssa.Call); ok {
			if b, ok := call.Call.Value.(*ssa.Builtin); ok && b.Name() == "append" {
				if lk, ok := resolveLocal(call.Call.Args[0]).(*ssa.Lookup); ok && lk.X == ssa.Value(mk) && core.Canon(lk.Index) == core.Canon(mu.Key) {
					continue
				}
			}
		}
		bad = true
		ob.Fail(key, c.P.Pos(mu.Pos()), "an entry of the query sent to the store is overwritten with something other than the account's whole pending list (or its previous value extended): assets still missing for that account are dropped from the request and later read as zero")
	}
	_ = fn
	if !bad {
		ob.Pass(key, c.P.Pos(get.Pos()), fmt.Sprintf("%d update(s) of the query map: whole pending list per account, or extended by append", n))
	}
}

// ---------- the balance-collecting traversal visits every child ----------

// TraversalLoopsComplete: in the traversal that collects the balances to fetch, a loop over
// child nodes is left only when the list is exhausted or with an error: skipping the rest of
// a list makes the balances of the remaining sub-sources unknown to the run.
func (c *Ctx) TraversalLoopsComplete(ob *core.Obligation, fns ...*ssa.Function) {
	n := 0
	for _, fn := range fns {
		if fn == nil {
			continue
		}
		c.Touch(fn)
		pc := core.NewPathConds(fn)
		for _, l := range loopsOf(fn) {
			iff := l.head.Instrs[len(l.head.Instrs)-1].(*ssa.If)
			if !isRangeCond(iff.Cond) {
				continue
			}
			n++
			key := "loop-complete:" + core.SSAName(fn)
			bad := false
			for _, e := range l.earlyExits(fn) {
				if returnsErrorOnly(fn, e[1], pc) {
					continue
				}
				bad = true
				ob.Fail(key, c.P.Pos(lastPos(e[0])), "the loop over the children of a node is left before the list is exhausted (not through an error): the sub-trees that follow are not visited, so the balances they need are never requested")
			}
			// a `continue` that skips the descent is the same thing: every path through the body
			// must pass a call (the descent)
			if !bad {
				ob.Pass(key, c.P.Pos(firstPos(l.head)), "left only when the list is exhausted or with an error")
			}
		}
	}
	if n == 0 {
		ob.Unknown("loop-complete:none", "-", "no loop over child nodes found in the balance-collecting traversal")
	}
}

// ---------- a store error is looked at before the answer is used ----------

// StoreErrorCheckedFirst: after every call of a Store method, the results other than the error
// are used only where the error has been tested to be nil. Using the (possibly partial or nil)
// answer first and consulting the error later lets a failed request pass for a successful one
// whenever the answer - or a cache - happens to contain what is looked for.
func (c *Ctx) StoreErrorCheckedFirst(ob *core.Obligation, storeI *types.Named) {
	if storeI == nil {
		ob.Unknown("store-error-first:iface", "-", "Store interface not found")
		return
	}
	n := 0
	for _, fn := range c.P.ModuleFunctions() {
		if relOfFn(fn) != "internal/interpreter" {
			continue
		}
		var pc *core.PathConds
		for _, ci := range core.Calls(fn) {
			call, ok := ci.(*ssa.Call)
			if !ok || !call.Call.IsInvoke() || !types.Identical(types.Unalias(call.Call.Value.Type()), types.Unalias(storeI)) {
				continue
			}
			ei := -1
			res := call.Call.Signature().Results()
			for i := 0; i < res.Len(); i++ {
				if types.Identical(res.At(i).Type(), types.Universe.Lookup("error").Type()) {
					ei = i
				}
			}
			if ei < 0 || res.Len() < 2 || call.Referrers() == nil {
				continue
			}
			n++
			c.Touch(fn)
			if pc == nil {
				pc = core.NewPathConds(fn)
			}
			key := "store-error-first:" + core.SSAName(fn) + ":" + call.Call.Method.Name()
			var errv ssa.Value
			for _, r := range *call.Referrers() {
				if ex, ok := r.(*ssa.Extract); ok && ex.Index == ei {
					errv = ex
				}
			}
			if errv == nil {
				ob.Fail(key, c.P.Pos(call.Pos()), "the error returned by the store is discarded")
				continue
			}
			errNil := func(l core.Lit) bool {
				bo, ok := l.Cond.(*ssa.BinOp)
				if !ok || (bo.Op != token.NEQ && bo.Op != token.EQL) {
					return false
				}
				var other ssa.Value
				if core.IsNilConst(bo.Y) {
					other = bo.X
				} else if core.IsNilConst(bo.X) {
					other = bo.Y
				}
				return other == errv && (bo.Op == token.EQL) == l.Val
			}
			bad := false
			for _, r := range *call.Referrers() {
				ex, ok := r.(*ssa.Extract)
				if !ok || ex.Index == ei || ex.Referrers() == nil {
					continue
				}
				for _, use := range *ex.Referrers() {
					if _, isDbg := use.(*ssa.DebugRef); isDbg {
						continue
					}
					// a store into a local is not a use yet: its loads are
					if st, isSt := use.(*ssa.Store); isSt {
						if al, isAl := st.Addr.(*ssa.Alloc); isAl && al.Referrers() != nil {
							for _, r3 := range *al.Referrers() {
								if ld, isLd := r3.(*ssa.UnOp); isLd && !pc.Requires(ld.Block(), errNil) {
									bad = true
									ob.Fail(key, c.P.Pos(ld.Pos()), "the answer of the store is used on a path on which its error has not been tested to be nil: a failed request can pass for a successful one")
								}
							}
							continue
						}
					}
					if !pc.Requires(use.Block(), errNil) {
						bad = true
						ob.Fail(key, c.P.Pos(use.Pos()), "the answer of the store is used on a path on which its error has not been tested to be nil: a failed request can pass for a successful one")
					}
				}
			}
			if !bad {
				ob.Pass(key, c.P.Pos(call.Pos()), "the answer is only used where the error was tested to be nil")
			}
		}
	}
	if n == 0 {
		ob.Unknown("store-error-first:none", "-", "no call of a Store method found")
	}
}

// ---------- the lexer reads the text that was given ----------

// LexerInputIsTheText: the character stream handed to the lexer is built from the parse
// function's own text parameter, unmodified, and the Source kept in the result is that same
// parameter: positions and tokens then refer to the text the caller has.
func (c *Ctx) LexerInputIsTheText(ob *core.Obligation, parse *ssa.Function) {
	if parse == nil {
		return
	}
	c.Touch(parse)
	var text *ssa.Parameter
	for _, p := range parse.Params {
		if b, ok := p.Type().Underlying().(*types.Basic); ok && b.Kind() == types.String {
			text = p
		}
	}
	key := "lexer-input:" + core.SSAName(parse)
	if text == nil {
		ob.Unknown(key, c.P.Pos(parse.Pos()), "the parse function has no text parameter")
		return
	}
	n := 0
	for _, site := range c.callsThroughHelpers(parse, func(o types.Object) bool {
		return o.Pkg() != nil && strings.Contains(o.Pkg().Path(), "antlr") && o.Name() == "NewInputStream"
	}) {
		ci := site.call
		n++
		if site.actual(resolveLocal(ci.Common().Args[0])) == ssa.Value(text) {
			ob.Pass(key, c.P.Pos(ci.Pos()), "the lexer reads the text parameter itself")
		} else {
			ob.Fail(key, c.P.Pos(ci.Pos()), "the lexer is given something other than the text the caller passed ("+core.ShortVal(ci.Common().Args[0])+"): tokens and positions no longer describe the caller's text")
		}
	}
	if n == 0 {
		ob.Unknown(key, c.P.Pos(parse.Pos()), "no input stream is created in the parse function")
	}
}

// ---------- traversal state is scoped ----------

// RecursiveStateScoped: inside the recursive traversals of the checker, a field of the check
// state is overwritten (not accumulated into) only if it is one of the fields that the
// save/restore helpers put back when a nested node is left. A field that is reset at the
// start of a node, filled while its children are visited and read afterwards is clobbered by
// any nested node of the same kind.
func (c *Ctx) RecursiveStateScoped(ob *core.Obligation, rel, stateType string) {
	var fns []*ssa.Function
	for _, f := range c.P.ModuleFunctions() {
		if relOfFn(f) == rel {
			fns = append(fns, f)
		}
	}
	callees := func(f *ssa.Function) []*ssa.Function {
		var out []*ssa.Function
		for _, ci := range core.Calls(f) {
			if sc := ci.Common().StaticCallee(); sc != nil && relOfFn(sc) == rel && len(sc.Blocks) > 0 {
				out = append(out, sc)
			}
		}
		out = append(out, f.AnonFuncs...)
		return out
	}
	reaches := func(from, to *ssa.Function) bool {
		seen := map[*ssa.Function]bool{}
		work := callees(from)
		for len(work) > 0 {
			g := work[len(work)-1]
			work = work[:len(work)-1]
			if g == to {
				return true
			}
			if seen[g] {
				continue
			}
			seen[g] = true
			work = append(work, callees(g)...)
		}
		return false
	}
	region := map[*ssa.Function]bool{}
	for _, f := range fns {
		if f.Parent() == nil && reaches(f, f) {
			region[f] = true
		}
	}
	for changed := true; changed; {
		changed = false
		for f := range region {
			for _, g := range callees(f) {
				if !region[g] {
					region[g] = true
					changed = true
				}
			}
		}
	}
	// fields put back by an undo closure; helpers that return such a closure
	restored := map[*types.Var]bool{}
	helper := map[*ssa.Function]bool{}
	for _, f := range fns {
		if f.Parent() != nil || f.Signature.Results().Len() != 1 {
			continue
		}
		if _, ok := f.Signature.Results().At(0).Type().Underlying().(*types.Signature); !ok {
			continue
		}
		for _, an := range f.AnonFuncs {
			for _, b := range an.Blocks {
				for _, in := range b.Instrs {
					if st, ok := in.(*ssa.Store); ok {
						if fld := core.FieldOf(st.Addr); fld != nil && ownerOfVar(fld) == stateType {
							restored[fld] = true
							helper[f] = true
							helper[an] = true
						}
					}
				}
			}
		}
	}
	for _, pr := range c.snapshotPairs(rel, stateType) {
		ok := true
		for f := range pr.Stores {
			if !snapshotTakenOnEntry(pr.Enter, f, pr.From[f]) {
				ok = false
			}
		}
		if !ok {
			continue
		}
		for f := range pr.Stores {
			restored[f] = true
		}
	}
	n := 0
	for _, f := range fns {
		if !region[f] || helper[f] {
			continue
		}
		for _, b := range f.Blocks {
			for _, in := range b.Instrs {
				st, ok := in.(*ssa.Store)
				if !ok {
					continue
				}
				fld := core.FieldOf(st.Addr)
				if fld == nil || ownerOfVar(fld) != stateType {
					continue
				}
				n++
				c.Touch(f)
				key := "scoped:" + core.SSAName(f) + ":" + fld.Name()
				// accumulation: f = append(f, ...)
				if call, ok := st.Val.(*ssa.Call); ok {
					if bi, ok := call.Call.Value.(*ssa.Builtin); ok && bi.Name() == "append" {
						if ld, ok := call.Call.Args[0].(*ssa.UnOp); ok && core.FieldOf(ld.X) == fld {
							ob.Pass(key, c.P.Pos(st.Pos()), "accumulated by append")
							continue
						}
					}
				}
				if restored[fld] {
					ob.Pass(key, c.P.Pos(st.Pos()), "a scoped field: the save/restore helpers put its value back when the nested node is left")
					continue
				}
				ob.Fail(key, c.P.Pos(st.Pos()), "the field "+fld.Name()+" of the check state is overwritten inside a recursive traversal and nothing puts its value back: a nested node wipes what the enclosing node has collected so far")
			}
		}
	}
	if n == 0 {
		ob.Pass("scoped:none", "-", "no field of the check state is written inside the recursive traversals")
	}
}

// ---------- the inferred type of a variable is its declared type ----------

// InferredVariableTypeIsDeclared: in the checker's type-inference function (the one that maps
// an expression to a type name, answering a constant for what it cannot tell), the arm for a
// variable returns the declared type's name or that constant - the interpreter reads a
// variable by its declared type, whatever its origin.
func (c *Ctx) InferredVariableTypeIsDeclared(ob *core.Obligation) {
	ve := c.P.Named("internal/parser", "ValueExpr")
	n := 0
	for _, fn := range c.P.ModuleFunctions() {
		if relOfFn(fn) != "internal/analysis" || fn.Signature.Results().Len() != 1 {
			continue
		}
		if b, ok := fn.Signature.Results().At(0).Type().Underlying().(*types.Basic); !ok || b.Kind() != types.String {
			continue
		}
		entries := clauseEntries(fn, ve)
		e := entries["Variable"]
		if e == nil || len(entries) < 2 {
			continue
		}
		n++
		c.Touch(fn)
		key := "inferred-type:" + core.SSAName(fn)
		bad := false
		for _, ret := range core.Returns(fn) {
			if !e.Dominates(ret.Block()) {
				continue
			}
			v := resolveLocal(ret.Results[0])
			if declaredTypeOrConst(v, 0) {
				continue
			}
			bad = true
			ob.Fail(key, c.P.Pos(ret.Pos()), "the type inferred for a variable is not its declared type (nor the 'unknown' constant): "+core.ShortVal(v)+"; the interpreter gives a variable the type it is declared with, so expressions built on it are checked against the wrong type")
		}
		if !bad {
			ob.Pass(key, c.P.Pos(firstPos(e)), "a variable is given its declared type name (or 'unknown')")
		}
		// an infix expression has the type of its left operand (that is what the interpreter
		// dispatches on): the arm asks the same function about that operand
		if ie := entries["BinaryInfix"]; ie != nil {
			key2 := "inferred-type:" + core.SSAName(fn) + ":infix"
			bad2 := false
			for _, ret := range core.Returns(fn) {
				if !ie.Dominates(ret.Block()) {
					continue
				}
				v := resolveLocal(ret.Results[0])
				if k, ok := core.ConstString(v); ok && k == "any" {
					continue
				}
				if call, ok := v.(*ssa.Call); ok && call.Call.StaticCallee() == fn {
					left := false
					for _, a := range call.Call.Args {
						if strings.HasSuffix(fieldPath(a), "Left") {
							left = true
						}
					}
					if left {
						continue
					}
				}
				bad2 = true
				ob.Fail(key2, c.P.Pos(ret.Pos()), "the type inferred for an infix expression is not the type inferred for its left operand: "+core.ShortVal(v)+"; nested arithmetic on monetaries is then checked as if it were on numbers (or the reverse)")
			}
			if !bad2 {
				ob.Pass(key2, c.P.Pos(firstPos(ie)), "an infix expression is given the type of its left operand")
			}
		}
	}
	if n == 0 {
		ob.Unknown("inferred-type:none", "-", "no type-inference function over expressions found in the checker")
	}
}

// declaredTypeOrConst: v is a string constant, the Name of a type declaration, or the result
// of a module function every return of which is one of those.
func declaredTypeOrConst(v ssa.Value, depth int) bool {
	v = resolveLocal(v)
	if _, ok := core.ConstString(v); ok {
		return true
	}
	switch x := v.(type) {
	case *ssa.UnOp:
		if fa, ok := x.X.(*ssa.FieldAddr); ok && x.Op == token.MUL && ownerName(fa) == "TypeDecl" {
			return true
		}
	case *ssa.Field:
		return ownerOfField(x.X.Type()) == "TypeDecl"
	case *ssa.Phi:
		for _, e := range x.Edges {
			if !declaredTypeOrConst(e, depth) {
				return false
			}
		}
		return len(x.Edges) > 0
	case *ssa.Call:
		sc := x.Call.StaticCallee()
		if sc == nil || len(sc.Blocks) == 0 || depth > 2 {
			return false
		}
		for _, ret := range core.Returns(sc) {
			if len(ret.Results) != 1 || !declaredTypeOrConst(ret.Results[0], depth+1) {
				return false
			}
		}
		return true
	}
	return false
}

// ---------- a notification always reaches the store ----------

// NotificationAlwaysStored: in the handler, every path through the arm of an open / change
// notification passes the call that stores the document: a notification is never dropped.
func (c *Ctx) NotificationAlwaysStored(ob *core.Obligation, upd *ssa.Function) {
	if upd == nil {
		return
	}
	n := 0
	for _, fn := range c.P.ModuleFunctions() {
		if relOfFn(fn) != "internal/lsp" || fn == upd {
			continue
		}
		for _, ci := range core.Calls(fn) {
			if ci.Common().StaticCallee() != upd {
				continue
			}
			n++
			c.Touch(fn)
			B := ci.Block()
			// the arm: the closest block dominating the call that is entered by a successful
			// comparison of a string with a constant (the method name)
			var entry *ssa.BasicBlock
			for _, b := range fn.Blocks {
				iff, ok := b.Instrs[len(b.Instrs)-1].(*ssa.If)
				if !ok {
					continue
				}
				bo, ok := iff.Cond.(*ssa.BinOp)
				if !ok || bo.Op != token.EQL {
					continue
				}
				_, k1 := core.ConstString(bo.X)
				_, k2 := core.ConstString(bo.Y)
				if !k1 && !k2 {
					continue
				}
				e := b.Succs[0]
				if e.Dominates(B) && (entry == nil || entry.Dominates(e)) {
					entry = e
				}
			}
			key := "notify-stored:" + core.SSAName(fn)
			if entry == nil {
				entry = fn.Blocks[0]
			}
			avoid := map[*ssa.BasicBlock]bool{B: true}
			for k := range c.deadBlocks(fn) {
				avoid[k] = true
			}
			bad := false
			for _, ret := range core.Returns(fn) {
				if !entry.Dominates(ret.Block()) || ret.Block() == B {
					continue
				}
				if core.ReachableAvoiding(entry, ret.Block(), avoid) {
					bad = true
					ob.Fail(key, c.P.Pos(ret.Pos()), "a path through the notification's arm returns without storing the document: the notification is dropped and every later answer comes from a stale text")
				}
			}
			if !bad {
				ob.Pass(key, c.P.Pos(ci.Pos()), "every path through the arm stores the document")
			}
		}
	}
	if n == 0 {
		ob.Unknown("notify-stored:none", "-", "no call of the document update found")
	}
}

// ---------- account metadata is written as the value's own text ----------

// AccountMetaIsValueText: what a script writes into the account metadata handed back to the
// caller is, for every value, the result of the value's String() method - the text that the
// variable readers parse back. (The field is found by role: the one copied into the
// AccountsMetadata of the execution result.)
func (c *Ctx) AccountMetaIsValueText(ob *core.Obligation) {
	var outF *types.Var
	for _, fn := range c.P.ModuleFunctions() {
		if relOfFn(fn) != "internal/interpreter" {
			continue
		}
		for _, b := range fn.Blocks {
			for _, in := range b.Instrs {
				st, ok := in.(*ssa.Store)
				if !ok {
					continue
				}
				fa, ok := st.Addr.(*ssa.FieldAddr)
				if !ok || ownerName(fa) != "ExecutionResult" || core.FieldOf(fa) == nil || core.FieldOf(fa).Name() != "AccountsMetadata" {
					continue
				}
				if ld, ok := st.Val.(*ssa.UnOp); ok && ld.Op == token.MUL {
					if f := core.FieldOf(ld.X); f != nil {
						outF = f
					}
				}
			}
		}
	}
	if outF == nil {
		ob.Unknown("meta-text:field", "-", "the state field returned as the result's account metadata was not found")
		return
	}
	n := 0
	for _, fn := range c.P.ModuleFunctions() {
		if relOfFn(fn) != "internal/interpreter" {
			continue
		}
		for _, b := range fn.Blocks {
			for _, in := range b.Instrs {
				mu, ok := in.(*ssa.MapUpdate)
				if !ok {
					continue
				}
				if bt, ok := mu.Value.Type().Underlying().(*types.Basic); !ok || bt.Kind() != types.String {
					continue
				}
				// the inner map comes from the output field (a lookup or a default-get on it, or a
				// fresh map that is put into it)
				from := innerMapOf(mu.Map, outF, 0)
				if !from {
					continue
				}
				n++
				c.Touch(fn)
				key := "meta-text:" + core.SSAName(fn)
				v := resolveLocal(mu.Value)
				if call, ok := v.(*ssa.Call); ok && call.Call.IsInvoke() && call.Call.Method.Name() == "String" && core.IsNamedType(call.Call.Value.Type(), core.ModPath+"/internal/interpreter", "Value") {
					ob.Pass(key, c.P.Pos(mu.Pos()), "the text stored is value.String()")
				} else {
					ob.Fail(key, c.P.Pos(mu.Pos()), "the text written to the account metadata is not the value's String(): "+core.ShortVal(v)+"; a later script reading it back through a variable of the same type gets another value (or an error)")
				}
			}
		}
	}
	if n == 0 {
		ob.Unknown("meta-text:none", "-", "no write of a text into the result's account metadata found")
	}
}

// innerMapOf: m is an entry of the map held by field f: looked up in it, obtained by a
// default-get helper given it, or a fresh map stored into it (through phis).
func innerMapOf(m ssa.Value, f *types.Var, d int) bool {
	if d > 4 {
		return false
	}
	isF := func(v ssa.Value) bool {
		ld, ok := resolveLocal(v).(*ssa.UnOp)
		return ok && ld.Op == token.MUL && core.FieldOf(ld.X) == f
	}
	switch x := resolveLocal(m).(type) {
	case *ssa.Phi:
		for _, e := range x.Edges {
			if !innerMapOf(e, f, d+1) {
				return false
			}
		}
		return len(x.Edges) > 0
	case *ssa.Call:
		for _, a := range x.Call.Args {
			if isF(a) {
				return true
			}
		}
	case *ssa.Lookup:
		return isF(x.X)
	case *ssa.Extract:
		if lk, ok := x.Tuple.(*ssa.Lookup); ok {
			return isF(lk.X)
		}
	case *ssa.ChangeType:
		return innerMapOf(x.X, f, d+1) || storedInto(x, f)
	case *ssa.MakeMap:
		return storedInto(x, f)
	}
	return false
}

func storedInto(v ssa.Value, f *types.Var) bool {
	if v.Referrers() == nil {
		return false
	}
	for _, r := range *v.Referrers() {
		switch y := r.(type) {
		case *ssa.MapUpdate:
			if y.Value == v {
				if ld, ok := resolveLocal(y.Map).(*ssa.UnOp); ok && core.FieldOf(ld.X) == f {
					return true
				}
			}
		case *ssa.ChangeType:
			if storedInto(y, f) {
				return true
			}
		case *ssa.Phi:
			if storedInto(y, f) {
				return true
			}
		}
	}
	return false
}
