package rules

import (
	"fmt"
	"go/ast"
	"go/token"
	"go/types"
	"sort"
	"strings"

	"nsa/core"
	"nsa/model"

	"golang.org/x/tools/go/ssa"
)

// switchKey gives a stable construct key: function + sum (+ ordinal when a function has
// several switches over the same sum).
func (c *Ctx) switchKey(sw *model.TypeSwitch) string {
	n := 0
	idx := 0
	for _, o := range c.Switches() {
		if o.Func == sw.Func && o.Sum == sw.Sum {
			if o == sw {
				idx = n
			}
			n++
		}
	}
	k := "switch:" + core.FuncName(sw.Func) + ":" + sw.Sum.Name()
	if n > 1 {
		k += fmt.Sprintf("#%d", idx)
	}
	return k
}

func relOf(sw *model.TypeSwitch) string {
	rel, _ := core.Rel(sw.Pkg.Types)
	return rel
}

// nilHandledBefore: the tag is a plain identifier and the enclosing function returns on
// `tag == nil` in a statement that precedes the switch at the top level of the body.
func (c *Ctx) nilHandledBefore(sw *model.TypeSwitch) bool {
	id, ok := ast.Unparen(sw.Tag).(*ast.Ident)
	if !ok {
		return false
	}
	obj := sw.Pkg.TypesInfo.Uses[id]
	fd := c.P.Decl(sw.Func)
	if fd == nil || obj == nil {
		return false
	}
	// find the statement list that contains the switch and scan the statements before it
	var found bool
	var scan func(list []ast.Stmt) bool
	scan = func(list []ast.Stmt) bool {
		for i, st := range list {
			contains := false
			ast.Inspect(st, func(n ast.Node) bool {
				if n == sw.Stmt {
					contains = true
				}
				return !contains
			})
			if !contains {
				continue
			}
			for _, prev := range list[:i] {
				if ifs, ok := prev.(*ast.IfStmt); ok && ifs.Init == nil && endsInReturn(ifs.Body) && condImpliesNil(sw.Pkg.TypesInfo, ifs.Cond, obj) {
					found = true
				}
			}
			if st == sw.Stmt {
				return true
			}
			// descend
			switch s := st.(type) {
			case *ast.BlockStmt:
				return scan(s.List)
			case *ast.IfStmt:
				if scan(s.Body.List) {
					return true
				}
				if b, ok := s.Else.(*ast.BlockStmt); ok {
					return scan(b.List)
				}
			case *ast.ForStmt:
				return scan(s.Body.List)
			case *ast.RangeStmt:
				return scan(s.Body.List)
			case *ast.CaseClause:
				return scan(s.Body)
			case *ast.SwitchStmt:
				for _, cc := range s.Body.List {
					if scan(cc.(*ast.CaseClause).Body) {
						return true
					}
				}
			case *ast.TypeSwitchStmt:
				for _, cc := range s.Body.List {
					if scan(cc.(*ast.CaseClause).Body) {
						return true
					}
				}
			}
			return true
		}
		return false
	}
	scan(fd.Body.List)
	return found
}

func endsInReturn(b *ast.BlockStmt) bool {
	if len(b.List) == 0 {
		return false
	}
	switch s := b.List[len(b.List)-1].(type) {
	case *ast.ReturnStmt:
		return true
	case *ast.BranchStmt:
		return s.Tok == token.CONTINUE
	}
	return false
}

// condImpliesNil: cond is `obj == nil` or a disjunction containing it as an operand
// (`x == nil || ...` : if x is nil the branch is taken).
func condImpliesNil(info *types.Info, cond ast.Expr, obj types.Object) bool {
	cond = ast.Unparen(cond)
	if be, ok := cond.(*ast.BinaryExpr); ok {
		if be.Op == token.LOR {
			return condImpliesNil(info, be.X, obj) || condImpliesNil(info, be.Y, obj)
		}
		if be.Op == token.EQL {
			x, y := ast.Unparen(be.X), ast.Unparen(be.Y)
			if id, ok := x.(*ast.Ident); ok && info.Uses[id] == obj && info.Types[y].IsNil() {
				return true
			}
			if id, ok := y.(*ast.Ident); ok && info.Uses[id] == obj && info.Types[x].IsNil() {
				return true
			}
		}
	}
	return false
}

// S1 checks exhaustiveness of every type switch over a closed sum in the packages
// selected. strict: a missing kind is a violation even without a panicking default
// (run path and conversion layer: an unhandled kind silently desynchronises the result).
// nilable: whether the tag may be nil in that package (partial ASTs).
func (c *Ctx) S1(ob *core.Obligation, sel func(rel string) (use, strict, nilable bool)) {
	for _, sw := range c.Switches() {
		use, strict, nilable := sel(relOf(sw))
		if !use {
			continue
		}
		key := c.switchKey(sw)
		pos := c.P.Pos(sw.Stmt.Pos())
		var missing []string
		for _, impl := range sw.Sum.Impls {
			if cl, _ := sw.Covers(impl, sw.Sum.ByValue[impl]); cl == nil {
				missing = append(missing, impl.Obj().Name())
			}
		}
		defPanics := sw.Default != nil && model.Panics(sw.Pkg.TypesInfo, sw.Default.CC.Body)
		switch {
		case len(missing) > 0 && defPanics:
			ob.Fail(key, pos, "kinds "+strings.Join(missing, ",")+" of "+sw.Sum.Name()+" are not handled and fall into the panicking default: reachable panic")
			continue
		case len(missing) > 0 && strict && sw.Default == nil:
			ob.Fail(key, pos, "kinds "+strings.Join(missing, ",")+" of "+sw.Sum.Name()+" are silently ignored (no case, no default)")
			continue
		}
		if defPanics && nilable && !sw.HasNilCase() && !c.nilHandledBefore(sw) {
			ob.Fail(key, pos, "panicking default over a possibly-nil "+sw.Sum.Name()+" (partial AST): nil is neither a case nor returned on before the switch")
			continue
		}
		why := fmt.Sprintf("%d/%d kinds of %s handled", len(sw.Sum.Impls)-len(missing), len(sw.Sum.Impls), sw.Sum.Name())
		if defPanics {
			why += "; panicking default unreachable"
		}
		ob.Pass(key, pos, why)
	}
}

// Family of traversal functions: every declared function reachable (call graph) from the
// roots. relevant decides which child fields the family has to descend into.
type Family struct {
	Name     string
	Roots    []string // "rel:FuncName"
	Exclude  []string // roots of another family whose members are excluded (e.g. prefetch minus run)
	Relevant func(cf model.ChildField) bool
	// Exempt: functions (core.FuncName) of the family whose switches are not traversals, one
	// line of reason each.
	Exempt map[string]string
	// Rejecting clauses (body is a single return of an error literal) are exempt.
}

func (c *Ctx) familyFuncs(ob *core.Obligation, f *Family) map[*types.Func]bool {
	resolve := func(specs []string, key string) map[*types.Func]bool {
		out := map[*types.Func]bool{}
		if len(specs) == 0 {
			return out
		}
		var roots []*ssa.Function
		for _, s := range specs {
			i := strings.Index(s, ":")
			if s[:i] == "role" {
				// a function found by what it does (see IRoles)
				if ir := c.IRoles(ob); ir != nil {
					switch s[i+1:] {
					case "Dispatcher":
						roots = append(roots, ir.Dispatcher)
					case "PrefetchStmt":
						roots = append(roots, ir.PrefetchStmt)
					}
				}
				continue
			}
			fn := c.Fn(ob, s[:i], s[i+1:])
			if fn != nil {
				roots = append(roots, fn)
			}
		}
		for fn := range c.ReachFrom(key, roots...) {
			for g := fn; g != nil; g = g.Parent() {
				o := g
				if g.Origin() != nil {
					o = g.Origin()
				}
				if obj, ok := o.Object().(*types.Func); ok {
					out[obj] = true
				}
			}
		}
		return out
	}
	in := resolve(f.Roots, "fam:"+strings.Join(f.Roots, ","))
	ex := resolve(f.Exclude, "fam:"+strings.Join(f.Exclude, ","))
	for k := range ex {
		delete(in, k)
	}
	return in
}

// S2 checks child coverage for one family.
func (c *Ctx) S2(ob *core.Obligation, f *Family) {
	funcs := c.familyFuncs(ob, f)
	for _, sw := range c.Switches() {
		if !funcs[sw.Func] || !c.M.IsASTSum(sw.Sum) {
			continue
		}
		if _, ex := f.Exempt[core.FuncName(sw.Func)]; ex {
			continue
		}
		// a function that only names the kind / type of a node (it returns a string) is not a
		// traversal: it has no children to visit
		if sig, ok := sw.Func.Type().(*types.Signature); ok && sig.Results().Len() == 1 {
			if bt, ok := sig.Results().At(0).Type().Underlying().(*types.Basic); ok && bt.Kind() == types.String {
				continue
			}
		}
		c.R.Functions[core.FuncName(sw.Func)] = true
		key := c.switchKey(sw)
		info := sw.Pkg.TypesInfo
		for _, impl := range sw.Sum.Impls {
			children := c.relevantChildren(impl, f)
			ikey := key + ":" + impl.Obj().Name()
			pos := c.P.Pos(sw.Stmt.Pos())
			cl, exact := sw.Covers(impl, sw.Sum.ByValue[impl])
			if cl == nil {
				if sw.Default != nil {
					cl = sw.Default
				} else {
					if len(children) > 0 {
						ob.Fail(ikey, pos, fmt.Sprintf("family %s: node kind %s has children (%s) but no case in this traversal: they are never visited", f.Name, impl.Obj().Name(), childNames(children)))
					}
					continue
				}
			}
			if len(children) == 0 {
				continue
			}
			pos = c.P.Pos(cl.CC.Pos())
			if isRejectingClause(info, cl.CC.Body) {
				ob.Pass(ikey, pos, "clause rejects this kind with an error")
				continue
			}
			mentioned := map[*types.Var]bool{}
			for _, st := range cl.CC.Body {
				fieldSelections(info, st, mentioned)
			}
			// the node passed whole to module functions: their bodies count (depth-limited)
			c.followWhole(info, cl, sw, impl, mentioned, 3)
			if !exact {
				// interface-typed case or default: fields are not accessible here; the clause must
				// hand the value on to a module function (whose own switch is checked in its family)
				if c.handsOn(info, cl) {
					ob.Pass(ikey, pos, "value handed on as an interface to a module function")
				} else {
					ob.Fail(ikey, pos, fmt.Sprintf("family %s: %s (children %s) only reaches an interface-typed/default clause that does not hand it on", f.Name, impl.Obj().Name(), childNames(children)))
				}
				continue
			}
			var lacking []string
			for _, ch := range children {
				if !mentioned[ch.Var] {
					lacking = append(lacking, ch.Owner.Obj().Name()+"."+ch.Var.Name())
				}
			}
			if len(lacking) > 0 {
				ob.Fail(ikey, pos, fmt.Sprintf("family %s: clause for %s never touches child field(s) %s: that subtree is not visited", f.Name, impl.Obj().Name(), strings.Join(lacking, ",")))
			} else {
				ob.Pass(ikey, pos, "children "+childNames(children)+" all descended into")
			}
		}
	}
}

func childNames(cs []model.ChildField) string {
	var s []string
	for _, c := range cs {
		s = append(s, c.Owner.Obj().Name()+"."+c.Var.Name())
	}
	sort.Strings(s)
	return strings.Join(s, ",")
}

// relevantChildren flattens item structs: SourceAllotment -> Items -> (Allotment, From).
func (c *Ctx) relevantChildren(n *types.Named, f *Family) []model.ChildField {
	var out []model.ChildField
	for _, ch := range c.M.Children(n) {
		switch ch.Kind {
		case "slice-item":
			out = append(out, c.relevantChildren(ch.Item, f)...)
			// the slice itself must be mentioned too (it is what is iterated)
			if f.Relevant == nil || len(c.relevantChildren(ch.Item, f)) > 0 {
				out = append(out, ch)
			}
		default:
			if f.Relevant == nil || f.Relevant(ch) {
				out = append(out, ch)
			}
		}
	}
	return out
}

func isRejectingClause(info *types.Info, body []ast.Stmt) bool {
	if len(body) != 1 {
		return false
	}
	ret, ok := body[0].(*ast.ReturnStmt)
	if !ok || len(ret.Results) == 0 {
		return false
	}
	last := ast.Unparen(ret.Results[len(ret.Results)-1])
	if _, ok := last.(*ast.CompositeLit); !ok {
		return false
	}
	for _, r := range ret.Results[:len(ret.Results)-1] {
		if !info.Types[r].IsNil() {
			return false
		}
	}
	return true
}

// followWhole: when the clause passes the bound node (x, *x) or something selected from it
// (x.Items) to a module function that is not itself a traversal over a sum, the fields that
// function (and the non-traversal helpers it calls in turn) selects count for the clause.
func (c *Ctx) followWhole(info *types.Info, cl *model.Clause, sw *model.TypeSwitch, impl *types.Named, into map[*types.Var]bool, depth int) {
	if cl.BoundTo == nil {
		return
	}
	// the node, and the locals of the clause that are assigned something selected from it
	derived := map[types.Object]bool{cl.BoundTo: true}
	mentionsDerived := func(e ast.Node) bool {
		found := false
		ast.Inspect(e, func(m ast.Node) bool {
			if id, ok := m.(*ast.Ident); ok && derived[info.Uses[id]] {
				found = true
			}
			return !found
		})
		return found
	}
	for round := 0; round < 3; round++ {
		for _, st := range cl.CC.Body {
			ast.Inspect(st, func(n ast.Node) bool {
				// the element variable of a range over something selected from the node
				if rs, ok := n.(*ast.RangeStmt); ok && mentionsDerived(rs.X) {
					for _, kv := range []ast.Expr{rs.Key, rs.Value} {
						if id, ok := kv.(*ast.Ident); ok {
							if o := info.Defs[id]; o != nil {
								derived[o] = true
							}
						}
					}
					return true
				}
				as, ok := n.(*ast.AssignStmt)
				if !ok || len(as.Lhs) != len(as.Rhs) {
					return true
				}
				for i, lhs := range as.Lhs {
					id, ok := lhs.(*ast.Ident)
					if !ok {
						continue
					}
					if _, isCall := ast.Unparen(as.Rhs[i]).(*ast.CallExpr); isCall {
						continue // a result computed from the node is not the node
					}
					if mentionsDerived(as.Rhs[i]) {
						if o := info.Defs[id]; o != nil {
							derived[o] = true
						} else if o := info.Uses[id]; o != nil {
							derived[o] = true
						}
					}
				}
				return true
			})
		}
	}
	for _, st := range cl.CC.Body {
		ast.Inspect(st, func(n ast.Node) bool {
			call, ok := n.(*ast.CallExpr)
			if !ok {
				return true
			}
			mentions := false
			for _, a := range call.Args {
				if mentionsDerived(a) {
					mentions = true
				}
			}
			if !mentions {
				return true
			}
			if callee := calleeOf(info, call); callee != nil && !c.isTraversal(callee, sw.Sum) {
				c.collectFieldsOf(callee, sw.Sum, into, depth, map[*types.Func]bool{})
			}
			return true
		})
	}
}

// isTraversal: the function contains a type switch over the given sum (its clauses select the
// fields of every node kind and are judged on their own).
func (c *Ctx) isTraversal(fn *types.Func, sum *model.Sum) bool {
	for _, sw := range c.Switches() {
		if sw.Func == fn.Origin() && sw.Sum == sum {
			return true
		}
	}
	return false
}

func (c *Ctx) handsOn(info *types.Info, cl *model.Clause) bool {
	if cl.BoundTo == nil {
		return false
	}
	passed := false
	for _, st := range cl.CC.Body {
		ast.Inspect(st, func(n ast.Node) bool {
			call, ok := n.(*ast.CallExpr)
			if !ok {
				return true
			}
			for _, a := range call.Args {
				if id, ok := ast.Unparen(a).(*ast.Ident); ok && info.Uses[id] == cl.BoundTo {
					if callee := calleeOf(info, call); callee != nil {
						if _, ok := core.Rel(callee.Pkg()); ok {
							passed = true
						}
					}
				}
			}
			return true
		})
	}
	return passed
}

func calleeOf(info *types.Info, call *ast.CallExpr) *types.Func {
	fun := ast.Unparen(call.Fun)
	if ix, ok := fun.(*ast.IndexExpr); ok {
		fun = ix.X
	}
	if ix, ok := fun.(*ast.IndexListExpr); ok {
		fun = ix.X
	}
	switch f := fun.(type) {
	case *ast.Ident:
		fn, _ := info.Uses[f].(*types.Func)
		return fn
	case *ast.SelectorExpr:
		fn, _ := info.Uses[f.Sel].(*types.Func)
		return fn
	}
	return nil
}

// collectFieldsOf adds every field selected in the body of fn (a module function) and of the
// non-traversal module functions it calls (bounded).
func (c *Ctx) collectFieldsOf(fn *types.Func, sum *model.Sum, into map[*types.Var]bool, depth int, seen map[*types.Func]bool) {
	fn = fn.Origin()
	if seen[fn] || depth <= 0 {
		return
	}
	seen[fn] = true
	fd := c.P.Decl(fn)
	if fd == nil || fd.Body == nil {
		return
	}
	var info *types.Info
	for _, pkg := range c.P.Pkgs {
		if pkg.Types == fn.Pkg() {
			info = pkg.TypesInfo
		}
	}
	if info == nil {
		return
	}
	sel := map[*types.Var]bool{}
	fieldSelections(info, fd.Body, sel)
	for v := range sel {
		into[v] = true // includes item-struct fields reached through the node
	}
	ast.Inspect(fd.Body, func(n ast.Node) bool {
		call, ok := n.(*ast.CallExpr)
		if !ok {
			return true
		}
		if callee := calleeOf(info, call); callee != nil && callee.Pkg() == fn.Pkg() && !c.isTraversal(callee, sum) {
			c.collectFieldsOf(callee, sum, into, depth-1, seen)
		}
		return true
	})
}
