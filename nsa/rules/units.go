package rules

import (
	"go/token"
	"go/types"
	"strings"

	"nsa/core"

	"golang.org/x/tools/go/ssa"
)

// unit classification of an integer SSA value used as a column
type unitRes struct {
	bad  []string // byte-unit terms found
	unk  []string // terms the rule cannot classify
	good int
}

// Units checks every store into parser.Position.Character (and .Line) in the functions
// reachable from the given roots: the column must be built from rune-unit terms only
// (ANTLR columns, utf8.RuneCount*, len of a []rune, constants, copies of other positions),
// never from len(string)/strings.Index (bytes). Lines must be ANTLR lines minus one.
func (c *Ctx) Units(ob *core.Obligation, reachKey string, roots []*ssa.Function) {
	charF := c.P.Field("internal/parser", "Position", "Character")
	lineF := c.P.Field("internal/parser", "Position", "Line")
	if charF == nil || lineF == nil {
		ob.Unknown("anchor:parser.Position", "-", "Position.Character/Line not found")
		return
	}
	reach := c.ReachFrom(reachKey, roots...)
	var fns []*ssa.Function
	for fn := range reach {
		if c.P.InModule(fn) && fn.Blocks != nil {
			fns = append(fns, fn)
		}
	}
	sortFns(fns)
	for _, fn := range fns {
		for _, b := range fn.Blocks {
			for _, in := range b.Instrs {
				st, ok := in.(*ssa.Store)
				if !ok {
					continue
				}
				f := core.FieldOf(st.Addr)
				if f != charF && f != lineF {
					continue
				}
				c.Touch(fn)
				role := positionRole(st.Addr)
				key := "pos:" + core.SSAName(fn) + ":" + role + "." + f.Name()
				pos := c.P.Pos(st.Pos())
				if f == charF {
					var r unitRes
					c.classifyUnit(st.Val, fn, &r, map[ssa.Value]bool{}, 0)
					switch {
					case len(r.bad) > 0:
						ob.Fail(key, pos, "column built from a byte count ("+strings.Join(r.bad, ", ")+") while ANTLR columns are characters: ranges after non-ASCII text are wrong")
					case len(r.unk) > 0:
						ob.Unknown(key, pos, "column term of unknown unit: "+strings.Join(r.unk, ", "))
					default:
						ob.Pass(key, pos, "column built from character-unit terms only")
					}
				} else {
					if why := c.lineOK(st.Val, fn); why == "" {
						ob.Pass(key, pos, "zero-based line (ANTLR line - 1, or a copy of a position)")
					} else {
						ob.Fail(key, pos, why)
					}
				}
			}
		}
	}
}

// positionRole tells whether the position stored is the Start or End of a Range (or a bare position).
func positionRole(addr ssa.Value) string {
	fa, ok := addr.(*ssa.FieldAddr)
	if !ok {
		return "pos"
	}
	if outer, ok := fa.X.(*ssa.FieldAddr); ok {
		if f := core.FieldOf(outer); f != nil {
			return f.Name()
		}
	}
	return "pos"
}

func (c *Ctx) classifyUnit(v ssa.Value, fn *ssa.Function, r *unitRes, seen map[ssa.Value]bool, depth int) {
	if seen[v] || depth > 12 {
		return
	}
	seen[v] = true
	switch x := v.(type) {
	case *ssa.Const:
		r.good++
	case *ssa.Convert:
		c.classifyUnit(x.X, fn, r, seen, depth+1)
	case *ssa.ChangeType:
		c.classifyUnit(x.X, fn, r, seen, depth+1)
	case *ssa.BinOp:
		switch x.Op {
		case token.ADD, token.SUB:
			c.classifyUnit(x.X, fn, r, seen, depth+1)
			c.classifyUnit(x.Y, fn, r, seen, depth+1)
		default:
			r.unk = append(r.unk, "operator "+x.Op.String())
		}
	case *ssa.Phi:
		for _, e := range x.Edges {
			c.classifyUnit(e, fn, r, seen, depth+1)
		}
	case *ssa.UnOp:
		if x.Op != token.MUL {
			r.unk = append(r.unk, core.ShortVal(v))
			return
		}
		// load: a field of an existing position, or a local variable
		if f := core.FieldOf(x.X); f != nil {
			if isPositionField(f) {
				r.good++
				return
			}
		}
		if al, ok := x.X.(*ssa.Alloc); ok {
			n := 0
			for _, ref := range *al.Referrers() {
				if st, ok := ref.(*ssa.Store); ok && st.Addr == al {
					c.classifyUnit(st.Val, fn, r, seen, depth+1)
					n++
				}
			}
			if n == 0 {
				r.good++ // zero value
			}
			return
		}
		if fa, ok := x.X.(*ssa.FieldAddr); ok {
			// field of a local struct (e.g. pos.Character++): find stores to the same field of the same base
			if f := core.FieldOf(fa); f != nil && isPositionField(f) {
				r.good++
				return
			}
		}
		r.unk = append(r.unk, "load "+core.ShortVal(x.X))
	case *ssa.Parameter:
		// the column/line parameters of the ANTLR error listener callback are ANTLR's (characters)
		if implementsExternalCallback(fn) {
			r.good++
			return
		}
		edges := c.P.CallGraph().Nodes[fn]
		idx := paramIndex(fn, x)
		if edges == nil || len(edges.In) == 0 || idx < 0 {
			r.unk = append(r.unk, "parameter "+x.Name()+" of "+core.SSAName(fn)+" without module callers")
			return
		}
		for _, e := range edges.In {
			args := core.CallArgs(e.Site.Common())
			if idx < len(args) {
				c.classifyUnit(args[idx], e.Caller.Func, r, seen, depth+1)
			}
		}
	case *ssa.Call:
		if b, ok := x.Call.Value.(*ssa.Builtin); ok && b.Name() == "len" {
			at := x.Call.Args[0].Type().Underlying()
			if bt, ok := at.(*types.Basic); ok && bt.Info()&types.IsString != 0 {
				r.bad = append(r.bad, "len(string) at "+c.P.Pos(x.Pos()))
				return
			}
			if sl, ok := at.(*types.Slice); ok {
				if eb, ok := sl.Elem().Underlying().(*types.Basic); ok && eb.Kind() == types.Int32 {
					r.good++
					return
				}
				if eb, ok := sl.Elem().Underlying().(*types.Basic); ok && eb.Kind() == types.Uint8 {
					r.bad = append(r.bad, "len([]byte) at "+c.P.Pos(x.Pos()))
					return
				}
			}
			r.unk = append(r.unk, "len of "+at.String())
			return
		}
		obj := core.CalleeObj(&x.Call)
		if obj == nil || obj.Pkg() == nil {
			r.unk = append(r.unk, core.ShortVal(v))
			return
		}
		pp := obj.Pkg().Path()
		switch {
		case pp == "unicode/utf8" && strings.HasPrefix(obj.Name(), "RuneCount"):
			r.good++
		case strings.HasPrefix(pp, "github.com/antlr4-go/antlr") && (obj.Name() == "GetColumn"):
			r.good++
		case (pp == "strings" || pp == "bytes") && (strings.HasPrefix(obj.Name(), "Index") || strings.HasPrefix(obj.Name(), "LastIndex") || obj.Name() == "Count"):
			r.bad = append(r.bad, pp+"."+obj.Name()+" at "+c.P.Pos(x.Pos()))
		default:
			if callee := x.Call.StaticCallee(); callee != nil && c.P.InModule(callee) && callee.Blocks != nil {
				for _, ret := range core.Returns(callee) {
					if len(ret.Results) == 1 {
						c.classifyUnit(ret.Results[0], callee, r, seen, depth+1)
					}
				}
				return
			}
			r.unk = append(r.unk, "call "+shortCallee(obj))
		}
	default:
		r.unk = append(r.unk, core.ShortVal(v))
	}
}

func isPositionField(f *types.Var) bool {
	return f.Pkg() != nil && strings.HasSuffix(f.Pkg().Path(), "internal/parser") && (f.Name() == "Character" || f.Name() == "Line")
}

func paramIndex(fn *ssa.Function, p *ssa.Parameter) int {
	for i, q := range fn.Params {
		if q == p {
			return i
		}
	}
	return -1
}

// implementsExternalCallback: fn is a method that satisfies an interface method of a
// non-module package (the ANTLR ErrorListener.SyntaxError callback): its parameters are
// supplied by that package.
func implementsExternalCallback(fn *ssa.Function) bool {
	if fn.Signature.Recv() == nil {
		return false
	}
	return fn.Name() == "SyntaxError" || fn.Name() == "ReportAmbiguity" || fn.Name() == "ReportAttemptingFullContext" || fn.Name() == "ReportContextSensitivity"
}

// lineOK: value is "<antlr line> - 1", a parameter of the listener callback minus one, or a copy of a Position line.
func (c *Ctx) lineOK(v ssa.Value, fn *ssa.Function) string {
	v = core.Strip(v)
	switch x := v.(type) {
	case *ssa.Const:
		return ""
	case *ssa.UnOp:
		if x.Op == token.MUL {
			if f := core.FieldOf(x.X); f != nil && isPositionField(f) {
				return ""
			}
			if al, ok := x.X.(*ssa.Alloc); ok {
				for _, ref := range *al.Referrers() {
					if st, ok := ref.(*ssa.Store); ok && st.Addr == al {
						if why := c.lineOK(st.Val, fn); why != "" {
							return why
						}
					}
				}
				return ""
			}
		}
	case *ssa.Phi:
		for _, e := range x.Edges {
			if why := c.lineOK(e, fn); why != "" {
				return why
			}
		}
		return ""
	case *ssa.BinOp:
		if x.Op == token.SUB {
			if k, ok := core.ConstInt(x.Y); ok && k == 1 && isAntlrLine(core.Strip(x.X), fn) {
				return ""
			}
			return "line is not (ANTLR 1-based line) - 1: " + core.ShortVal(x)
		}
		if x.Op == token.ADD {
			// Position.Line++ while scanning text
			if k, ok := core.ConstInt(x.Y); ok && k == 1 && c.lineOK(x.X, fn) == "" {
				return ""
			}
		}
	case *ssa.Parameter:
		edges := c.P.CallGraph().Nodes[fn]
		idx := paramIndex(fn, x)
		if edges != nil && idx >= 0 && len(edges.In) > 0 {
			for _, e := range edges.In {
				args := core.CallArgs(e.Site.Common())
				if idx < len(args) {
					if why := c.lineOK(args[idx], e.Caller.Func); why != "" {
						return why
					}
				}
			}
			return ""
		}
	case *ssa.Call:
		if isAntlrLine(v, fn) {
			return "ANTLR line stored without the -1 adjustment (lines are zero-based in parser.Position)"
		}
	}
	if isAntlrLine(v, fn) {
		return "ANTLR line stored without the -1 adjustment (lines are zero-based in parser.Position)"
	}
	return "line of unknown origin: " + core.ShortVal(v)
}

func isAntlrLine(v ssa.Value, fn *ssa.Function) bool {
	switch x := v.(type) {
	case *ssa.Call:
		obj := core.CalleeObj(&x.Call)
		return obj != nil && obj.Pkg() != nil && strings.HasPrefix(obj.Pkg().Path(), "github.com/antlr4-go/antlr") && obj.Name() == "GetLine"
	case *ssa.Parameter:
		return implementsExternalCallback(fn)
	}
	return false
}

func sortFns(fns []*ssa.Function) {
	for i := 1; i < len(fns); i++ {
		for j := i; j > 0 && (fns[j].Pos() < fns[j-1].Pos() || (fns[j].Pos() == fns[j-1].Pos() && fns[j].String() < fns[j-1].String())); j-- {
			fns[j], fns[j-1] = fns[j-1], fns[j]
		}
	}
}

// RangeEnds: in every function that builds a Range from an ANTLR context, the Start
// position derives from the context's start token and the End position from its stop token
// (never the other way round, never both from the same one when both are available).
func (c *Ctx) RangeEnds(ob *core.Obligation, reachKey string, roots []*ssa.Function) {
	charF := c.P.Field("internal/parser", "Position", "Character")
	lineF := c.P.Field("internal/parser", "Position", "Line")
	if charF == nil || lineF == nil {
		ob.Unknown("anchor:parser.Position", "-", "Position fields not found")
		return
	}
	reach := c.ReachFrom(reachKey, roots...)
	var fns []*ssa.Function
	for fn := range reach {
		if c.P.InModule(fn) && fn.Blocks != nil {
			fns = append(fns, fn)
		}
	}
	sortFns(fns)
	for _, fn := range fns {
		usesStart, usesStop := false, false
		for _, ci := range core.Calls(fn) {
			if o := core.CalleeObj(ci.Common()); o != nil {
				if o.Name() == "GetStart" {
					usesStart = true
				}
				if o.Name() == "GetStop" {
					usesStop = true
				}
			}
		}
		if !usesStart && !usesStop {
			continue
		}
		// a helper that is handed the two tokens and builds the range from them
		for _, ci := range core.Calls(fn) {
			h := ci.Common().StaticCallee()
			if h == nil || !c.P.InModule(h) || len(h.Blocks) == 0 {
				continue
			}
			sum := c.rangeEndParams(h, charF, lineF)
			if sum == nil {
				continue
			}
			args := core.CallArgs(ci.Common())
			for _, role := range []string{"Start", "End"} {
				for _, pi := range sum[role] {
					if pi >= len(args) {
						continue
					}
					c.Touch(fn)
					c.Touch(h)
					org := map[string]bool{}
					tokenOrigins(args[pi], org, map[ssa.Value]bool{})
					key := "ends:" + core.SSAName(fn) + ":" + role + ".via:" + h.Name()
					pos := c.P.Pos(ci.Pos())
					want, other := "GetStart", "GetStop"
					if role == "End" {
						want, other = "GetStop", "GetStart"
					}
					switch {
					case org[other]:
						ob.Fail(key, pos, role+" of the range is taken from the "+other+"() token")
					case !org[want]:
						ob.Fail(key, pos, role+" of the range does not derive from the "+want+"() token of the context")
					default:
						ob.Pass(key, pos, role+" <- "+want+"() (through "+h.Name()+")")
					}
				}
			}
		}
		for _, b := range fn.Blocks {
			for _, in := range b.Instrs {
				st, ok := in.(*ssa.Store)
				if !ok {
					continue
				}
				f := core.FieldOf(st.Addr)
				role := ""
				if f == charF || f == lineF {
					role = positionRole(st.Addr)
				} else if fa, ok := st.Addr.(*ssa.FieldAddr); ok && f != nil && ownerName(fa) == "Range" && (f.Name() == "Start" || f.Name() == "End") {
					// a whole position computed by a helper from a token
					role = f.Name()
				}
				if role != "Start" && role != "End" {
					continue
				}
				c.Touch(fn)
				org := map[string]bool{}
				tokenOrigins(st.Val, org, map[ssa.Value]bool{})
				key := "ends:" + core.SSAName(fn) + ":" + role + "." + f.Name()
				pos := c.P.Pos(st.Pos())
				want, other := "GetStart", "GetStop"
				if role == "End" {
					want, other = "GetStop", "GetStart"
				}
				switch {
				case org[other]:
					ob.Fail(key, pos, role+" of the range is taken from the "+other+"() token")
				case !org[want]:
					ob.Fail(key, pos, role+" of the range does not derive from the "+want+"() token of the context")
				default:
					ob.Pass(key, pos, role+" <- "+want+"()")
				}
			}
		}
	}
}

// rangeEndParams: h builds a Range whose Start derives from some of its parameters and whose
// End from others (a helper handed the first and the last token): role -> parameter indices.
// nil when h is not of that shape (also when one parameter feeds both ends: the range of a
// single token).
func (c *Ctx) rangeEndParams(h *ssa.Function, charF, lineF *types.Var) map[string][]int {
	for _, ci := range core.Calls(h) {
		if o := core.CalleeObj(ci.Common()); o != nil && (o.Name() == "GetStart" || o.Name() == "GetStop") {
			return nil
		}
	}
	sum := map[string][]int{}
	used := map[int]string{}
	for _, b := range h.Blocks {
		for _, in := range b.Instrs {
			st, ok := in.(*ssa.Store)
			if !ok {
				continue
			}
			f := core.FieldOf(st.Addr)
			role := ""
			if f == charF || f == lineF {
				role = positionRole(st.Addr)
			} else if fa, ok := st.Addr.(*ssa.FieldAddr); ok && f != nil && ownerName(fa) == "Range" && (f.Name() == "Start" || f.Name() == "End") {
				role = f.Name()
			}
			if role != "Start" && role != "End" {
				continue
			}
			org := map[string]bool{}
			tokenOrigins(st.Val, org, map[ssa.Value]bool{})
			for i, p := range h.Params {
				if !org["param:"+p.Name()] {
					continue
				}
				if r, had := used[i]; had && r != role {
					return nil
				}
				if _, had := used[i]; !had {
					used[i] = role
					sum[role] = append(sum[role], i)
				}
			}
		}
	}
	if len(sum["Start"]) == 0 || len(sum["End"]) == 0 {
		return nil
	}
	return sum
}

func tokenOrigins(v ssa.Value, into map[string]bool, seen map[ssa.Value]bool) {
	if seen[v] {
		return
	}
	seen[v] = true
	switch x := v.(type) {
	case *ssa.Parameter:
		into["param:"+x.Name()] = true
	case *ssa.Call:
		if o := core.CalleeObj(&x.Call); o != nil && (o.Name() == "GetStart" || o.Name() == "GetStop") {
			into[o.Name()] = true
			return
		}
		for _, a := range core.CallArgs(&x.Call) {
			tokenOrigins(a, into, seen)
		}
	case *ssa.BinOp:
		tokenOrigins(x.X, into, seen)
		tokenOrigins(x.Y, into, seen)
	case *ssa.Convert:
		tokenOrigins(x.X, into, seen)
	case *ssa.ChangeType:
		tokenOrigins(x.X, into, seen)
	case *ssa.Phi:
		for _, e := range x.Edges {
			tokenOrigins(e, into, seen)
		}
	case *ssa.UnOp:
		tokenOrigins(x.X, into, seen)
	}
}
