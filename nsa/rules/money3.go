package rules

import (
	"go/token"
	"go/types"

	"nsa/core"

	"golang.org/x/tools/go/ssa"
)

// saveRunner: the interpreter function that takes a parser.SaveStatement (by value or pointer)
// and returns postings.
func (c *Ctx) saveRunner() *ssa.Function {
	for _, fn := range c.P.ModuleFunctions() {
		if relOfFn(fn) != "internal/interpreter" || !returnsPostings(fn) {
			continue
		}
		for _, p := range fn.Params {
			if core.IsNamedType(p.Type(), core.ModPath+"/internal/parser", "SaveStatement") {
				return fn
			}
		}
	}
	return nil
}

// SaveMonotone (C08.1).
func (c *Ctx) SaveMonotone(ob *core.Obligation, r *Roles) {
	if r == nil {
		return
	}
	fn := c.saveRunner()
	if fn == nil {
		ob.Unknown("anchor:save-runner", "-", "no function executing a SaveStatement found")
		return
	}
	c.Touch(fn)
	pc := core.NewPathConds(fn)
	// the balance cell(s): results of balance-reader calls
	var cells []*ssa.Call
	for _, ci := range core.Calls(fn) {
		if call, ok := ci.(*ssa.Call); ok {
			if sc := call.Call.StaticCallee(); sc != nil && r.IsBalanceReader(sc) {
				cells = append(cells, call)
			}
		}
	}
	if len(cells) == 0 {
		ob.Unknown("save:"+core.SSAName(fn), c.P.Pos(fn.Pos()), "the save runner does not read a balance")
		return
	}
	n := 0
	for _, cell := range cells {
		key0 := cellKey(cell)
		var writers []*ssa.Call
		for _, ci := range core.Calls(fn) {
			call, ok := ci.(*ssa.Call)
			if !ok {
				continue
			}
			tn, m := core.BigMethod(&call.Call)
			if tn == "" || bigReadersOnly[m] || cellKey(core.CallArgs(&call.Call)[0]) != key0 {
				continue
			}
			writers = append(writers, call)
		}
		// entry tests: comparisons of the cell with zero that no writer can precede
		entryTest := func(cmp *core.Cmp3) bool {
			if cellKey(cmp.A) != key0 || !(cmp.B == nil || isZeroBig(cmp.B)) {
				return false
			}
			for _, w := range writers {
				if instrCanPrecede(w, cmp.Call) {
					return false
				}
			}
			return true
		}
		for _, w := range writers {
			n++
			_, m := core.BigMethod(&w.Call)
			args := core.CallArgs(&w.Call)
			key := "save:" + core.SSAName(fn) + ":" + m
			switch m {
			case "Sub":
				// balance -= amt with amt tested >= 0 on every path
				if cellKey(args[1]) != key0 {
					ob.Fail(key, c.P.Pos(w.Pos()), "the balance is overwritten by a difference that does not start from the balance itself")
					continue
				}
				amtKey := cellKey(args[2])
				ok := pc.Requires(w.Block(), func(l core.Lit) bool {
					cmp, rel, is := core.DecodeCond(l.Cond)
					if !is {
						return false
					}
					if !l.Val {
						rel = core.ANY &^ rel
					}
					return cellKey(cmp.A) == amtKey && (cmp.B == nil || isZeroBig(cmp.B)) && rel&core.LT == 0
				})
				if ok {
					ob.Pass(key, c.P.Pos(w.Pos()), "subtracts an amount tested non-negative: lowers the balance")
				} else {
					ob.Fail(key, c.P.Pos(w.Pos()), "the saved amount is subtracted without having been tested non-negative on every path: a negative save would raise the balance")
				}
			case "Set", "SetInt64", "SetUint64":
				isZero := false
				if m == "Set" {
					isZero = isZeroBig(args[1])
				} else if k, ok := core.ConstInt(core.Strip(args[1])); ok && k == 0 {
					isZero = true
				}
				if !isZero {
					ob.Fail(key, c.P.Pos(w.Pos()), "the balance is set to something other than zero")
					continue
				}
				ok := pc.Requires(w.Block(), func(l core.Lit) bool {
					cmp, rel, is := core.DecodeCond(l.Cond)
					if !is || !entryTest(cmp) {
						return false
					}
					if !l.Val {
						rel = core.ANY &^ rel
					}
					return rel&core.LT == 0 // entry balance >= 0
				})
				if ok {
					ob.Pass(key, c.P.Pos(w.Pos()), "reset to zero only where the balance at entry was tested non-negative: never raises it")
				} else {
					ob.Fail(key, c.P.Pos(w.Pos()), "the balance can be reset to zero on a path where its value at entry was not tested non-negative: a save from an overdrawn account lifts the balance to zero and thereby extends credit")
				}
			default:
				ob.Fail(key, c.P.Pos(w.Pos()), "the balance is rewritten by big.Int."+m+": not a lowering write")
			}
		}
	}
	if n == 0 {
		ob.Fail("save:"+core.SSAName(fn), c.P.Pos(fn.Pos()), "the save runner never lowers the balance it reads: later statements could move what was saved")
	}
}

// instrCanPrecede: a can execute before b.
func instrCanPrecede(a, b ssa.Instruction) bool {
	if a.Block() == b.Block() {
		for _, in := range a.Block().Instrs {
			if in == a {
				return true
			}
			if in == b {
				break
			}
		}
		for _, s := range a.Block().Succs {
			if core.ReachableAvoiding(s, a.Block(), nil) {
				return true
			}
		}
		return false
	}
	return core.ReachableAvoiding(a.Block(), b.Block(), nil)
}

// SaveProducesNothing (C08.3).
func (c *Ctx) SaveProducesNothing(ob *core.Obligation, r *Roles) {
	if r == nil {
		return
	}
	fn := c.saveRunner()
	if fn == nil {
		ob.Unknown("anchor:save-runner", "-", "no function executing a SaveStatement found")
		return
	}
	c.Touch(fn)
	key := "save-nothing:" + core.SSAName(fn)
	for _, ret := range core.Returns(fn) {
		if !core.IsNilConst(ret.Results[0]) {
			ob.Fail(key, c.P.Pos(ret.Pos()), "save returns postings")
			return
		}
	}
	reach := c.P.Reachable(fn)
	for g := range reach {
		if g == r.PushSender.Fn || g == r.PushReceiver.Fn || (returnsPostings(g) && buildsPostings(g, r)) {
			ob.Fail(key, c.P.Pos(fn.Pos()), "save can reach "+g.Name()+": it would move funds")
			return
		}
	}
	ob.Pass(key, c.P.Pos(fn.Pos()), "returns nil postings on every path; cannot reach the push functions or the reconciler")
}

var _ = token.ADD
var _ = types.Typ

// SaveBalanceCells: the balances read by the save runner (results of balance-reader calls).
func (c *Ctx) SaveBalanceCells(r *Roles) func(fn *ssa.Function) []ssa.Value {
	save := c.saveRunner()
	return func(fn *ssa.Function) []ssa.Value {
		if r == nil || save == nil || fn != save {
			return nil
		}
		var out []ssa.Value
		for _, ci := range core.Calls(fn) {
			if call, ok := ci.(*ssa.Call); ok {
				if sc := call.Call.StaticCallee(); sc != nil && r.IsBalanceReader(sc) {
					out = append(out, call)
				}
			}
		}
		return out
	}
}
