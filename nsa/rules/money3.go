package rules

import (
	"go/token"
	"go/types"

	"nsa/core"

	"golang.org/x/tools/go/ssa"
)

// saveRunner: the interpreter function that takes a parser.SaveStatement (by value or pointer)
// and returns postings.
func (c *Ctx) saveRunner() *ssa.Function {
	for _, fn := range c.P.ModuleFunctions() {
		if relOfFn(fn) != "internal/interpreter" || !returnsPostings(fn) {
			continue
		}
		for _, p := range fn.Params {
			if core.IsNamedType(p.Type(), core.ModPath+"/internal/parser", "SaveStatement") {
				return fn
			}
		}
	}
	return nil
}

// SaveMonotone (C08.1).
func (c *Ctx) SaveMonotone(ob *core.Obligation, r *Roles) {
	if r == nil {
		return
	}
	fn := c.saveRunner()
	if fn == nil {
		ob.Unknown("anchor:save-runner", "-", "no function executing a SaveStatement found")
		return
	}
	c.Touch(fn)
	// sites: a function, the balance cell it rewrites, and how the amount is known non-negative
	type site struct {
		fn    *ssa.Function
		cell  ssa.Value
		amtOK func(amt ssa.Value) bool // beyond a test on the path in fn itself
	}
	var sites []site
	isReaderResult := func(v ssa.Value) bool {
		call, ok := core.Strip(v).(*ssa.Call)
		return ok && call.Call.StaticCallee() != nil && r.IsBalanceReader(call.Call.StaticCallee())
	}
	// producedByReader: v is the k-th result of a helper every successful return of which
	// hands back a reader result there
	producedByReader := func(v ssa.Value) bool {
		ex, ok := core.Strip(v).(*ssa.Extract)
		if !ok {
			return false
		}
		call, ok := ex.Tuple.(*ssa.Call)
		if !ok {
			return false
		}
		e := call.Call.StaticCallee()
		if e == nil || len(e.Blocks) == 0 || relOfFn(e) != relOfFn(fn) {
			return false
		}
		epc := core.NewPathConds(e)
		n := 0
		for _, ret := range core.Returns(e) {
			if errorReturn(e, ret, epc) || ex.Index >= len(ret.Results) {
				continue
			}
			n++
			if !isReaderResult(resolveLocal(ret.Results[ex.Index])) {
				return false
			}
		}
		c.Touch(e)
		return n > 0
	}
	// nonNegOrNilFromProducer: v is the k-th result of a helper every successful return of which
	// is reached only where that result is nil or was tested non-negative
	nonNegOrNilFromProducer := func(v ssa.Value) bool {
		ex, ok := core.Strip(v).(*ssa.Extract)
		if !ok {
			return false
		}
		call, ok := ex.Tuple.(*ssa.Call)
		if !ok {
			return false
		}
		e := call.Call.StaticCallee()
		if e == nil || len(e.Blocks) == 0 || relOfFn(e) != relOfFn(fn) {
			return false
		}
		epc := core.NewPathConds(e)
		n := 0
		for _, ret := range core.Returns(e) {
			if errorReturn(e, ret, epc) || ex.Index >= len(ret.Results) {
				continue
			}
			n++
			res := ret.Results[ex.Index]
			if core.IsNilConst(res) {
				continue
			}
			k := cellKey(res)
			good := epc.Requires(ret.Block(), func(l core.Lit) bool {
				if bo, ok := l.Cond.(*ssa.BinOp); ok && (bo.Op == token.EQL || bo.Op == token.NEQ) {
					var other ssa.Value
					if core.IsNilConst(bo.Y) {
						other = bo.X
					} else if core.IsNilConst(bo.X) {
						other = bo.Y
					}
					if other != nil && cellKey(other) == k && (bo.Op == token.EQL) == l.Val {
						return true // nil on this path
					}
				}
				cmp, rel, is := core.DecodeCond(l.Cond)
				if !is {
					return false
				}
				if !l.Val {
					rel = core.ANY &^ rel
				}
				return cellKey(cmp.A) == k && (cmp.B == nil || isZeroBig(cmp.B)) && rel&core.LT == 0
			})
			if !good {
				return false
			}
		}
		return n > 0
	}
	for _, ci := range core.Calls(fn) {
		call, ok := ci.(*ssa.Call)
		if !ok {
			continue
		}
		sc := call.Call.StaticCallee()
		if sc == nil {
			continue
		}
		if r.IsBalanceReader(sc) {
			sites = append(sites, site{fn, call, nonNegOrNilFromProducer})
			continue
		}
		// a helper of the package that is handed the balance to rewrite
		if len(sc.Blocks) == 0 || relOfFn(sc) != relOfFn(fn) {
			continue
		}
		for ai, a := range call.Call.Args {
			if ai >= len(sc.Params) || !isBigPtrStd(a.Type()) || !(isReaderResult(resolveLocal(a)) || producedByReader(resolveLocal(a))) {
				continue
			}
			theCall := call
			helper := sc
			sites = append(sites, site{sc, sc.Params[ai], func(amt ssa.Value) bool {
				// the amount is a parameter of the helper: what the runner passes for it
				p, ok := core.Strip(amt).(*ssa.Parameter)
				if !ok {
					return false
				}
				pi := paramIndex(helper, p)
				if pi < 0 || pi >= len(theCall.Call.Args) {
					return false
				}
				return nonNegOrNilFromProducer(resolveLocal(theCall.Call.Args[pi]))
			}})
			c.Touch(sc)
		}
	}
	if len(sites) == 0 {
		ob.Unknown("save:"+core.SSAName(fn), c.P.Pos(fn.Pos()), "the save runner does not read a balance")
		return
	}
	n := 0
	for _, st := range sites {
		g := st.fn
		pc := core.NewPathConds(g)
		key0 := cellKey(st.cell)
		var writers []*ssa.Call
		for _, ci := range core.Calls(g) {
			call, ok := ci.(*ssa.Call)
			if !ok {
				continue
			}
			tn, m := core.BigMethod(&call.Call)
			if tn == "" || bigReadersOnly[m] || cellKey(core.CallArgs(&call.Call)[0]) != key0 {
				continue
			}
			writers = append(writers, call)
		}
		// entry tests: comparisons of the cell with zero that no writer can precede
		entryTest := func(cmp *core.Cmp3) bool {
			if cellKey(cmp.A) != key0 || !(cmp.B == nil || isZeroBig(cmp.B)) {
				return false
			}
			for _, w := range writers {
				if instrCanPrecede(w, cmp.Call) {
					return false
				}
			}
			return true
		}
		for _, w := range writers {
			n++
			_, m := core.BigMethod(&w.Call)
			args := core.CallArgs(&w.Call)
			key := "save:" + core.SSAName(g) + ":" + m
			switch m {
			case "Sub":
				// balance -= amt with amt tested >= 0 on every path
				if cellKey(args[1]) != key0 {
					ob.Fail(key, c.P.Pos(w.Pos()), "the balance is overwritten by a difference that does not start from the balance itself")
					continue
				}
				amtKey := cellKey(args[2])
				ok := pc.Requires(w.Block(), func(l core.Lit) bool {
					cmp, rel, is := core.DecodeCond(l.Cond)
					if !is {
						return false
					}
					if !l.Val {
						rel = core.ANY &^ rel
					}
					return cellKey(cmp.A) == amtKey && (cmp.B == nil || isZeroBig(cmp.B)) && rel&core.LT == 0
				})
				if !ok && st.amtOK != nil {
					ok = st.amtOK(resolveLocal(args[2]))
				}
				if ok {
					ob.Pass(key, c.P.Pos(w.Pos()), "subtracts an amount tested non-negative: lowers the balance")
				} else {
					ob.Fail(key, c.P.Pos(w.Pos()), "the saved amount is subtracted without having been tested non-negative on every path: a negative save would raise the balance")
				}
			case "Set", "SetInt64", "SetUint64":
				isZero := false
				if m == "Set" {
					isZero = isZeroBig(args[1])
				} else if k, ok := core.ConstInt(core.Strip(args[1])); ok && k == 0 {
					isZero = true
				}
				if !isZero {
					// the new balance computed in a fresh number and copied in: judged by what the
					// fresh number is
					if m == "Set" && c.loweredCopy(g, args[1], st.cell, pc, w, st.amtOK) {
						ob.Pass(key, c.P.Pos(w.Pos()), "set to (balance - amount, floored at zero) computed in a fresh number, amount tested non-negative")
						continue
					}
					ob.Fail(key, c.P.Pos(w.Pos()), "the balance is set to something other than zero")
					continue
				}
				ok := pc.Requires(w.Block(), func(l core.Lit) bool {
					cmp, rel, is := core.DecodeCond(l.Cond)
					if !is || !entryTest(cmp) {
						return false
					}
					if !l.Val {
						rel = core.ANY &^ rel
					}
					return rel&core.LT == 0 // entry balance >= 0
				})
				if ok {
					ob.Pass(key, c.P.Pos(w.Pos()), "reset to zero only where the balance at entry was tested non-negative: never raises it")
				} else {
					ob.Fail(key, c.P.Pos(w.Pos()), "the balance can be reset to zero on a path where its value at entry was not tested non-negative: a save from an overdrawn account lifts the balance to zero and thereby extends credit")
				}
			default:
				ob.Fail(key, c.P.Pos(w.Pos()), "the balance is rewritten by big.Int."+m+": not a lowering write")
			}
		}
	}
	if n == 0 {
		ob.Fail("save:"+core.SSAName(fn), c.P.Pos(fn.Pos()), "the save runner never lowers the balance it reads: later statements could move what was saved")
	}
}

// loweredCopy: v is a fresh number whose in-place writes are Sub(balance, amount) with the
// amount tested non-negative (and resets to zero): copying it into the balance lowers it, and
// the copy happens only where the balance at entry was tested non-negative.
func (c *Ctx) loweredCopy(g *ssa.Function, v, cell ssa.Value, pc *core.PathConds, at *ssa.Call, amtOK func(ssa.Value) bool) bool {
	// a choice between such a number and zero
	if ph, ok := core.Strip(v).(*ssa.Phi); ok {
		some := false
		for _, e := range ph.Edges {
			if isZeroBig(e) {
				continue
			}
			if !c.loweredCopy(g, e, cell, pc, at, amtOK) {
				return false
			}
			some = true
		}
		return some
	}
	k := cellKey(v)
	k0 := cellKey(cell)
	n := 0
	for _, ci := range core.Calls(g) {
		call, ok := ci.(*ssa.Call)
		if !ok {
			continue
		}
		tn, m := core.BigMethod(&call.Call)
		if tn == "" || bigReadersOnly[m] {
			continue
		}
		args := core.CallArgs(&call.Call)
		if cellKey(args[0]) != k {
			continue
		}
		n++
		switch m {
		case "Sub":
			if cellKey(args[1]) != k0 {
				return false
			}
			amtKey := cellKey(args[2])
			ok := pc.Requires(call.Block(), func(l core.Lit) bool {
				cmp, rel, is := core.DecodeCond(l.Cond)
				if !is {
					return false
				}
				if !l.Val {
					rel = core.ANY &^ rel
				}
				return cellKey(cmp.A) == amtKey && (cmp.B == nil || isZeroBig(cmp.B)) && rel&core.LT == 0
			})
			if !ok && amtOK != nil {
				ok = amtOK(resolveLocal(args[2]))
			}
			if !ok {
				return false
			}
		case "Set", "SetInt64", "SetUint64":
			isZero := false
			if m == "Set" {
				isZero = isZeroBig(args[1])
			} else if kk, ok := core.ConstInt(core.Strip(args[1])); ok && kk == 0 {
				isZero = true
			}
			if !isZero {
				return false
			}
		default:
			return false
		}
	}
	if n == 0 {
		return false
	}
	// the copy itself: only where the balance at entry (nothing has written it yet) was >= 0 ... > 0
	return pc.Requires(at.Block(), func(l core.Lit) bool {
		cmp, rel, is := core.DecodeCond(l.Cond)
		if !is || cellKey(cmp.A) != k0 || !(cmp.B == nil || isZeroBig(cmp.B)) {
			return false
		}
		if !l.Val {
			rel = core.ANY &^ rel
		}
		return rel&core.LT == 0
	})
}

// instrCanPrecede: a can execute before b.
func instrCanPrecede(a, b ssa.Instruction) bool {
	if a.Block() == b.Block() {
		for _, in := range a.Block().Instrs {
			if in == a {
				return true
			}
			if in == b {
				break
			}
		}
		for _, s := range a.Block().Succs {
			if core.ReachableAvoiding(s, a.Block(), nil) {
				return true
			}
		}
		return false
	}
	return core.ReachableAvoiding(a.Block(), b.Block(), nil)
}

// SaveProducesNothing (C08.3).
func (c *Ctx) SaveProducesNothing(ob *core.Obligation, r *Roles) {
	if r == nil {
		return
	}
	fn := c.saveRunner()
	if fn == nil {
		ob.Unknown("anchor:save-runner", "-", "no function executing a SaveStatement found")
		return
	}
	c.Touch(fn)
	key := "save-nothing:" + core.SSAName(fn)
	for _, ret := range core.Returns(fn) {
		if !core.IsNilConst(ret.Results[0]) {
			ob.Fail(key, c.P.Pos(ret.Pos()), "save returns postings")
			return
		}
	}
	reach := c.P.Reachable(fn)
	for g := range reach {
		if g == r.PushSender.Fn || g == r.PushReceiver.Fn || c.IsReconciler(g, r) {
			ob.Fail(key, c.P.Pos(fn.Pos()), "save can reach "+g.Name()+": it would move funds")
			return
		}
	}
	ob.Pass(key, c.P.Pos(fn.Pos()), "returns nil postings on every path; cannot reach the push functions or the reconciler")
}

var _ = token.ADD
var _ = types.Typ

// SaveBalanceCells: the balances read by the save runner (results of balance-reader calls).
func (c *Ctx) SaveBalanceCells(r *Roles) func(fn *ssa.Function) []ssa.Value {
	save := c.saveRunner()
	return func(fn *ssa.Function) []ssa.Value {
		if r == nil || save == nil || fn != save {
			return nil
		}
		var out []ssa.Value
		for _, ci := range core.Calls(fn) {
			if call, ok := ci.(*ssa.Call); ok {
				if sc := call.Call.StaticCallee(); sc != nil && r.IsBalanceReader(sc) {
					out = append(out, call)
				}
			}
		}
		return out
	}
}
