package rules

import (
	"go/token"
	"go/types"
	"strings"

	"nsa/core"

	"golang.org/x/tools/go/ssa"
)

// InputsReadOnly (W2): values owned by the caller - the vars and featureFlags maps, every
// map / big number obtained from a Store method, and the shared AST - are never written:
// no map update/delete, no store through them, no in-place big-number operation with one of
// them as the receiver. A field-based, context-insensitive may-alias taint analysis over the
// functions reachable from the run entry points.
type taintBits uint8

const (
	tOwn   taintBits = 1 // the object itself belongs to the caller / the store
	tHolds taintBits = 2 // a container that holds such objects
)

type taintAn struct {
	c         *Ctx
	fns       []*ssa.Function
	inScope   map[*ssa.Function]bool
	param     map[*ssa.Function][]taintBits
	ret       map[*ssa.Function][]taintBits
	field     map[*types.Var]taintBits
	heldType  map[string]bool // map/slice types into which owned objects were stored
	free      map[*ssa.FreeVar]taintBits
	why       map[ssa.Value]string
	changed   bool
	srcNote   map[*ssa.Function]map[int]string
	srcCall   func(call *ssa.Call) bool // additional sources: results of these calls are owned elsewhere
	zeroSetOK bool                      // Set(0)/SetInt64(0) on an owned number writes no digit: tolerated
}

type TaintSource struct {
	Fn     *ssa.Function
	Params []int
	What   string
}

func (c *Ctx) InputsReadOnly(ob *core.Obligation, reachKey string, roots []*ssa.Function, sources []TaintSource, storeIface *types.Named) {
	c.inputsReadOnly(ob, "readonly", reachKey, roots, sources, storeIface, nil, false)
}

// EvaluatedNumbersReadOnly: a number obtained by evaluating an expression is a shallow copy
// of the value held by a variable (it shares its digits): it is never the receiver of an
// in-place operation (other than a reset to zero, which writes no digit), nor is an amount
// that was queued as sender / receiver.
func (c *Ctx) EvaluatedNumbersReadOnly(ob *core.Obligation, reachKey string, roots []*ssa.Function, isEval func(call *ssa.Call) bool) {
	c.inputsReadOnly(ob, "eval-readonly", reachKey, roots, nil, nil, isEval, true)
}

func (c *Ctx) inputsReadOnly(ob *core.Obligation, keyPrefix, reachKey string, roots []*ssa.Function, sources []TaintSource, storeIface *types.Named, srcCall func(*ssa.Call) bool, zeroSetOK bool) {
	fns, reach := c.reachableModule(reachKey, roots)
	a := &taintAn{c: c, srcCall: srcCall, zeroSetOK: zeroSetOK, fns: fns, inScope: map[*ssa.Function]bool{}, param: map[*ssa.Function][]taintBits{}, ret: map[*ssa.Function][]taintBits{},
		field: map[*types.Var]taintBits{}, heldType: map[string]bool{}, free: map[*ssa.FreeVar]taintBits{}}
	for _, f := range fns {
		a.inScope[f] = true
		a.param[f] = make([]taintBits, len(f.Params))
		a.ret[f] = make([]taintBits, f.Signature.Results().Len())
	}
	for _, s := range sources {
		if s.Fn == nil {
			continue
		}
		for _, i := range s.Params {
			if i < len(a.param[s.Fn]) {
				a.param[s.Fn][i] |= tOwn
			}
		}
	}
	var storeI *types.Interface
	if storeIface != nil {
		storeI, _ = storeIface.Underlying().(*types.Interface)
	}
	// fixpoint
	for iter := 0; iter < 30; iter++ {
		a.changed = false
		for _, fn := range fns {
			a.flow(fn, storeI, nil)
		}
		if !a.changed {
			break
		}
	}
	// report
	for _, fn := range fns {
		c.Touch(fn)
		var findings []taintFinding
		a.flow(fn, storeI, &findings)
		key := keyPrefix + ":" + core.SSAName(fn)
		if len(findings) == 0 {
			ob.Pass(key, c.P.Pos(fn.Pos()), "no write to caller-owned or store-owned data")
			continue
		}
		f := findings[0]
		ob.Fail(key, c.P.Pos(f.pos), f.msg+" (reached via "+core.Path(reach, fn)+")")
	}
}

type taintFinding struct {
	pos token.Pos
	msg string
}

func (a *taintAn) setParam(fn *ssa.Function, i int, t taintBits) {
	if !a.inScope[fn] || i >= len(a.param[fn]) {
		return
	}
	if a.param[fn][i]|t != a.param[fn][i] {
		a.param[fn][i] |= t
		a.changed = true
	}
}

func (a *taintAn) setRet(fn *ssa.Function, i int, t taintBits) {
	if i >= len(a.ret[fn]) {
		return
	}
	if a.ret[fn][i]|t != a.ret[fn][i] {
		a.ret[fn][i] |= t
		a.changed = true
	}
}

func (a *taintAn) setField(f *types.Var, t taintBits) {
	if f == nil || t == 0 {
		return
	}
	if a.field[f]|t != a.field[f] {
		a.field[f] |= t
		a.changed = true
	}
}

func typeKey(t types.Type) string { return types.Unalias(t).Underlying().String() }

// isRefType: maps, slices, pointers, interfaces, funcs - things through which sharing happens.
func isRefType(t types.Type) bool {
	switch types.Unalias(t).Underlying().(type) {
	case *types.Map, *types.Slice, *types.Pointer, *types.Interface, *types.Signature, *types.Chan:
		return true
	case *types.Struct:
		return true // may contain references (big.Int copies share their digits)
	case *types.Tuple:
		return true
	}
	return false
}

// flow analyses one function; when out != nil, sinks are reported.
func (a *taintAn) flow(fn *ssa.Function, storeI *types.Interface, out *[]taintFinding) {
	val := map[ssa.Value]taintBits{}
	for i, p := range fn.Params {
		val[p] = a.param[fn][i]
	}
	for _, fv := range fn.FreeVars {
		val[fv] = a.free[fv]
	}
	get := func(v ssa.Value) taintBits {
		if v == nil {
			return 0
		}
		return val[v]
	}
	set := func(v ssa.Value, t taintBits) bool {
		if t == 0 || !isRefType(v.Type()) {
			return false
		}
		if val[v]|t != val[v] {
			val[v] |= t
			return true
		}
		return false
	}
	elemOf := func(container ssa.Value, ct taintBits) taintBits {
		var t taintBits
		if ct&tOwn != 0 {
			t |= tOwn
		}
		if ct&tHolds != 0 || a.heldType[typeKey(container.Type())] {
			t |= tOwn | tHolds
		}
		return t
	}
	report := func(pos token.Pos, msg string) {
		if out != nil {
			*out = append(*out, taintFinding{pos, msg})
		}
	}
	// local fixpoint (loops/phis)
	for round := 0; round < 20; round++ {
		progress := false
		for _, b := range fn.Blocks {
			for _, in := range b.Instrs {
				switch x := in.(type) {
				case *ssa.Phi:
					var t taintBits
					for _, e := range x.Edges {
						t |= get(e)
					}
					progress = set(x, t) || progress
				case *ssa.ChangeType:
					progress = set(x, get(x.X)) || progress
				case *ssa.Convert:
					progress = set(x, get(x.X)) || progress
				case *ssa.ChangeInterface:
					progress = set(x, get(x.X)) || progress
				case *ssa.MakeInterface:
					progress = set(x, get(x.X)) || progress
				case *ssa.TypeAssert:
					progress = set(x, get(x.X)) || progress
				case *ssa.Extract:
					// per-component taint when the tuple is the result of functions under analysis
					if call, ok := x.Tuple.(*ssa.Call); ok && !call.Call.IsInvoke() && !(a.srcCall != nil && a.srcCall(call)) {
						// (calls through an interface - the Store - and source calls keep the taint
						// of the whole tuple: that is where ownership is introduced)
						var cs []*ssa.Function
						if sc := call.Call.StaticCallee(); sc != nil {
							cs = append(cs, sc)
						}
						all := len(cs) > 0
						var rt taintBits
						for _, cal := range cs {
							if !a.inScope[cal] || x.Index >= len(a.ret[cal]) {
								all = false
								break
							}
							rt |= a.ret[cal][x.Index]
						}
						if all {
							if a.srcCall != nil && a.srcCall(call) && x.Index == 0 {
								rt |= get(x.Tuple)
							}
							progress = set(x, rt) || progress
							continue
						}
					}
					progress = set(x, get(x.Tuple)) || progress
				case *ssa.Slice:
					// a slice of an array that holds owned values (the one-element array of an
					// append) holds them too
					progress = set(x, get(x.X)|boolBits(a.heldType[typeKey(x.X.Type())], tHolds)) || progress
				case *ssa.FieldAddr:
					// address inside an owned object is owned
					progress = set(x, get(x.X)&tOwn) || progress
				case *ssa.IndexAddr:
					progress = set(x, get(x.X)&tOwn) || progress
				case *ssa.Field:
					progress = set(x, get(x.X)) || progress
				case *ssa.Lookup:
					progress = set(x, elemOf(x.X, get(x.X))) || progress
				case *ssa.Index:
					progress = set(x, elemOf(x.X, get(x.X))) || progress
				case *ssa.Range:
					progress = set(x, get(x.X)|boolBits(a.heldType[typeKey(x.X.Type())], tHolds)) || progress
				case *ssa.Next:
					if rg, ok := x.Iter.(*ssa.Range); ok {
						progress = set(x, elemOf(rg.X, get(rg))) || progress
					}
				case *ssa.UnOp:
					if x.Op != token.MUL {
						continue
					}
					var t taintBits
					if f := core.FieldOf(x.X); f != nil {
						t |= a.field[f]
						// a field of an owned object is owned
						if fa, ok := x.X.(*ssa.FieldAddr); ok && get(fa.X)&tOwn != 0 {
							t |= tOwn
						}
						// the shared AST: big numbers and child nodes stored in parser nodes
						if a.isASTField(f) {
							t |= tOwn
						}
					} else if ia, ok := x.X.(*ssa.IndexAddr); ok {
						t |= elemOf(ia.X, get(ia.X))
					} else {
						// load through a pointer: a local holds what was stored into it
						t |= get(x.X) &^ 0
						if al, ok := x.X.(*ssa.Alloc); ok && al.Referrers() != nil {
							for _, r := range *al.Referrers() {
								if st, ok := r.(*ssa.Store); ok && st.Addr == al {
									t |= get(st.Val)
								}
							}
						}
					}
					progress = set(x, t) || progress
				case *ssa.MakeClosure:
					if cf, ok := x.Fn.(*ssa.Function); ok {
						for i, bnd := range x.Bindings {
							if i < len(cf.FreeVars) {
								t := get(bnd)
								if al, ok := bnd.(*ssa.Alloc); ok && al.Referrers() != nil {
									for _, r := range *al.Referrers() {
										if st, ok := r.(*ssa.Store); ok && st.Addr == al {
											t |= get(st.Val)
										}
									}
								}
								if a.free[cf.FreeVars[i]]|t != a.free[cf.FreeVars[i]] {
									a.free[cf.FreeVars[i]] |= t
									a.changed = true
								}
							}
						}
					}
				case *ssa.Store:
					tv := get(x.Val)
					if f := core.FieldOf(x.Addr); f != nil {
						a.setField(f, tv)
					}
					if ia, ok := x.Addr.(*ssa.IndexAddr); ok && tv != 0 {
						a.hold(ia.X)
					}
					// sink: writing through an owned pointer
					if out != nil {
						if root := addrRoot(x.Addr); root != nil && get(root)&tOwn != 0 {
							if _, isAlloc := root.(*ssa.Alloc); !isAlloc {
								report(x.Pos(), "stores through a pointer into caller-owned / store-owned / shared-AST data ("+core.ShortVal(x.Addr)+")")
							}
						}
					}
				case *ssa.MapUpdate:
					tv := get(x.Value)
					if tv != 0 {
						a.hold(x.Map)
					}
					if out != nil && get(x.Map)&tOwn != 0 {
						report(x.Pos(), "updates a map that belongs to the caller or was returned by the store ("+core.ShortVal(x.Map)+")")
					}
				case *ssa.Return:
					for i, r := range x.Results {
						a.setRet(fn, i, get(r))
					}
				case ssa.CallInstruction:
					call := x.Common()
					v, _ := in.(ssa.Value)
					args := core.CallArgs(call)
					// builtins
					if bi, ok := call.Value.(*ssa.Builtin); ok {
						switch bi.Name() {
						case "delete", "clear":
							if out != nil && get(args[0])&tOwn != 0 {
								report(x.Pos(), bi.Name()+"() on a map that belongs to the caller or the store")
							}
						case "append":
							if v != nil {
								t := get(args[0])
								if len(args) > 1 {
									t |= get(args[1])
								}
								progress = set(v, t) || progress
							}
						case "copy":
							if out != nil && get(args[0])&tOwn != 0 {
								report(x.Pos(), "copy() into caller-owned storage")
							}
						}
						continue
					}
					obj := core.CalleeObj(call)
					if a.srcCall != nil && v != nil {
						if cl, ok := in.(*ssa.Call); ok && a.srcCall(cl) {
							progress = set(v, tOwn) || progress
							continue
						}
					}
					// source: Store methods
					if call.IsInvoke() && storeI != nil && v != nil {
						if types.Implements(call.Value.Type(), storeI) && types.Identical(call.Value.Type().Underlying(), storeI) {
							progress = set(v, tOwn) || progress
							continue
						}
					}
					// math/big: z.Op(x, y) returns z; mutators write z
					if tn, m := core.BigMethod(call); tn != "" {
						if v != nil {
							rt := get(args[0])
							if m == "Num" || m == "Denom" {
								rt = get(args[0])
							}
							progress = set(v, rt) || progress
						}
						if out != nil && bigMutator(m) && get(args[0])&tOwn != 0 && !(a.zeroSetOK && isZeroSet(m, args)) {
							report(x.Pos(), "in-place big."+tn+"."+m+" on a number that belongs to the caller / was returned by the store / is part of the shared AST: the input is mutated")
						}
						continue
					}
					// known mutators of the standard library
					if obj != nil && obj.Pkg() != nil && out != nil {
						pp := obj.Pkg().Path()
						if (pp == "slices" || pp == "sort" || strings.HasSuffix(pp, "exp/slices")) && (strings.HasPrefix(obj.Name(), "Sort") || obj.Name() == "Reverse" || obj.Name() == "Slice" || obj.Name() == "Stable") && len(args) > 0 && get(args[0])&tOwn != 0 {
							report(x.Pos(), pp+"."+obj.Name()+" reorders caller-owned storage in place")
						}
						if (pp == "maps" || strings.HasSuffix(pp, "exp/maps")) && (obj.Name() == "Copy" || obj.Name() == "DeleteFunc" || obj.Name() == "Clear") && len(args) > 0 && get(args[0])&tOwn != 0 {
							report(x.Pos(), pp+"."+obj.Name()+" writes a caller-owned map")
						}
					}
					// module callees (static or via the call graph)
					var callees []*ssa.Function
					if sc := call.StaticCallee(); sc != nil {
						callees = []*ssa.Function{sc}
					} else if node := a.c.P.CallGraph().Nodes[fn]; node != nil {
						for _, e := range node.Out {
							if e.Site == x {
								callees = append(callees, e.Callee.Func)
							}
						}
					}
					var rt taintBits
					known := false
					for _, cal := range callees {
						if !a.inScope[cal] {
							continue
						}
						known = true
						for i, arg := range args {
							a.setParam(cal, i, get(arg))
						}
						if v != nil {
							if tup, ok := v.Type().(*types.Tuple); ok {
								for i := 0; i < tup.Len(); i++ {
									rt |= a.ret[cal][i]
								}
							} else if len(a.ret[cal]) > 0 {
								rt |= a.ret[cal][0]
							}
						}
					}
					if v != nil {
						if !known {
							// unknown callee: the result may alias its reference arguments
							for _, arg := range args {
								if isRefType(arg.Type()) {
									rt |= get(arg)
								}
							}
							// pure library readers return fresh data
							if obj != nil && obj.Pkg() != nil {
								switch obj.Pkg().Path() {
								case "strings", "strconv", "fmt", "regexp", "unicode/utf8", "math":
									rt = 0
								}
								if strings.HasSuffix(obj.Pkg().Path(), "exp/maps") && (obj.Name() == "Keys" || obj.Name() == "Values") {
									rt = 0
								}
								if obj.Pkg().Path() == "slices" && (obj.Name() == "Contains" || obj.Name() == "Index") {
									rt = 0
								}
							}
						}
						progress = set(v, rt) || progress
					}
				}
			}
		}
		if !progress {
			break
		}
	}
}

func boolBits(b bool, t taintBits) taintBits {
	if b {
		return t
	}
	return 0
}

// hold records that a container (map/slice value) received an owned object: containers of
// that type are treated as holding owned objects from now on (type-granular, conservative).
func (a *taintAn) hold(container ssa.Value) {
	k := typeKey(container.Type())
	if !a.heldType[k] {
		a.heldType[k] = true
		a.changed = true
	}
	if ld, ok := container.(*ssa.UnOp); ok {
		if f := core.FieldOf(ld.X); f != nil {
			a.setField(f, tHolds)
		}
	}
}

// isASTField: a reference-typed field of an AST node struct of internal/parser.
func (a *taintAn) isASTField(f *types.Var) bool {
	if f.Pkg() == nil {
		return false
	}
	rel, ok := core.Rel(f.Pkg())
	if !ok || rel != "internal/parser" {
		return false
	}
	switch types.Unalias(f.Type()).Underlying().(type) {
	case *types.Pointer, *types.Slice, *types.Map, *types.Interface:
		return true
	}
	return false
}

// addrRoot follows field/index addressing to the base pointer.
func addrRoot(v ssa.Value) ssa.Value {
	for i := 0; i < 10; i++ {
		switch x := v.(type) {
		case *ssa.FieldAddr:
			v = x.X
		case *ssa.IndexAddr:
			v = x.X
		case *ssa.ChangeType:
			v = x.X
		default:
			return v
		}
	}
	return v
}

// isZeroSet: z.Set(<zero>) / z.SetInt64(0): the receiver's digits are not written.
func isZeroSet(m string, args []ssa.Value) bool {
	switch m {
	case "Set":
		return len(args) > 1 && isZeroBig(args[1])
	case "SetInt64", "SetUint64":
		if len(args) > 1 {
			k, ok := core.ConstInt(core.Strip(args[1]))
			return ok && k == 0
		}
	}
	return false
}
