// Package rules holds the rule templates of DESIGN.md section 3.
package rules

import (
	"go/ast"
	"go/types"

	"nsa/core"
	"nsa/model"

	"golang.org/x/tools/go/ssa"
)

// Ctx is what a rule sees: the loaded program, the derived model and the report.
type Ctx struct {
	P    *core.Program
	M    *model.Model
	R    *core.Report
	Tier string

	switches      []*model.TypeSwitch
	iroles        *IRoles
	grammar       *model.Grammar
	gramErr       error
	reach         map[string]map[*ssa.Function]*ssa.Function
	lf            *lenFacts
	counterFields map[*types.Var]bool

	reconcilerFn   *ssa.Function
	reconcilerDone bool
	fnValues       map[*ssa.Function]bool
}

func NewCtx(p *core.Program, r *core.Report, tier string) *Ctx {
	for _, pkg := range p.All {
		if pkg.PkgPath == "math/big" {
			for _, n := range []string{"Int", "Rat"} {
				if tn, ok := pkg.Types.Scope().Lookup(n).(*types.TypeName); ok {
					bigPkgTypes[n], _ = tn.Type().(*types.Named)
				}
			}
		}
	}
	return &Ctx{P: p, M: model.Build(p), R: r, Tier: tier, reach: map[string]map[*ssa.Function]*ssa.Function{}}
}

func (c *Ctx) Switches() []*model.TypeSwitch {
	if c.switches == nil {
		c.switches = c.M.TypeSwitches()
	}
	return c.switches
}

// Fn resolves a module function; records an undecided instance on ob when missing.
func (c *Ctx) Fn(ob *core.Obligation, rel, name string) *ssa.Function {
	f := c.P.LookupFunc(rel, name)
	if f == nil {
		if ob != nil {
			ob.Unknown("anchor:"+rel+"."+name, "-", "anchor function not found in /repo (renamed or removed): the rule cannot see the code it is about")
		}
		return nil
	}
	sf := c.P.SSAFunc(f)
	if sf == nil && ob != nil {
		ob.Unknown("anchor:"+rel+"."+name, "-", "no SSA for anchor function")
	}
	if sf != nil {
		c.R.Functions[core.SSAName(sf)] = true
	}
	return sf
}

// ReachFrom memoises reachability from a set of named roots.
func (c *Ctx) ReachFrom(key string, roots ...*ssa.Function) map[*ssa.Function]*ssa.Function {
	if r, ok := c.reach[key]; ok {
		return r
	}
	r := c.P.Reachable(roots...)
	c.reach[key] = r
	return r
}

// DeclFn returns the SSA function for the declared function enclosing a type switch.
func (c *Ctx) DeclFn(f *types.Func) *ssa.Function { return c.P.SSAFunc(f) }

// Touch records that fn was analysed.
func (c *Ctx) Touch(fn *ssa.Function) {
	if fn != nil {
		c.R.Functions[core.SSAName(fn)] = true
	}
}

// fieldSelections collects the struct fields explicitly selected anywhere in n.
func fieldSelections(info *types.Info, n ast.Node, into map[*types.Var]bool) {
	ast.Inspect(n, func(x ast.Node) bool {
		se, ok := x.(*ast.SelectorExpr)
		if !ok {
			return true
		}
		sel := info.Selections[se]
		if sel == nil {
			return true
		}
		if sel.Kind() == types.FieldVal {
			if v, ok := sel.Obj().(*types.Var); ok {
				into[v] = true
			}
		}
		return true
	})
}

// Grammar reads Numscript.g4 of the analysed repository (once).
func (c *Ctx) Grammar() (*model.Grammar, error) {
	if c.grammar == nil && c.gramErr == nil {
		c.grammar, c.gramErr = model.ReadGrammar(c.P.Cfg.Repo)
	}
	return c.grammar, c.gramErr
}

// importClosure returns the packages importable (transitively) from the packages of the roots.
func importClosure(roots []*ssa.Function) map[*types.Package]bool {
	seen := map[*types.Package]bool{}
	var visit func(p *types.Package)
	visit = func(p *types.Package) {
		if p == nil || seen[p] {
			return
		}
		seen[p] = true
		for _, q := range p.Imports() {
			visit(q)
		}
	}
	for _, r := range roots {
		if r != nil && r.Pkg != nil {
			visit(r.Pkg.Pkg)
		}
	}
	return seen
}

func pkgOfFn(fn *ssa.Function) *types.Package {
	for fn.Parent() != nil {
		fn = fn.Parent()
	}
	if fn.Pkg != nil {
		return fn.Pkg.Pkg
	}
	if fn.Origin() != nil && fn.Origin().Pkg != nil {
		return fn.Origin().Pkg.Pkg
	}
	return nil
}
