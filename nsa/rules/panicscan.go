package rules

import (
	"fmt"
	"go/ast"
	"go/token"
	"go/types"
	"regexp"
	"sort"
	"strings"

	"nsa/core"
	"nsa/model"

	"golang.org/x/tools/go/ssa"
)

// PanicException discharges one named site by a stated reason, optionally guarded by a
// mechanical side condition that must still hold on the current tree.
type PanicException struct {
	Reason string
	Side   func(c *Ctx, fn *ssa.Function, in ssa.Instruction) (bool, string)
}

// PanicScan inventories every may-panic site in the hand-written module functions reachable
// from the roots and requires each to be discharged mechanically or by the exception table.
func (c *Ctx) PanicScan(ob *core.Obligation, reachKey string, roots []*ssa.Function, exc map[string]PanicException) {
	reach := c.ReachFrom(reachKey, roots...)
	// a function of a package that the entry points' packages cannot import is only "reachable"
	// through call-graph imprecision inside third-party code (sort callbacks etc.): ignore it
	closure := importClosure(roots)
	var fns []*ssa.Function
	for fn := range reach {
		if c.P.InModule(fn) && fn.Blocks != nil && closure[pkgOfFn(fn)] {
			fns = append(fns, fn)
		}
	}
	sortFns(fns)
	used := map[string]bool{}
	nsites := 0
	for _, fn := range fns {
		c.Touch(fn)
		var pcs *core.PathConds
		pc := func() *core.PathConds {
			if pcs == nil {
				pcs = core.NewPathConds(fn)
			}
			return pcs
		}
		name := core.SSAName(fn)
		for _, b := range fn.Blocks {
			for _, in := range b.Instrs {
				kind, detail := c.siteKind(fn, in)
				if kind == "" {
					continue
				}
				nsites++
				// the construct key is function + site kind (+ callee for division-like calls): local
				// renames and statement moves do not change it; the expression is kept for the report
				key := "panic:" + name + ":" + kind
				if detail != "" && (kind == "bigdiv" || kind == "typeassert") {
					key += ":" + detail
				}
				pos := c.P.Pos(in.Pos())
				if !in.Pos().IsValid() {
					pos = c.P.Pos(fn.Pos())
				}
				if ok, why := c.dischargeSite(fn, in, kind, pc); ok {
					ob.Pass(key, pos, why)
					continue
				}
				e, ok := exc[key]
				if !ok {
					// exceptions may also be keyed by the shape of the site (independent of the
					// name of the enclosing function)
					if sh := c.siteShape(fn, in, kind, pc); sh != "" {
						e, ok = exc["shape:"+relOfFn(fn)+":"+kind+":"+sh]
					}
				}
				if ok {
					used[key] = true
					if e.Side != nil {
						if good, why := e.Side(c, fn, in); !good {
							ob.Fail(key, pos, "exception '"+e.Reason+"' no longer justified: "+why+" (entry path: "+core.Path(reach, fn)+")")
							continue
						}
					}
					ob.Pass(key, pos, "exception: "+e.Reason)
					continue
				}
				ob.Fail(key, pos, "may-panic site ("+kind+" "+detail+") reachable via "+core.Path(reach, fn)+" is neither discharged by a guard nor listed as a justified exception")
			}
		}
	}
	c.R.CallSites += nsites
}

// siteShape describes a site by what guards or feeds it rather than by where it is:
//
//	explicit / setstring10-failed            a panic reached only when a base-ten
//	                                         big.Int.SetString has failed
//	explicit / setstring10-failed-in-callee  a panic reached only when a module function has
//	                                         returned an error, which that function only does
//	                                         when a base-ten SetString has failed
//	index / split-const                      a constant index into the result of strings.Split
//	                                         with a constant separator
func (c *Ctx) siteShape(fn *ssa.Function, in ssa.Instruction, kind string, pc func() *core.PathConds) string {
	// sites of the error renderer: functions reachable from the method that shows a Range on
	// its source (their bounds are runtime quantities: an assumption stated in the evidence)
	if (kind == "slice" || kind == "index" || kind == "repeat") && c.inRenderer(fn) {
		return "renderer"
	}
	switch kind {
	case "explicit":
		if pc().Requires(in.Block(), setString10Failed) {
			return "setstring10-failed"
		}
		inCallee := pc().Requires(in.Block(), func(l core.Lit) bool {
			bo, ok := l.Cond.(*ssa.BinOp)
			if !ok || (bo.Op != token.NEQ && bo.Op != token.EQL) {
				return false
			}
			var other ssa.Value
			if core.IsNilConst(bo.Y) {
				other = bo.X
			} else if core.IsNilConst(bo.X) {
				other = bo.Y
			}
			ex, ok := other.(*ssa.Extract)
			if !ok || (bo.Op == token.NEQ) != l.Val {
				return false
			}
			call, ok := ex.Tuple.(*ssa.Call)
			if !ok {
				return false
			}
			sc := call.Call.StaticCallee()
			if sc == nil || !c.P.InModule(sc) || len(sc.Blocks) == 0 || errIndex(sc.Signature) != ex.Index {
				return false
			}
			// every error return of the callee is under a failed base-ten SetString
			pcc := core.NewPathConds(sc)
			n := 0
			for _, ret := range core.Returns(sc) {
				if ex.Index >= len(ret.Results) || core.IsNilConst(ret.Results[ex.Index]) {
					continue
				}
				n++
				if !pcc.Requires(ret.Block(), setString10Failed) {
					return false
				}
			}
			return n > 0
		})
		if inCallee {
			return "setstring10-failed-in-callee"
		}
	case "index":
		var x, idx ssa.Value
		switch y := in.(type) {
		case *ssa.IndexAddr:
			x, idx = y.X, y.Index
		case *ssa.Index:
			x, idx = y.X, y.Index
		}
		if x == nil {
			return ""
		}
		if _, isConst := core.ConstInt(idx); !isConst {
			return ""
		}
		if call, ok := resolveLocal(x).(*ssa.Call); ok && core.IsFunc(core.CalleeObj(&call.Call), "strings", "Split") {
			if _, ok := core.ConstString(call.Call.Args[1]); ok {
				return "split-const"
			}
		}
	}
	return ""
}

// inRenderer: fn is the exported method of parser.Range that renders it on a source text, a
// closure of it, or a function of the package only it calls.
func (c *Ctx) inRenderer(fn *ssa.Function) bool {
	if relOfFn(fn) != "internal/parser" {
		return false
	}
	isRoot := func(g *ssa.Function) bool {
		for g.Parent() != nil {
			g = g.Parent()
		}
		recv := g.Signature.Recv()
		if recv == nil || typeShort(derefT(recv.Type())) != "Range" || g.Object() == nil || !g.Object().Exported() {
			return false
		}
		// takes the source text and returns text
		res := g.Signature.Results()
		return g.Signature.Params().Len() == 1 && res.Len() == 1 && isStringType(g.Signature.Params().At(0).Type()) && isStringType(res.At(0).Type())
	}
	if isRoot(fn) {
		return true
	}
	// every caller (in the module) is in the renderer
	seen := map[*ssa.Function]bool{}
	var onlyFromRenderer func(g *ssa.Function, d int) bool
	onlyFromRenderer = func(g *ssa.Function, d int) bool {
		if isRoot(g) {
			return true
		}
		if d > 3 || seen[g] {
			return false
		}
		seen[g] = true
		top := g
		for top.Parent() != nil {
			top = top.Parent()
		}
		n := 0
		for _, h := range c.P.ModuleFunctions() {
			for _, ci := range core.Calls(h) {
				if ci.Common().StaticCallee() == top {
					n++
					if !onlyFromRenderer(h, d+1) {
						return false
					}
				}
			}
		}
		return n > 0
	}
	return onlyFromRenderer(fn, 0)
}

func isStringType(t types.Type) bool {
	b, ok := t.Underlying().(*types.Basic)
	return ok && b.Kind() == types.String
}

// setString10Failed: the literal says that the ok result of (*big.Int).SetString(_, 10) is false.
func setString10Failed(l core.Lit) bool {
	ex, ok := l.Cond.(*ssa.Extract)
	if !ok || ex.Index != 1 || l.Val {
		return false
	}
	call, ok := ex.Tuple.(*ssa.Call)
	if !ok {
		return false
	}
	tn, m := core.BigMethod(&call.Call)
	if tn != "Int" || m != "SetString" {
		return false
	}
	args := core.CallArgs(&call.Call)
	k, ok := core.ConstInt(args[len(args)-1])
	return ok && k == 10
}

// siteKind classifies an instruction as a may-panic site.
func (c *Ctx) siteKind(fn *ssa.Function, in ssa.Instruction) (string, string) {
	switch x := in.(type) {
	case *ssa.Panic:
		if model.NeverReturns(originObj(fn)) {
			return "", "" // the helper itself: its call sites are the sites
		}
		return "explicit", ""
	case *ssa.IndexAddr:
		if _, isArr := derefArray(x.X.Type()); isArr {
			if _, ok := core.ConstInt(x.Index); ok {
				return "", ""
			}
		}
		if isVariadicTemp(x.X) {
			return "", ""
		}
		return "index", c.exprAt(fn, in.Pos(), x.X, x.Index)
	case *ssa.Index:
		if _, ok := core.ConstInt(x.Index); ok {
			return "", ""
		}
		return "index", c.exprAt(fn, in.Pos(), x.X, x.Index)
	case *ssa.Lookup:
		if _, isMap := x.X.Type().Underlying().(*types.Map); isMap {
			return "", ""
		}
		return "index", c.exprAt(fn, in.Pos(), x.X, x.Index)
	case *ssa.Slice:
		if x.Low == nil && x.High == nil && x.Max == nil {
			return "", "" // s[:] never panics (array pointer of variadic temp / full slice)
		}
		return "slice", c.sliceExprAt(fn, x)
	case *ssa.TypeAssert:
		if !x.CommaOk {
			return "typeassert", typeShort(x.AssertedType)
		}
	case *ssa.BinOp:
		if (x.Op == token.QUO || x.Op == token.REM) && isInt(x.X.Type()) {
			if k, ok := core.ConstInt(x.Y); ok && k != 0 {
				return "", ""
			}
			return "intdiv", ""
		}
	case *ssa.MakeSlice:
		if _, ok := core.ConstInt(x.Len); ok {
			return "", ""
		}
		if isLenCall(x.Len) {
			return "", ""
		}
		return "makeslice", ""
	case *ssa.SliceToArrayPointer:
		return "slice2array", ""
	case ssa.CallInstruction:
		call := x.Common()
		obj := core.CalleeObj(call)
		if obj == nil {
			return "", ""
		}
		if _, ok := core.Rel(obj.Pkg()); ok && model.NeverReturns(obj) {
			return "unreachable-helper", ""
		}
		tn, m := core.BigMethod(call)
		if tn != "" {
			switch m {
			case "SetFrac", "Quo", "Div", "Mod", "Rem", "QuoRem", "DivMod", "Inv", "SetFrac64":
				return "bigdiv", tn + "." + m
			}
		}
		if core.IsFunc(obj, "math/big", "NewRat") {
			if k, ok := core.ConstInt(call.Args[1]); ok && k != 0 {
				return "", ""
			}
			return "bigdiv", "NewRat"
		}
		if core.IsFunc(obj, "strings", "Repeat") {
			if k, ok := core.ConstInt(call.Args[1]); ok && k >= 0 {
				return "", ""
			}
			if isLenCall(call.Args[1]) {
				return "", ""
			}
			return "repeat", ""
		}
		if core.IsFunc(obj, "regexp", "MustCompile") {
			if _, ok := call.Args[0].(*ssa.Const); !ok {
				return "mustcompile", ""
			}
		}
	}
	return "", ""
}

func originObj(fn *ssa.Function) *types.Func {
	for fn.Parent() != nil {
		fn = fn.Parent()
	}
	o := fn
	if fn.Origin() != nil {
		o = fn.Origin()
	}
	obj, _ := o.Object().(*types.Func)
	if obj == nil {
		return types.NewFunc(token.NoPos, nil, "?", types.NewSignatureType(nil, nil, nil, nil, nil, false))
	}
	return obj
}

func derefArray(t types.Type) (*types.Array, bool) {
	if p, ok := t.Underlying().(*types.Pointer); ok {
		a, ok := p.Elem().Underlying().(*types.Array)
		return a, ok
	}
	a, ok := t.Underlying().(*types.Array)
	return a, ok
}

// isVariadicTemp: index into the synthetic array go/ssa allocates for variadic arguments / slice literals.
func isVariadicTemp(v ssa.Value) bool {
	al, ok := v.(*ssa.Alloc)
	if !ok {
		return false
	}
	return al.Comment == "varargs" || al.Comment == "slicelit" || al.Comment == "makeslice"
}

func isInt(t types.Type) bool {
	b, ok := t.Underlying().(*types.Basic)
	return ok && b.Info()&types.IsInteger != 0
}

func isLenCall(v ssa.Value) bool {
	v = core.Strip(v)
	if c, ok := v.(*ssa.Call); ok {
		if b, ok := c.Call.Value.(*ssa.Builtin); ok && (b.Name() == "len" || b.Name() == "cap") {
			return true
		}
	}
	return false
}

// exprAt renders the indexed expression from the syntax (stable across line moves), falling
// back to SSA names for synthetic instructions.
func (c *Ctx) exprAt(fn *ssa.Function, pos token.Pos, x, idx ssa.Value) string {
	if n := c.nodeAt(fn, pos); n != nil {
		return strings.Join(strings.Fields(types.ExprString(n)), "")
	}
	return "<range>"
}

func (c *Ctx) sliceExprAt(fn *ssa.Function, s *ssa.Slice) string {
	if n := c.nodeAt(fn, s.Pos()); n != nil {
		return strings.Join(strings.Fields(types.ExprString(n)), "")
	}
	return "<slice>"
}

// nodeAt finds the index/slice expression whose '[' is at pos inside fn's syntax.
func (c *Ctx) nodeAt(fn *ssa.Function, pos token.Pos) ast.Expr {
	if !pos.IsValid() {
		return nil
	}
	root := fn
	for root.Parent() != nil {
		root = root.Parent()
	}
	syn := root.Syntax()
	if syn == nil && root.Origin() != nil {
		syn = root.Origin().Syntax()
	}
	if syn == nil {
		return nil
	}
	var found ast.Expr
	ast.Inspect(syn, func(n ast.Node) bool {
		switch e := n.(type) {
		case *ast.IndexExpr:
			if e.Lbrack == pos {
				found = e
			}
		case *ast.SliceExpr:
			if e.Lbrack == pos {
				found = e
			}
		}
		return found == nil
	})
	return found
}

// dischargeSite tries the mechanical discharge rules of DESIGN.md 3.2.
func (c *Ctx) dischargeSite(fn *ssa.Function, in ssa.Instruction, kind string, pc func() *core.PathConds) (bool, string) {
	switch kind {
	case "unreachable-helper":
		return c.dischargeUnreachable(fn, in)
	case "index":
		var x, idx ssa.Value
		switch y := in.(type) {
		case *ssa.IndexAddr:
			x, idx = y.X, y.Index
		case *ssa.Index:
			x, idx = y.X, y.Index
		case *ssa.Lookup:
			x, idx = y.X, y.Index
		}
		return c.boundsOK(in.Block(), x, idx, 0, pc())
	case "slice":
		s := in.(*ssa.Slice)
		// s[lo:hi]: need 0 <= lo <= hi <= len(s)   (cap for slices; len is sufficient)
		if s.Max != nil {
			return false, ""
		}
		okAll := true
		why := []string{}
		if s.High != nil {
			if ok, w := c.boundsOK(in.Block(), s.X, s.High, 1, pc()); ok {
				why = append(why, "high: "+w)
			} else {
				okAll = false
			}
		}
		if s.Low != nil {
			hiSlack := int64(1)
			if ok, w := c.boundsOK(in.Block(), s.X, s.Low, hiSlack, pc()); ok && s.High == nil {
				why = append(why, "low: "+w)
			} else if s.High != nil && okAll {
				// low <= high
				if c.leq(in.Block(), s.Low, s.High, pc(), s.X) {
					why = append(why, "low<=high")
				} else {
					okAll = false
				}
			} else {
				okAll = false
			}
		}
		return okAll, strings.Join(why, "; ")
	case "bigdiv":
		call := in.(ssa.CallInstruction).Common()
		args := core.CallArgs(call)
		_, m := core.BigMethod(call)
		var div ssa.Value
		switch m {
		case "Inv":
			div = args[1]
		case "":
			div = args[1] // NewRat
		default:
			div = args[2]
		}
		return c.nonZeroBig(in.Block(), div, pc())
	}
	return false, ""
}

// dischargeUnreachable: a call of a never-returning helper is fine in the default arm of an
// exhaustive switch over a closed sum, or of a value switch covering every constant of its type.
func (c *Ctx) dischargeUnreachable(fn *ssa.Function, in ssa.Instruction) (bool, string) {
	if ok, why := c.dischargeUnreachableSyntax(fn, in); ok {
		return ok, why
	}
	// the same thing written as an if / else-if chain of comma-ok assertions
	if b := in.Block(); len(b.Preds) == 1 && c.closedSumNoMatchEdge(b.Preds[0], b) {
		return true, "reached only when the assertion to every implementer of the closed sum has failed"
	}
	// ... or as an if chain comparing one value with every declared constant of its type
	if c.allConstantsExcluded(fn, in.Block()) {
		return true, "reached only when the value differs from every declared constant of its type"
	}
	return false, ""
}

// allConstantsExcluded: on every path to b some value of a named (or alias-declared) type has
// been compared unequal to every constant of that type declared in the type's package.
func (c *Ctx) allConstantsExcluded(fn *ssa.Function, b *ssa.BasicBlock) bool {
	pc := core.NewPathConds(fn)
	dnf := pc.At(b)
	if len(dnf) == 0 {
		return false
	}
	for _, term := range dnf {
		excluded := map[string]map[string]bool{}
		typeOf := map[string]types.Type{}
		for _, l := range term {
			bo, ok := l.Cond.(*ssa.BinOp)
			if !ok || !((bo.Op == token.EQL && !l.Val) || (bo.Op == token.NEQ && l.Val)) {
				continue
			}
			x, k := bo.X, bo.Y
			if _, isK := x.(*ssa.Const); isK {
				x, k = k, x
			}
			kc, ok := k.(*ssa.Const)
			if !ok || kc.Value == nil {
				continue
			}
			key := core.Canon(core.Strip(x))
			if excluded[key] == nil {
				excluded[key] = map[string]bool{}
			}
			excluded[key][kc.Value.ExactString()] = true
			typeOf[key] = x.Type()
		}
		okTerm := false
		for key, ex := range excluded {
			t := typeOf[key]
			var declPkg *types.Package
			switch tt := t.(type) {
			case *types.Named:
				declPkg = tt.Obj().Pkg()
			case *types.Alias:
				declPkg = tt.Obj().Pkg()
			}
			if declPkg == nil {
				continue
			}
			n, miss := 0, 0
			for _, name := range declPkg.Scope().Names() {
				k, ok := declPkg.Scope().Lookup(name).(*types.Const)
				if !ok || !types.Identical(k.Type(), t) {
					continue
				}
				n++
				if !ex[k.Val().ExactString()] {
					miss++
				}
			}
			if n > 0 && miss == 0 {
				okTerm = true
			}
		}
		if !okTerm {
			return false
		}
	}
	return true
}

func (c *Ctx) dischargeUnreachableSyntax(fn *ssa.Function, in ssa.Instruction) (bool, string) {
	// locate the call in the syntax
	root := fn
	for root.Parent() != nil {
		root = root.Parent()
	}
	obj := originObj(fn)
	fd := c.P.Decl(obj)
	if fd == nil {
		return false, ""
	}
	var call ast.Node
	ast.Inspect(fd, func(n ast.Node) bool {
		if ce, ok := n.(*ast.CallExpr); ok && (ce.Lparen == in.Pos() || ce.Pos() == in.Pos()) {
			call = ce
		}
		return call == nil
	})
	if call == nil {
		return false, ""
	}
	// climb to the enclosing case clause
	for n := c.P.Parent(call); n != nil; n = c.P.Parent(n) {
		cc, ok := n.(*ast.CaseClause)
		if !ok {
			continue
		}
		if cc.List != nil {
			return false, "" // not a default arm
		}
		sw := c.P.Parent(c.P.Parent(cc))
		switch s := sw.(type) {
		case *ast.TypeSwitchStmt:
			for _, ts := range c.Switches() {
				if ts.Stmt == s {
					missing := 0
					for _, impl := range ts.Sum.Impls {
						if cl, _ := ts.Covers(impl, ts.Sum.ByValue[impl]); cl == nil {
							missing++
						}
					}
					if missing == 0 {
						return true, "default arm of an exhaustive switch over " + ts.Sum.Name()
					}
					return false, ""
				}
			}
			return false, ""
		case *ast.SwitchStmt:
			return c.valueSwitchExhaustive(s)
		}
		return false, ""
	}
	return false, ""
}

// valueSwitchExhaustive: every constant of the tag's declared (named or alias-declared) type
// that the package defines in the same const block family is a case label.
func (c *Ctx) valueSwitchExhaustive(s *ast.SwitchStmt) (bool, string) {
	if s.Tag == nil {
		return false, ""
	}
	var pkgInfo *types.Info
	var tpkg *types.Package
	for _, pkg := range c.P.Pkgs {
		if _, ok := pkg.TypesInfo.Types[s.Tag]; ok {
			pkgInfo = pkg.TypesInfo
			tpkg = pkg.Types
		}
	}
	if pkgInfo == nil {
		return false, ""
	}
	labels := map[string]bool{}
	for _, st := range s.Body.List {
		for _, e := range st.(*ast.CaseClause).List {
			if tv := pkgInfo.Types[e]; tv.Value != nil {
				labels[tv.Value.ExactString()] = true
			}
		}
	}
	tagT := pkgInfo.Types[s.Tag].Type
	// constants of exactly that type declared in the type's package
	var declPkg *types.Package
	if n, ok := tagT.(*types.Named); ok {
		declPkg = n.Obj().Pkg()
	} else if al, ok := tagT.(*types.Alias); ok {
		declPkg = al.Obj().Pkg()
	} else {
		declPkg = tpkg
	}
	if declPkg == nil {
		return false, ""
	}
	n, miss := 0, []string{}
	for _, name := range declPkg.Scope().Names() {
		k, ok := declPkg.Scope().Lookup(name).(*types.Const)
		if !ok || !types.Identical(k.Type(), tagT) {
			continue
		}
		if _, isAlias := tagT.(*types.Alias); !isAlias {
			if _, isNamed := tagT.(*types.Named); !isNamed {
				continue
			}
		}
		n++
		if !labels[k.Val().ExactString()] {
			miss = append(miss, name)
		}
	}
	if n == 0 || len(miss) > 0 {
		return false, ""
	}
	return true, fmt.Sprintf("default arm of a switch covering all %d declared constants of %s", n, typeShort(tagT))
}

// boundsOK: on every path to block b, 0 <= idx and idx + slack... precisely: idx < len(x) + slack.
func (c *Ctx) boundsOK(b *ssa.BasicBlock, x, idx ssa.Value, slack int64, pc *core.PathConds, skipLower ...bool) (bool, string) {
	lenTerm := "len(" + core.Canon(x) + ")"
	if arr, ok := derefArray(x.Type()); ok {
		// fixed-size array: compare with the constant length
		it, io := core.Linear(idx)
		if it == "0" {
			return io >= 0 && io < arr.Len()+slack, "constant index into array"
		}
		lenTerm = fmt.Sprintf("arraylen%d", arr.Len())
	}
	it, io := core.Linear(idx)
	dnf := pc.At(b)
	if dnf == nil {
		return true, "unreachable block"
	}
	if fnOf := b.Parent(); fnOf != nil && c.lenFacts().indexParamInRange(fnOf, x, idx, b, pc) {
		return true, "at every call site the index is a loop index over a slice of the same length (or -1, excluded here)"
	}
	minLen, exactLens := knownLen(x)
	if tl := c.textMinLen(x); tl > minLen {
		minLen = tl
	}
	var same []ssa.Value
	var idxOver ssa.Value
	if _, isSlice := x.Type().Underlying().(*types.Slice); isSlice {
		same = c.lenFacts().sameLen(x, b, pc)
		idxOver = c.lenFacts().rangeIndexOver(idx, b, pc)
	}
	for _, term := range dnf {
		d := core.NewDiffSys()
		d.Add("0", lenTerm, 0) // len >= 0
		for _, v := range same {
			t := "len(" + core.Canon(v) + ")"
			if t != lenTerm {
				d.Add(lenTerm, t, 0)
				d.Add(t, lenTerm, 0)
			}
		}
		if idxOver != nil {
			t := "len(" + core.Canon(idxOver) + ")"
			it0, io0 := core.Linear(core.Strip(idx))
			d.Add("0", it0, io0)  // 0 <= idx
			d.Add(it0, t, -1-io0) // idx <= len(X) - 1
		}
		if arr, ok := derefArray(x.Type()); ok {
			d.Add(lenTerm, "0", arr.Len())
			d.Add("0", lenTerm, -arr.Len())
		}
		if minLen > 0 {
			d.Add("0", lenTerm, -minLen)
		}
		for _, l := range term {
			// every len() term mentioned is non-negative
			if bo, ok := l.Cond.(*ssa.BinOp); ok {
				for _, side := range []ssa.Value{bo.X, bo.Y} {
					if t, _ := core.Linear(side); strings.HasPrefix(t, "len(") {
						d.Add("0", t, 0)
						// ... and equal to the length of the slices it is known to be as long as
						if lc := lenCallOf(side); lc != nil && len(same) > 0 {
							for _, v := range c.lenFacts().sameLen(lc.Call.Args[0], b, pc) {
								t2 := "len(" + core.Canon(v) + ")"
								if t2 != t {
									d.Add(t, t2, 0)
									d.Add(t2, t, 0)
								}
							}
						}
					}
				}
			}
			d.AddIntLiteral(l)
		}
		// regexp submatch: len is 0 or exactly N+1
		if len(exactLens) > 0 && d.Implies("0", lenTerm, -1) {
			mn := exactLens[0]
			for _, e := range exactLens {
				if e > 0 && (mn == 0 || e < mn) {
					mn = e
				}
			}
			d.Add("0", lenTerm, -mn)
		}
		// upper: idx+io <= len - 1 + slack   <=>  it - len <= slack - 1 - io
		if !d.Implies(it, lenTerm, slack-1-io) {
			return false, ""
		}
		// lower: idx+io >= 0  <=>  0 - it <= io
		if it == "0" {
			if io < 0 {
				return false, ""
			}
		} else if len(skipLower) > 0 && skipLower[0] {
			// lower bound justified by the caller
		} else if !d.Implies("0", it, io) && !nonNegByConstruction(idx) && !c.counterFieldLoad(idx) {
			return false, ""
		}
	}
	return true, "index proved within bounds from the path condition"
}

// lenCallOf: v is len(x) (possibly plus a constant): the len call.
func lenCallOf(v ssa.Value) *ssa.Call {
	for i := 0; i < 4; i++ {
		switch x := v.(type) {
		case *ssa.Call:
			if isLenCall(x) {
				return x
			}
			return nil
		case *ssa.BinOp:
			if _, ok := core.ConstInt(x.Y); ok {
				v = x.X
				continue
			}
			return nil
		case *ssa.Convert:
			v = x.X
			continue
		}
		return nil
	}
	return nil
}

// counterFieldLoad: idx is read from an integer struct field that starts at zero and is only
// ever written by `field = field + k` (k >= 0) or a non-negative constant, and whose address is
// never handed out: the value read is never negative.
func (c *Ctx) counterFieldLoad(idx ssa.Value) bool {
	ld, ok := core.Strip(idx).(*ssa.UnOp)
	if !ok || ld.Op != token.MUL {
		return false
	}
	f := core.FieldOf(ld.X)
	if f == nil {
		return false
	}
	if c.counterFields == nil {
		c.counterFields = map[*types.Var]bool{}
	}
	if v, ok := c.counterFields[f]; ok {
		return v
	}
	good := true
	for _, g := range c.P.ModuleFunctions() {
		for _, b := range g.Blocks {
			for _, in := range b.Instrs {
				fa, ok := in.(*ssa.FieldAddr)
				if !ok || core.FieldOf(fa) != f || fa.Referrers() == nil {
					continue
				}
				for _, r := range *fa.Referrers() {
					switch x := r.(type) {
					case *ssa.DebugRef:
					case *ssa.UnOp:
						if x.Op != token.MUL {
							good = false
						}
					case *ssa.Store:
						if x.Addr != ssa.Value(fa) {
							good = false
							continue
						}
						if k, ok := core.ConstInt(x.Val); ok && k >= 0 {
							continue
						}
						bo, ok := x.Val.(*ssa.BinOp)
						if !ok || bo.Op != token.ADD {
							good = false
							continue
						}
						k, isK := core.ConstInt(bo.Y)
						l2, isLd := bo.X.(*ssa.UnOp)
						if !isK || k < 0 || !isLd || core.FieldOf(l2.X) != f {
							good = false
						}
					default:
						good = false
					}
				}
			}
		}
	}
	c.counterFields[f] = good
	return good
}

func (c *Ctx) leq(b *ssa.BasicBlock, lo, hi ssa.Value, pc *core.PathConds, of ...ssa.Value) bool {
	lt, lo2 := core.Linear(lo)
	ht, ho := core.Linear(hi)
	for _, term := range pc.At(b) {
		d := core.NewDiffSys()
		for _, x := range of {
			// what is known about the length of the sliced value
			minLen, _ := knownLen(x)
			if tl := c.textMinLen(x); tl > minLen {
				minLen = tl
			}
			if minLen > 0 {
				d.Add("0", "len("+core.Canon(x)+")", -minLen)
			}
		}
		for _, l := range term {
			if bo, ok := l.Cond.(*ssa.BinOp); ok {
				for _, side := range []ssa.Value{bo.X, bo.Y} {
					if t, _ := core.Linear(side); strings.HasPrefix(t, "len(") {
						d.Add("0", t, 0)
					}
				}
			}
			d.AddIntLiteral(l)
		}
		if strings.HasPrefix(ht, "len(") {
			d.Add("0", ht, 0)
		}
		// lo+lo2 <= hi+ho  <=> lt - ht <= ho - lo2
		if !d.Implies(lt, ht, ho-lo2) {
			return false
		}
	}
	return true
}

// nonNegByConstruction: the induction variable of a range loop (phi of -1/0 and itself+1),
// a len(), or such a value plus a non-negative constant.
func nonNegByConstruction(v ssa.Value) bool {
	v = core.Strip(v)
	switch x := v.(type) {
	case *ssa.Call:
		return isLenCall(x)
	case *ssa.BinOp:
		if x.Op == token.ADD {
			if k, ok := core.ConstInt(x.Y); ok && k >= 0 {
				if k >= 1 {
					if ph, ok := x.X.(*ssa.Phi); ok && rangePhi(ph, x) {
						return true
					}
				}
				return nonNegByConstruction(x.X)
			}
		}
	case *ssa.Phi:
		for _, e := range x.Edges {
			if k, ok := core.ConstInt(e); ok {
				if k < 0 {
					return false
				}
				continue
			}
			if bo, ok := e.(*ssa.BinOp); ok && bo.Op == token.ADD && bo.X == x {
				if k, ok := core.ConstInt(bo.Y); ok && k >= 0 {
					continue
				}
			}
			return false
		}
		return true
	case *ssa.Extract:
		// index result of a range over string/map: next() tuple; treat the key of "range slice" lowered form only
		return false
	}
	return false
}

// rangePhi: ph = phi[-1, ph+1] (the rotated range-over-slice loop of go/ssa).
func rangePhi(ph *ssa.Phi, inc *ssa.BinOp) bool {
	for _, e := range ph.Edges {
		if k, ok := core.ConstInt(e); ok && k == -1 {
			continue
		}
		if e == inc {
			continue
		}
		return false
	}
	return true
}

var groupRe = regexp.MustCompile(`\((\?P<[^>]+>|[^?])`)

// textMinLen: x is the text of a token or of a parse-tree context (GetText()): a lower bound
// of its length, from the static type of the receiver and Numscript.g4:
//
//	a token              at least the shortest text of any lexer rule (conjured tokens and
//	                     EOF have longer texts)
//	*XContext            the alternative labelled X starts with a token that prediction has
//	                     seen: at least that token's shortest text
//	an interface-typed
//	parameter            the least of the above over every call site of the function
func (c *Ctx) textMinLen(x ssa.Value) int64 {
	x = resolveLocal(x)
	call, ok := x.(*ssa.Call)
	if !ok || !call.Call.IsInvoke() || call.Call.Method.Name() != "GetText" {
		if ok && !call.Call.IsInvoke() {
			if o := core.CalleeObj(&call.Call); o == nil || o.Name() != "GetText" {
				return 0
			}
		} else {
			return 0
		}
	}
	g, err := c.Grammar()
	if err != nil {
		return 0
	}
	var recv ssa.Value
	if call.Call.IsInvoke() {
		recv = call.Call.Value
	} else {
		recv = call.Call.Args[0]
	}
	return int64(c.recvTextMinLen(g, recv, 0))
}

func (c *Ctx) recvTextMinLen(g *model.Grammar, recv ssa.Value, depth int) int {
	if depth > 3 {
		return 0
	}
	recv = resolveLocal(recv)
	// a method promoted from an embedded base context: the receiver is &x.Embedded...
	for {
		fa, ok := recv.(*ssa.FieldAddr)
		if !ok {
			break
		}
		f := core.FieldOf(fa)
		if f == nil || !f.Embedded() {
			break
		}
		recv = resolveLocal(fa.X)
	}
	switch y := recv.(type) {
	case *ssa.MakeInterface:
		return c.recvTextMinLen(g, y.X, depth+1)
	case *ssa.ChangeInterface:
		return c.recvTextMinLen(g, y.X, depth+1)
	}
	t := recv.Type()
	if p, ok := types.Unalias(t).(*types.Pointer); ok {
		if n, ok := types.Unalias(p.Elem()).(*types.Named); ok && strings.HasSuffix(n.Obj().Name(), "Context") {
			if k, ok := g.AltMinTextLen(strings.TrimSuffix(n.Obj().Name(), "Context")); ok {
				return k
			}
		}
		return 0
	}
	if n, ok := types.Unalias(t).(*types.Named); ok && n.Obj().Name() == "Token" && n.Obj().Pkg() != nil && strings.Contains(n.Obj().Pkg().Path(), "antlr") {
		return g.AnyTokenMinLen()
	}
	// an interface-typed parameter: every call site
	if prm, ok := recv.(*ssa.Parameter); ok {
		fn := prm.Parent()
		idx := -1
		for i, q := range fn.Params {
			if q == prm {
				idx = i
			}
		}
		m, n := -1, 0
		for _, caller := range c.P.ModuleFunctions() {
			for _, ci := range core.Calls(caller) {
				if ci.Common().StaticCallee() != fn || idx >= len(ci.Common().Args) {
					continue
				}
				n++
				k := c.recvTextMinLen(g, ci.Common().Args[idx], depth+1)
				if m < 0 || k < m {
					m = k
				}
			}
		}
		if n == 0 || m < 0 {
			return 0
		}
		return m
	}
	// the first result of a comma-ok assertion / the bound variable of a type switch
	if ex, ok := recv.(*ssa.Extract); ok && ex.Index == 0 {
		if ta, ok := ex.Tuple.(*ssa.TypeAssert); ok {
			_ = ta
		}
	}
	return 0
}

// knownLen: lower bound on the length of a slice from how it was produced, and for regexp
// submatches the exact possible lengths {0, groups+1}.
func knownLen(x ssa.Value) (int64, []int64) {
	call, ok := core.Strip(x).(*ssa.Call)
	if !ok {
		return 0, nil
	}
	obj := core.CalleeObj(&call.Call)
	if obj == nil {
		return 0, nil
	}
	if core.IsFunc(obj, "strings", "Split") {
		if sep, ok := core.ConstString(call.Call.Args[1]); ok && sep != "" {
			return 1, nil
		}
	}
	if core.IsMethod(obj, "regexp", "Regexp", "FindStringSubmatch") || core.IsMethod(obj, "regexp", "Regexp", "FindSubmatch") {
		// receiver: load of a global initialised with MustCompile(const)
		recv := core.CallArgs(&call.Call)[0]
		if u, ok := recv.(*ssa.UnOp); ok {
			if g, ok := u.X.(*ssa.Global); ok {
				if pat, ok := globalRegexpPattern(g); ok {
					n := int64(len(groupRe.FindAllString(strings.ReplaceAll(pat, `\(`, ""), -1)))
					return 0, []int64{0, n + 1}
				}
			}
		}
	}
	return 0, nil
}

// globalRegexpPattern finds `g = regexp.MustCompile("const")` in the package initialiser,
// provided g is stored nowhere else.
func globalRegexpPattern(g *ssa.Global) (string, bool) {
	pkg := g.Pkg
	if pkg == nil {
		return "", false
	}
	var pat string
	stores := 0
	for _, m := range pkg.Members {
		fn, ok := m.(*ssa.Function)
		if !ok {
			continue
		}
		var visit func(f *ssa.Function)
		visit = func(f *ssa.Function) {
			for _, b := range f.Blocks {
				for _, in := range b.Instrs {
					if st, ok := in.(*ssa.Store); ok && st.Addr == g {
						stores++
						if call, ok := st.Val.(*ssa.Call); ok && core.IsFunc(core.CalleeObj(&call.Call), "regexp", "MustCompile") {
							if s, ok := core.ConstString(call.Call.Args[0]); ok {
								pat = s
							}
						}
					}
				}
			}
			for _, an := range f.AnonFuncs {
				visit(an)
			}
		}
		visit(fn)
	}
	// methods
	return pat, stores == 1 && pat != ""
}

// nonZeroBig: the big divisor is provably non-zero: Rat.Denom(), a non-zero constant,
// a positive power, or guarded on every path by a sign/zero test that excludes equality.
func (c *Ctx) nonZeroBig(b *ssa.BasicBlock, div ssa.Value, pc *core.PathConds) (bool, string) {
	d := core.Strip(div)
	if call, ok := d.(*ssa.Call); ok {
		tn, m := core.BigMethod(&call.Call)
		if tn == "Rat" && m == "Denom" {
			return true, "divisor is Rat.Denom(), documented > 0"
		}
		if core.IsFunc(core.CalleeObj(&call.Call), "math/big", "NewInt") {
			if k, ok := core.ConstInt(core.Strip(call.Call.Args[0])); ok && k != 0 {
				return true, "non-zero constant divisor"
			}
		}
		if tn == "Int" && m == "Exp" {
			args := core.CallArgs(&call.Call)
			if k, ok := newIntConst(args[1]); ok && k > 0 && core.IsNilConst(args[3]) {
				return true, "divisor is a power of a positive constant"
			}
		}
	}
	key := core.Canon(d)
	dnf := pc.At(b)
	if dnf == nil {
		return true, "unreachable"
	}
	for _, term := range dnf {
		ok := false
		for _, l := range term {
			cmp, rel, isCmp := core.DecodeCond(l.Cond)
			if !isCmp {
				continue
			}
			if !l.Val {
				rel = core.ANY &^ rel
			}
			if rel&core.EQ != 0 {
				continue
			}
			if core.Canon(core.Strip(cmp.A)) != key {
				continue
			}
			if cmp.B == nil || isZeroBig(cmp.B) {
				ok = true
			}
		}
		if !ok {
			return false, ""
		}
	}
	return true, "divisor tested non-zero on every path to the call"
}

// isZeroBig: big.NewInt(0) / big.NewRat(0, k) / new(big.Int) (zero value).
func isZeroBig(v ssa.Value) bool {
	v = core.Strip(v)
	if call, ok := v.(*ssa.Call); ok {
		obj := core.CalleeObj(&call.Call)
		if core.IsFunc(obj, "math/big", "NewInt") || core.IsFunc(obj, "math/big", "NewRat") {
			k, ok := core.ConstInt(core.Strip(call.Call.Args[0]))
			return ok && k == 0
		}
	}
	if al, ok := v.(*ssa.Alloc); ok {
		// new(big.Int) never written
		if al.Referrers() != nil {
			for _, r := range *al.Referrers() {
				if _, isDbg := r.(*ssa.DebugRef); isDbg {
					continue
				}
				if ci, ok := r.(ssa.CallInstruction); ok {
					if _, m := core.BigMethod(ci.Common()); m == "Cmp" || m == "Sign" {
						continue
					}
				}
				return false
			}
		}
		return core.IsNamedType(al.Type(), "math/big", "Int") || core.IsNamedType(al.Type(), "math/big", "Rat")
	}
	return false
}

// SortedKeys helper for reports.
func sortedKeys(m map[string]bool) []string {
	var out []string
	for k := range m {
		out = append(out, k)
	}
	sort.Strings(out)
	return out
}
