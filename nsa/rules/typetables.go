package rules

import (
	"fmt"
	"go/ast"
	"go/constant"
	"go/token"
	"go/types"
	"sort"
	"strings"

	"nsa/core"

	"golang.org/x/tools/go/ssa"
)

// The checker and the interpreter are two implementations of one typing discipline. Both
// tables are extracted from the code on every run:
//   runtime R: (AST node type . field) -> type names the interpreter accepts there
//              (evaluateExprAs(st, <node>.<field>, expectX)), and (builtin, index) -> type
//   checker K: (AST node type . field) -> type names the checker requires there
//              (res.checkExpression(<node>.<field>, TypeX)), and the Builtins table.

type TypeSet map[string]bool

func (s TypeSet) String() string {
	var k []string
	for x := range s {
		k = append(k, x)
	}
	sort.Strings(k)
	return "{" + strings.Join(k, "|") + "}"
}

type KEntry struct {
	Types     TypeSet // constant types required on ordinary arms
	AnyEscape bool    // an "any" arm exists only under a test of the inferred type (see DESIGN C17.1)
	PlainAny  bool    // an unconditional "any"
	Pos       token.Pos
}

type Tables struct {
	R       map[string]TypeSet
	RPos    map[string]token.Pos
	K       map[string]*KEntry
	RBuilt  map[string][]TypeSet // builtin name -> per-argument accepted types (runtime)
	RBuiltP map[string]token.Pos
	RCtx    map[string]string   // builtin name -> "statement" | "origin" (where the interpreter dispatches it)
	RRet    map[string]string   // origin builtin -> runtime return type name ("any" when parsed by declared type)
	KBuilt  map[string][]string // Builtins table: name -> Params
	KCtx    map[string]string
	KRet    map[string]string
	KPos    token.Pos
	Impl    map[string]*ssa.Function // builtin name -> implementing function
}

// ---------- expectation combinators ----------

// expectTypes returns the type names accepted by an expectation function value.
func (c *Ctx) expectTypes(v ssa.Value, depth int) TypeSet {
	out := TypeSet{}
	if depth > 8 {
		return out
	}
	switch x := v.(type) {
	case *ssa.Function:
		c.expectFnTypes(x, nil, out, depth)
	case *ssa.MakeClosure:
		if f, ok := x.Fn.(*ssa.Function); ok {
			c.expectFnTypes(f, x.Bindings, out, depth)
		}
	case *ssa.Call:
		// a combinator call returning an expectation: analyse the closure(s) it returns with the
		// call's function-typed arguments substituted for the callee's parameters
		callee := x.Call.StaticCallee()
		if callee == nil || callee.Blocks == nil {
			return out
		}
		for _, ret := range core.Returns(callee) {
			if len(ret.Results) != 1 {
				continue
			}
			if mc, ok := ret.Results[0].(*ssa.MakeClosure); ok {
				f := mc.Fn.(*ssa.Function)
				// bindings that are callee parameters map to this call's arguments
				var binds []ssa.Value
				for _, b := range mc.Bindings {
					binds = append(binds, substParam(b, callee, x.Call.Args))
				}
				c.expectFnTypes(f, binds, out, depth)
			}
		}
	case *ssa.Phi:
		for _, e := range x.Edges {
			for k := range c.expectTypes(e, depth+1) {
				out[k] = true
			}
		}
	case *ssa.ChangeType:
		return c.expectTypes(x.X, depth+1)
	}
	return out
}

// substParam maps a closure binding that is (the spill of) a parameter of callee to the argument.
func substParam(b ssa.Value, callee *ssa.Function, args []ssa.Value) ssa.Value {
	if p, ok := b.(*ssa.Parameter); ok {
		if i := paramIndex(callee, p); i >= 0 && i < len(args) {
			return args[i]
		}
	}
	if al, ok := b.(*ssa.Alloc); ok {
		if st := onlyStore(al); st != nil {
			if p, ok := st.Val.(*ssa.Parameter); ok {
				if i := paramIndex(callee, p); i >= 0 && i < len(args) {
					return args[i]
				}
			}
		}
	}
	return b
}

// expectFnTypes analyses the body of an expectation function (signature
// func(Value, Range) (*T, InterpreterError)).
func (c *Ctx) expectFnTypes(f *ssa.Function, binds []ssa.Value, out TypeSet, depth int) {
	if f.Blocks == nil {
		return
	}
	found := false
	// (a) a TypeError literal with a constant Expected: the function itself is a leaf expectation
	for _, b := range f.Blocks {
		for _, in := range b.Instrs {
			if st, ok := in.(*ssa.Store); ok {
				if fld := core.FieldOf(st.Addr); fld != nil && fld.Name() == "Expected" {
					if s, ok := core.ConstString(st.Val); ok {
						out[s] = true
						found = true
					}
				}
			}
		}
	}
	if found {
		return
	}
	// (b) calls to other expectations: static callees, free variables (bound combinators),
	// elements of a bound variadic slice of combinators
	for _, b := range f.Blocks {
		for _, in := range b.Instrs {
			call, ok := in.(*ssa.Call)
			if !ok {
				continue
			}
			sig := call.Call.Signature()
			if !isExpectSig(sig) {
				continue
			}
			found = true
			if sc := call.Call.StaticCallee(); sc != nil {
				c.expectFnTypes(sc, nil, out, depth+1)
				continue
			}
			// dynamic: through a free variable or an element of one
			for _, src := range funcValueSources(call.Call.Value, f, binds) {
				for k := range c.expectTypes(src, depth+1) {
					out[k] = true
				}
			}
		}
	}
	if !found {
		out["any"] = true // accepts the value as is (expectAnything)
	}
}

func isExpectSig(sig *types.Signature) bool {
	if sig == nil || sig.Params().Len() != 2 || sig.Results().Len() != 2 {
		return false
	}
	return core.IsNamedType(sig.Params().At(0).Type(), core.ModPath+"/internal/interpreter", "Value") && isErrorType(sig.Results().At(1).Type())
}

// funcValueSources resolves a dynamically called function value inside a closure to the
// values bound at closure creation (a combinator, or the elements of a slice of combinators).
func funcValueSources(v ssa.Value, f *ssa.Function, binds []ssa.Value) []ssa.Value {
	var out []ssa.Value
	seen := map[ssa.Value]bool{}
	var walk func(v ssa.Value)
	walk = func(v ssa.Value) {
		if seen[v] {
			return
		}
		seen[v] = true
		switch x := v.(type) {
		case *ssa.FreeVar:
			for i, fv := range f.FreeVars {
				if fv == x && i < len(binds) {
					walk2(binds[i], &out)
				}
			}
		case *ssa.UnOp:
			walk(x.X)
		case *ssa.IndexAddr:
			walk(x.X)
		case *ssa.Index:
			walk(x.X)
		case *ssa.Phi:
			for _, e := range x.Edges {
				walk(e)
			}
		case *ssa.Extract:
			walk(x.Tuple)
		case *ssa.Next:
			walk(x.Iter)
		case *ssa.Range:
			walk(x.X)
		case *ssa.Parameter:
			// parameter of the closure's parent captured by value
		}
	}
	walk(v)
	return out
}

// walk2 expands a bound value: a function value as is; a variadic slice into its elements.
func walk2(v ssa.Value, out *[]ssa.Value) {
	switch x := v.(type) {
	case *ssa.Slice:
		if al, ok := x.X.(*ssa.Alloc); ok && al.Referrers() != nil {
			for _, r := range *al.Referrers() {
				if ia, ok := r.(*ssa.IndexAddr); ok && ia.Referrers() != nil {
					for _, r2 := range *ia.Referrers() {
						if st, ok := r2.(*ssa.Store); ok && st.Addr == ia {
							*out = append(*out, st.Val)
						}
					}
				}
			}
			return
		}
	case *ssa.Alloc:
		if st := onlyStore(x); st != nil {
			walk2(st.Val, out)
			return
		}
	case *ssa.ChangeType:
		walk2(x.X, out)
		return
	}
	*out = append(*out, v)
}

// ---------- expression origin ----------

// exprKeys returns the AST positions ("Node.Field") an expression value is read from.
func (c *Ctx) exprKeys(v ssa.Value, fn *ssa.Function, seen map[ssa.Value]bool, depth int) TypeSet {
	out := TypeSet{}
	if depth > 10 || seen[v] {
		return out
	}
	seen[v] = true
	add := func(s TypeSet) {
		for k := range s {
			out[k] = true
		}
	}
	switch x := v.(type) {
	case *ssa.MakeInterface:
		add(c.exprKeys(x.X, fn, seen, depth+1))
	case *ssa.ChangeInterface:
		add(c.exprKeys(x.X, fn, seen, depth+1))
	case *ssa.ChangeType:
		add(c.exprKeys(x.X, fn, seen, depth+1))
	case *ssa.TypeAssert:
		add(c.exprKeys(x.X, fn, seen, depth+1))
	case *ssa.Extract:
		add(c.exprKeys(x.Tuple, fn, seen, depth+1))
	case *ssa.Phi:
		for _, e := range x.Edges {
			add(c.exprKeys(e, fn, seen, depth+1))
		}
	case *ssa.Field:
		if f := core.FieldOf(x); f != nil && isParserVar(f) {
			out[ownerOfField(x.X.Type())+"."+f.Name()] = true
		}
	case *ssa.UnOp:
		if x.Op != token.MUL {
			break
		}
		switch a := x.X.(type) {
		case *ssa.FieldAddr:
			if f := core.FieldOf(a); f != nil && isParserVar(f) {
				out[ownerName(a)+"."+f.Name()] = true
			}
		case *ssa.IndexAddr:
			// element of a slice: where do the elements come from?
			add(c.sliceElemKeys(a.X, fn, seen, depth+1))
		case *ssa.Alloc:
			if a.Referrers() != nil {
				for _, r := range *a.Referrers() {
					if st, ok := r.(*ssa.Store); ok && st.Addr == a {
						add(c.exprKeys(st.Val, fn, seen, depth+1))
					}
				}
			}
		default:
			// *ptr where ptr is itself loaded from a field (SourceOverdraft.Bounded)
			add(c.exprKeys(x.X, fn, seen, depth+1))
		}
	case *ssa.Parameter:
		node := c.P.CallGraph().Nodes[fn]
		idx := paramIndex(fn, x)
		if node != nil && idx >= 0 {
			for _, e := range node.In {
				if !c.P.InModule(e.Caller.Func) {
					continue
				}
				args := core.CallArgs(e.Site.Common())
				if idx < len(args) {
					add(c.exprKeys(args[idx], e.Caller.Func, seen, depth+1))
				}
			}
		}
	}
	return out
}

func (c *Ctx) sliceElemKeys(s ssa.Value, fn *ssa.Function, seen map[ssa.Value]bool, depth int) TypeSet {
	out := TypeSet{}
	if depth > 10 || seen[s] {
		return out
	}
	seen[s] = true
	add := func(t TypeSet) {
		for k := range t {
			out[k] = true
		}
	}
	switch x := s.(type) {
	case *ssa.Phi:
		for _, e := range x.Edges {
			add(c.sliceElemKeys(e, fn, seen, depth+1))
		}
	case *ssa.Call:
		if b, ok := x.Call.Value.(*ssa.Builtin); ok && b.Name() == "append" {
			add(c.sliceElemKeys(x.Call.Args[0], fn, seen, depth+1))
			if sl, ok := x.Call.Args[1].(*ssa.Slice); ok {
				var elems []ssa.Value
				walk2(sl, &elems)
				for _, e := range elems {
					add(c.exprKeys(e, fn, seen, depth+1))
				}
			}
		}
	case *ssa.UnOp:
		if x.Op == token.MUL {
			if fa, ok := x.X.(*ssa.FieldAddr); ok {
				if f := core.FieldOf(fa); f != nil && isParserVar(f) {
					out[ownerName(fa)+"."+f.Name()+"[]"] = true
				}
			}
			if al, ok := x.X.(*ssa.Alloc); ok && al.Referrers() != nil {
				for _, r := range *al.Referrers() {
					if st, ok := r.(*ssa.Store); ok && st.Addr == al {
						add(c.sliceElemKeys(st.Val, fn, seen, depth+1))
					}
				}
			}
		}
	case *ssa.Field:
		if f := core.FieldOf(x); f != nil && isParserVar(f) {
			out[ownerOfField(x.X.Type())+"."+f.Name()+"[]"] = true
		}
	case *ssa.Parameter:
		node := c.P.CallGraph().Nodes[fn]
		idx := paramIndex(fn, x)
		if node != nil && idx >= 0 {
			for _, e := range node.In {
				if !c.P.InModule(e.Caller.Func) {
					continue
				}
				args := core.CallArgs(e.Site.Common())
				if idx < len(args) {
					add(c.sliceElemKeys(args[idx], e.Caller.Func, seen, depth+1))
				}
			}
		}
	}
	return out
}

func isParserVar(f *types.Var) bool {
	if f.Pkg() == nil {
		return false
	}
	rel, ok := core.Rel(f.Pkg())
	return ok && rel == "internal/parser"
}

func ownerOfField(t types.Type) string {
	if p, ok := t.Underlying().(*types.Pointer); ok {
		t = p.Elem()
	}
	if n, ok := types.Unalias(t).(*types.Named); ok {
		return n.Obj().Name()
	}
	return "?"
}

// ---------- table extraction ----------

func (c *Ctx) BuildTables(ob *core.Obligation) *Tables {
	t := &Tables{R: map[string]TypeSet{}, RPos: map[string]token.Pos{}, K: map[string]*KEntry{}, RBuilt: map[string][]TypeSet{}, RBuiltP: map[string]token.Pos{},
		RCtx: map[string]string{}, RRet: map[string]string{}, KBuilt: map[string][]string{}, KCtx: map[string]string{}, KRet: map[string]string{}}
	evalAs := c.P.LookupFunc("internal/interpreter", "evaluateExprAs")
	parseArg := c.P.LookupFunc("internal/interpreter", "parseArg")
	checkExpr := c.P.LookupFunc("internal/analysis", "(*CheckResult).checkExpression")
	if evalAs == nil || parseArg == nil || checkExpr == nil {
		ob.Unknown("anchor:typing-functions", "-", "evaluateExprAs / parseArg / checkExpression not found")
		return nil
	}
	// runtime table
	for _, fn := range c.P.ModuleFunctions() {
		if relOfFn(fn) != "internal/interpreter" {
			continue
		}
		var seq []TypeSet
		var seqPos token.Pos
		for _, ci := range core.Calls(fn) {
			obj := core.CalleeObj(ci.Common())
			if obj == nil {
				continue
			}
			switch obj.Origin() {
			case evalAs:
				args := ci.Common().Args
				keys := c.exprKeys(args[1], fn, map[ssa.Value]bool{}, 0)
				ts := c.expectTypes(args[2], 0)
				c.Touch(fn)
				for k := range keys {
					if strings.HasSuffix(k, "[]") {
						continue
					}
					if t.R[k] == nil {
						t.R[k] = TypeSet{}
						t.RPos[k] = ci.Pos()
					}
					for x := range ts {
						t.R[k][x] = true
					}
				}
			case parseArg:
				args := ci.Common().Args
				seq = append(seq, c.expectTypes(args[2], 0))
				if seqPos == token.NoPos {
					seqPos = ci.Pos()
				}
			}
		}
		if len(seq) > 0 {
			t.RBuilt["fn:"+fn.Name()] = seq
			t.RBuiltP["fn:"+fn.Name()] = seqPos
			c.Touch(fn)
		}
	}
	// a function that hands its argument list to a shared argument-parsing helper inherits the
	// helper's sequence
	for round := 0; round < 3; round++ {
		for _, fn := range c.P.ModuleFunctions() {
			if relOfFn(fn) != "internal/interpreter" {
				continue
			}
			if _, ok := t.RBuilt["fn:"+fn.Name()]; ok {
				continue
			}
			for _, ci := range core.Calls(fn) {
				sc := ci.Common().StaticCallee()
				if sc == nil || !c.P.InModule(sc) {
					continue
				}
				seq, ok := t.RBuilt["fn:"+sc.Name()]
				if !ok {
					continue
				}
				passes := false
				for _, a := range ci.Common().Args {
					if pa, ok := a.(*ssa.Parameter); ok && pa.Parent() == fn {
						if sl, ok := pa.Type().Underlying().(*types.Slice); ok && core.IsNamedType(sl.Elem(), core.ModPath+"/internal/interpreter", "Value") {
							passes = true
						}
					}
				}
				if passes {
					t.RBuilt["fn:"+fn.Name()] = seq
					t.RBuiltP["fn:"+fn.Name()] = t.RBuiltP["fn:"+sc.Name()]
					c.Touch(fn)
					break
				}
			}
		}
	}
	// dispatch: builtin name constant -> implementing function, per context
	c.dispatchTables(t)
	// checker table
	for _, fn := range c.P.ModuleFunctions() {
		if relOfFn(fn) != "internal/analysis" {
			continue
		}
		var pc *core.PathConds
		for _, ci := range core.Calls(fn) {
			obj := core.CalleeObj(ci.Common())
			if obj == nil || obj.Origin() != checkExpr {
				continue
			}
			args := ci.Common().Args // res, expr, type
			keys := c.exprKeys(args[1], fn, map[ssa.Value]bool{}, 0)
			if len(keys) == 0 {
				continue
			}
			c.Touch(fn)
			if pc == nil {
				pc = core.NewPathConds(fn)
			}
			consts, anyEsc, plainAny, dynamic := c.requiredTypes(args[2], ci.Block(), pc)
			if p, isParam := args[2].(*ssa.Parameter); isParam && dynamic && p.Parent() == fn {
				// a helper that is told the required type: what its callers tell it
				if cs, ae, pa, ok := c.requiredTypesAtCallSites(fn, p); ok {
					consts, anyEsc, plainAny, dynamic = cs, ae, pa, false
				}
			}
			if dynamic {
				continue // signature-driven (builtin arguments): compared through the Builtins table
			}
			for k := range keys {
				if strings.HasSuffix(k, "[]") {
					continue
				}
				e := t.K[k]
				if e == nil {
					e = &KEntry{Types: TypeSet{}, Pos: ci.Pos()}
					t.K[k] = e
				}
				for x := range consts {
					e.Types[x] = true
				}
				e.AnyEscape = e.AnyEscape || anyEsc
				e.PlainAny = e.PlainAny || plainAny
			}
		}
	}
	c.builtinsTable(t)
	return t
}

// requiredTypesAtCallSites: the union of what every call of the helper fn passes for its
// type-name parameter p (each resolved as at a direct call of the expression checker).
func (c *Ctx) requiredTypesAtCallSites(fn *ssa.Function, p *ssa.Parameter) (TypeSet, bool, bool, bool) {
	idx := paramIndex(fn, p)
	consts := TypeSet{}
	anyEsc, plainAny := false, false
	n := 0
	for _, g := range c.P.ModuleFunctions() {
		if relOfFn(g) != relOfFn(fn) {
			continue
		}
		var pc *core.PathConds
		for _, ci := range core.Calls(g) {
			if ci.Common().StaticCallee() != fn || idx < 0 || idx >= len(ci.Common().Args) {
				continue
			}
			n++
			if pc == nil {
				pc = core.NewPathConds(g)
			}
			cs, ae, pa, dyn := c.requiredTypes(ci.Common().Args[idx], ci.Block(), pc)
			if dyn {
				return nil, false, false, false
			}
			for k := range cs {
				consts[k] = true
			}
			anyEsc = anyEsc || ae
			plainAny = plainAny || pa
			c.Touch(g)
		}
	}
	return consts, anyEsc, plainAny, n > 0
}

// requiredTypes resolves the type argument of a checkExpression call: a constant, or a
// variable constrained to constants by equality tests on every path to the call.
func (c *Ctx) requiredTypes(tv ssa.Value, b *ssa.BasicBlock, pc *core.PathConds) (consts TypeSet, anyEscaped, plainAny, dynamic bool) {
	consts = TypeSet{}
	// is the call on an arm selected by a test of an inferred type (call result compared with constants)?
	underInference := false
	for _, term := range pc.At(b) {
		for _, l := range term {
			if bo, ok := l.Cond.(*ssa.BinOp); ok && (bo.Op == token.EQL || bo.Op == token.NEQ) {
				if call, ok := bo.X.(*ssa.Call); ok && call.Call.StaticCallee() != nil && c.P.InModule(call.Call.StaticCallee()) {
					if _, isStr := core.ConstString(bo.Y); isStr {
						underInference = true
					}
				}
			}
		}
	}
	if s, ok := core.ConstString(tv); ok {
		if s == "any" {
			if underInference {
				return consts, true, false, false
			}
			return consts, false, true, false
		}
		consts[s] = true
		return consts, false, false, false
	}
	// variable: every path must pin it to a constant
	for _, term := range pc.At(b) {
		pinned := ""
		for _, l := range term {
			bo, ok := l.Cond.(*ssa.BinOp)
			if !ok || bo.Op != token.EQL || !l.Val {
				continue
			}
			if bo.X == tv {
				if s, ok := core.ConstString(bo.Y); ok {
					pinned = s
				}
			}
			if bo.Y == tv {
				if s, ok := core.ConstString(bo.X); ok {
					pinned = s
				}
			}
		}
		if pinned == "" {
			return consts, false, false, true
		}
		if pinned == "any" {
			anyEscaped = true
		} else {
			consts[pinned] = true
		}
	}
	return consts, anyEscaped, false, false
}

// dispatchTables: anywhere in the interpreter, a comparison of a call's function name
// (FnCallIdentifier.Name) with a constant selects the block that calls the builtin's
// implementation (the first module callee that parses arguments). The context is "origin"
// when the enclosing function yields a Value, "statement" otherwise.
func (c *Ctx) dispatchTables(t *Tables) {
	implOf := map[string]*ssa.Function{}
	for _, f := range c.P.ModuleFunctions() {
		if relOfFn(f) != "internal/interpreter" {
			continue
		}
		for _, b := range f.Blocks {
			iff, ok := b.Instrs[len(b.Instrs)-1].(*ssa.If)
			if !ok {
				continue
			}
			bo, ok := iff.Cond.(*ssa.BinOp)
			if !ok || bo.Op != token.EQL {
				continue
			}
			name, ok := core.ConstString(bo.Y)
			nameVal := bo.X
			if !ok {
				name, ok = core.ConstString(bo.X)
				nameVal = bo.Y
			}
			if !ok || !(isCallerName(nameVal) || c.paramIsCallerName(nameVal)) {
				continue
			}
			ctx := "statement"
			if f.Signature.Results().Len() > 0 {
				r0 := f.Signature.Results().At(0).Type()
				// a lookup function hands back the implementation instead of calling it
				if sig, ok := r0.Underlying().(*types.Signature); ok && sig.Results().Len() > 0 {
					r0 = sig.Results().At(0).Type()
				}
				if core.IsNamedType(r0, core.ModPath+"/internal/interpreter", "Value") {
					ctx = "origin"
				}
			}
			body := b.Succs[0]
			for _, bb := range f.Blocks {
				if !body.Dominates(bb) {
					continue
				}
				done := false
				// the arm selects the implementing function into a variable that is called after
				// the arms join
				for _, sb := range bb.Succs {
					for pi, pb := range sb.Preds {
						if pb != bb {
							continue
						}
						for _, in := range sb.Instrs {
							ph, ok := in.(*ssa.Phi)
							if !ok {
								break
							}
							var sc *ssa.Function
							switch y := ph.Edges[pi].(type) {
							case *ssa.Function:
								sc = y
							case *ssa.MakeClosure:
								sc, _ = y.Fn.(*ssa.Function)
							case *ssa.ChangeType:
								sc, _ = y.X.(*ssa.Function)
							}
							if sc == nil {
								continue
							}
							if seq, ok := t.RBuilt["fn:"+sc.Name()]; ok {
								t.RBuilt[name] = seq
								t.RBuiltP[name] = t.RBuiltP["fn:"+sc.Name()]
								t.RCtx[name] = ctx
								implOf[name] = sc
								if ctx == "origin" {
									t.RRet[name] = implReturnType(sc)
								}
								c.Touch(f)
								done = true
							}
						}
					}
				}
				if done {
					break
				}
				for _, in := range bb.Instrs {
					// table-style dispatch: the arm returns the implementing function
					if ret, ok := in.(*ssa.Return); ok {
						for _, rv := range ret.Results {
							var sc *ssa.Function
							switch y := rv.(type) {
							case *ssa.Function:
								sc = y
							case *ssa.MakeClosure:
								sc, _ = y.Fn.(*ssa.Function)
							case *ssa.ChangeType:
								sc, _ = y.X.(*ssa.Function)
							}
							if sc == nil {
								continue
							}
							if seq, ok := t.RBuilt["fn:"+sc.Name()]; ok {
								t.RBuilt[name] = seq
								t.RBuiltP[name] = t.RBuiltP["fn:"+sc.Name()]
								t.RCtx[name] = ctx
								implOf[name] = sc
								c.Touch(f)
								done = true
							}
						}
						if done {
							break
						}
						continue
					}
					call, ok := in.(*ssa.Call)
					if !ok {
						continue
					}
					sc := call.Call.StaticCallee()
					if sc == nil || !c.P.InModule(sc) {
						continue
					}
					if seq, ok := t.RBuilt["fn:"+sc.Name()]; ok {
						t.RBuilt[name] = seq
						t.RBuiltP[name] = t.RBuiltP["fn:"+sc.Name()]
						t.RCtx[name] = ctx
						implOf[name] = sc
						if ctx == "origin" {
							t.RRet[name] = c.originReturn(f, body, call)
							if t.RRet[name] == "?" {
								t.RRet[name] = implReturnType(sc)
							}
						}
						c.Touch(f)
						done = true
						break
					}
				}
				if done {
					break
				}
			}
		}
	}
	t.Impl = implOf
}

// paramIsCallerName: v is a parameter of a function every call site of which passes the name
// of a function-call identifier.
func (c *Ctx) paramIsCallerName(v ssa.Value) bool {
	p, ok := v.(*ssa.Parameter)
	if !ok {
		return false
	}
	fn := p.Parent()
	idx := paramIndex(fn, p)
	n := 0
	for _, g := range c.P.ModuleFunctions() {
		for _, ci := range core.Calls(g) {
			if ci.Common().StaticCallee() != fn || idx < 0 || idx >= len(ci.Common().Args) {
				continue
			}
			n++
			if !isCallerName(ci.Common().Args[idx]) {
				return false
			}
		}
	}
	return n > 0
}

// isCallerName: v is (a copy of) the Name field of a function-call identifier.
func isCallerName(v ssa.Value) bool {
	for i := 0; i < 6; i++ {
		switch x := v.(type) {
		case *ssa.UnOp:
			if fa, ok := x.X.(*ssa.FieldAddr); ok {
				if f := core.FieldOf(fa); f != nil && f.Name() == "Name" && ownerName(fa) == "FnCallIdentifier" {
					return true
				}
			}
			if al, ok := x.X.(*ssa.Alloc); ok {
				if st := onlyStore(al); st != nil {
					v = st.Val
					continue
				}
			}
			return false
		case *ssa.Field:
			f := core.FieldOf(x)
			return f != nil && f.Name() == "Name" && ownerOfField(x.X.Type()) == "FnCallIdentifier"
		case *ssa.Phi:
			return false
		default:
			return false
		}
	}
	return false
}

// originReturn: the Value type returned by the origin arm: a concrete Value type, or "any"
// when the text is parsed according to the declared type (parseVar).
func (c *Ctx) originReturn(f *ssa.Function, body *ssa.BasicBlock, call *ssa.Call) string {
	for _, ret := range core.Returns(f) {
		if !body.Dominates(ret.Block()) || len(ret.Results) != 2 || core.IsNilConst(ret.Results[0]) {
			continue
		}
		switch x := ret.Results[0].(type) {
		case *ssa.MakeInterface:
			return typeShort(x.X.Type())
		case *ssa.Extract:
			if cl, ok := x.Tuple.(*ssa.Call); ok && cl.Call.StaticCallee() != nil && cl.Call.StaticCallee().Signature.Results().Len() == 2 && core.IsNamedType(cl.Call.StaticCallee().Signature.Results().At(0).Type(), core.ModPath+"/internal/interpreter", "Value") {
				return "any" // read by the declared type
			}
		}
	}
	return "?"
}

// implReturnType: what the implementation of an origin builtin hands back: a Value type
// (possibly through a pointer), or text / a Value that is then read by the declared type ("any").
func implReturnType(sc *ssa.Function) string {
	if sc == nil || sc.Signature.Results().Len() == 0 {
		return "?"
	}
	t := types.Unalias(sc.Signature.Results().At(0).Type())
	if p, ok := t.(*types.Pointer); ok {
		t = types.Unalias(p.Elem())
	}
	switch x := t.(type) {
	case *types.Named:
		if x.Obj().Name() == "Value" {
			return "any"
		}
		return x.Obj().Name()
	case *types.Basic:
		if x.Kind() == types.String {
			return "any"
		}
	}
	return "?"
}

// builtinsTable reads analysis.Builtins from its composite literal.
func (c *Ctx) builtinsTable(t *Tables) {
	an := c.P.Pkg("internal/analysis")
	if an == nil {
		return
	}
	v, _ := an.Types.Scope().Lookup("Builtins").(*types.Var)
	if v == nil {
		return
	}
	info := an.TypesInfo
	for _, f := range an.Syntax {
		ast.Inspect(f, func(n ast.Node) bool {
			vs, ok := n.(*ast.ValueSpec)
			if !ok {
				return true
			}
			for i, nm := range vs.Names {
				if info.Defs[nm] != v || i >= len(vs.Values) {
					continue
				}
				cl, ok := vs.Values[i].(*ast.CompositeLit)
				if !ok {
					continue
				}
				t.KPos = cl.Pos()
				for _, e := range cl.Elts {
					kv, ok := e.(*ast.KeyValueExpr)
					if !ok {
						continue
					}
					ktv := info.Types[kv.Key]
					if ktv.Value == nil || ktv.Value.Kind() != constant.String {
						continue
					}
					name := constant.StringVal(ktv.Value)
					val, ok := kv.Value.(*ast.CompositeLit)
					if !ok {
						continue
					}
					vt := typeShort(info.Types[val].Type)
					if strings.HasPrefix(vt, "Statement") {
						t.KCtx[name] = "statement"
					} else {
						t.KCtx[name] = "origin"
					}
					t.KBuilt[name] = []string{}
					for _, fe := range val.Elts {
						fkv, ok := fe.(*ast.KeyValueExpr)
						if !ok {
							continue
						}
						fname := fkv.Key.(*ast.Ident).Name
						switch fname {
						case "Params":
							if pl, ok := fkv.Value.(*ast.CompositeLit); ok {
								for _, pe := range pl.Elts {
									if tv := info.Types[pe]; tv.Value != nil {
										t.KBuilt[name] = append(t.KBuilt[name], constant.StringVal(tv.Value))
									}
								}
							}
						case "Return":
							if tv := info.Types[fkv.Value]; tv.Value != nil {
								t.KRet[name] = constant.StringVal(tv.Value)
							}
						}
					}
				}
			}
			return true
		})
	}
}

// CheckerNotStricter (C16.1): wherever both sides have an entry, every type the checker
// requires is one the interpreter accepts there.
func (c *Ctx) CheckerNotStricter(ob *core.Obligation, t *Tables) {
	if t == nil {
		return
	}
	for _, k := range sortedTS(t.K) {
		e := t.K[k]
		r, ok := t.R[k]
		if !ok {
			continue
		}
		key := "type-k:" + k
		bad := ""
		for ty := range e.Types {
			if !r[ty] && !r["any"] {
				bad = fmt.Sprintf("the checker requires type '%s' at %s but the interpreter accepts %s there: a script that runs fine would get a type error diagnostic", ty, k, r)
			}
		}
		if bad != "" {
			ob.Fail(key, c.P.Pos(e.Pos), bad)
		} else {
			ob.Pass(key, c.P.Pos(e.Pos), fmt.Sprintf("checker %s within runtime %s", e.Types, r))
		}
	}
}

// CheckerNotWeaker (C17.1): for every position where the interpreter demands a type, the
// checker demands one of the accepted types too ("any" only where the interpreter accepts
// anything, or on an arm taken when the operand's type could not be inferred).
func (c *Ctx) CheckerNotWeaker(ob *core.Obligation, t *Tables) {
	if t == nil {
		return
	}
	var keys []string
	for k := range t.R {
		keys = append(keys, k)
	}
	sort.Strings(keys)
	for _, k := range keys {
		r := t.R[k]
		key := "type-r:" + k
		pos := c.P.Pos(t.RPos[k])
		if r["any"] {
			ob.Pass(key, pos, "interpreter accepts any value here")
			continue
		}
		e := t.K[k]
		switch {
		case e == nil:
			ob.Fail(key, pos, fmt.Sprintf("the interpreter demands %s at %s but the checker never checks that position: a clean check does not exclude a run-time type error", r, k))
		case e.PlainAny:
			ob.Fail(key, c.P.Pos(e.Pos), fmt.Sprintf("the interpreter demands %s at %s but the checker accepts any type there", r, k))
		case len(e.Types) == 0:
			ob.Fail(key, c.P.Pos(e.Pos), fmt.Sprintf("the interpreter demands %s at %s but the checker only checks it as 'any'", r, k))
		default:
			bad := false
			for ty := range e.Types {
				if !r[ty] {
					bad = true
				}
			}
			if bad {
				ob.Fail(key, c.P.Pos(e.Pos), fmt.Sprintf("checker requires %s at %s, interpreter demands %s", e.Types, k, r))
			} else {
				ob.Pass(key, c.P.Pos(e.Pos), fmt.Sprintf("runtime %s, checker %s", r, e.Types))
			}
		}
	}
}

// BuiltinTablesAgree (C17.2): dispatch names, contexts, arities, parameter types and origin
// return types agree between the interpreter and analysis.Builtins.
func (c *Ctx) BuiltinTablesAgree(ob *core.Obligation, t *Tables, valueTypeName map[string]string) {
	if t == nil {
		return
	}
	names := map[string]bool{}
	for n := range t.KBuilt {
		names[n] = true
	}
	for n := range t.RCtx {
		names[n] = true
	}
	var ns []string
	for n := range names {
		ns = append(ns, n)
	}
	sort.Strings(ns)
	for _, n := range ns {
		key := "builtin:" + n
		kp, inK := t.KBuilt[n]
		rs, inR := t.RBuilt[n]
		switch {
		case !inK:
			ob.Fail(key, c.P.Pos(t.RBuiltP[n]), "the interpreter dispatches builtin '"+n+"' but the checker's Builtins table does not know it")
			continue
		case !inR || t.RCtx[n] == "":
			ob.Fail(key, c.P.Pos(t.KPos), "the checker accepts builtin '"+n+"' but the interpreter does not dispatch it: a clean check, then 'Invalid function' at run time")
			continue
		}
		if t.KCtx[n] != t.RCtx[n] {
			ob.Fail(key, c.P.Pos(t.KPos), fmt.Sprintf("builtin '%s' is a %s function for the checker but dispatched as %s by the interpreter", n, t.KCtx[n], t.RCtx[n]))
			continue
		}
		if len(kp) != len(rs) {
			ob.Fail(key, c.P.Pos(t.RBuiltP[n]), fmt.Sprintf("builtin '%s': checker arity %d, interpreter parses %d arguments", n, len(kp), len(rs)))
			continue
		}
		bad := ""
		for i := range kp {
			if kp[i] == "any" {
				if !rs[i]["any"] {
					bad = fmt.Sprintf("argument %d: checker accepts any, interpreter demands %s", i, rs[i])
				}
				continue
			}
			if !rs[i][kp[i]] && !rs[i]["any"] {
				bad = fmt.Sprintf("argument %d: checker requires %s, interpreter demands %s", i, kp[i], rs[i])
			}
			if rs[i]["any"] && kp[i] != "any" {
				// checker stricter than runtime: a C16 matter, not C17; accept here
			}
		}
		if t.KCtx[n] == "origin" {
			rr := t.RRet[n]
			if vt, ok := valueTypeName[rr]; ok {
				rr = vt
			}
			if rr != t.KRet[n] {
				bad = fmt.Sprintf("return type: checker says %s, interpreter returns %s", t.KRet[n], rr)
			}
		}
		if bad != "" {
			ob.Fail(key, c.P.Pos(t.RBuiltP[n]), "builtin '"+n+"': "+bad)
		} else {
			ob.Pass(key, c.P.Pos(t.RBuiltP[n]), fmt.Sprintf("context %s, params %v agree", t.KCtx[n], kp))
		}
	}
}

func sortedTS(m map[string]*KEntry) []string {
	var k []string
	for x := range m {
		k = append(k, x)
	}
	sort.Strings(k)
	return k
}

// ValueTypeNames maps each interpreter Value type to the checker type name its expect*
// function reports (Monetary -> "monetary").
func (c *Ctx) ValueTypeNames() map[string]string {
	out := map[string]string{}
	for reported, vt := range c.leafExpectations() {
		out[vt] = reported
	}
	return out
}

// leafExpectations: the functions of the interpreter that accept exactly one kind of Value
// (one type assertion - the arm of a one-case type switch or a comma-ok assertion - on their
// Value parameter) and otherwise build a TypeError with a constant Expected name.
// Returns reported type name -> accepted Value type.
func (c *Ctx) leafExpectations() map[string]string {
	out := map[string]string{}
	valueT := c.P.Named("internal/interpreter", "Value")
	sum := c.M.SumOf(valueT)
	if sum == nil {
		return out
	}
	impls := map[string]bool{}
	for _, n := range sum.Impls {
		impls[n.Obj().Name()] = true
	}
	// helpers that build the type error from the expected type name they are given
	errHelper := map[*ssa.Function]int{}
	for _, fn := range c.P.ModuleFunctions() {
		if relOfFn(fn) != "internal/interpreter" {
			continue
		}
		for _, b := range fn.Blocks {
			for _, in := range b.Instrs {
				st, ok := in.(*ssa.Store)
				if !ok {
					continue
				}
				if fld := core.FieldOf(st.Addr); fld != nil && fld.Name() == "Expected" {
					if fa, ok := st.Addr.(*ssa.FieldAddr); ok && ownerName(fa) == "TypeError" {
						if prm, ok := st.Val.(*ssa.Parameter); ok {
							errHelper[fn] = paramIndex(fn, prm)
							c.Touch(fn)
						}
					}
				}
			}
		}
	}
	for _, fn := range c.P.ModuleFunctions() {
		if relOfFn(fn) != "internal/interpreter" || len(fn.Params) == 0 {
			continue
		}
		var vp *ssa.Parameter
		for _, p := range fn.Params {
			if types.Identical(p.Type(), valueT) {
				vp = p
			}
		}
		if vp == nil {
			continue
		}
		var accepted []string
		var reported []string
		for _, b := range fn.Blocks {
			for _, in := range b.Instrs {
				switch x := in.(type) {
				case *ssa.TypeAssert:
					if resolveLocal(x.X) != ssa.Value(vp) {
						continue
					}
					if nt, ok := types.Unalias(x.AssertedType).(*types.Named); ok && impls[nt.Obj().Name()] {
						accepted = append(accepted, nt.Obj().Name())
					}
				case *ssa.Store:
					if fld := core.FieldOf(x.Addr); fld != nil && fld.Name() == "Expected" {
						if fa, ok := x.Addr.(*ssa.FieldAddr); ok && ownerName(fa) == "TypeError" {
							if sv, ok := core.ConstString(x.Val); ok {
								reported = append(reported, sv)
							}
						}
					}
				case *ssa.Call:
					if k, isH := errHelper[x.Call.StaticCallee()]; isH && x.Call.StaticCallee() != nil && k >= 0 && k < len(x.Call.Args) {
						if sv, ok := core.ConstString(x.Call.Args[k]); ok {
							reported = append(reported, sv)
						}
					}
				}
			}
		}
		if len(accepted) == 1 && len(reported) == 1 {
			out[reported[0]] = accepted[0]
			c.Touch(fn)
		}
	}
	return out
}
