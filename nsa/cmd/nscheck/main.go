// nscheck decides the structural obligations of one property of /verif/properties.jsonl
// from the source of /repo's working tree. It never executes numscript code.
package main

import (
	"encoding/json"
	"flag"
	"fmt"
	"os"
	"path/filepath"
	"runtime/debug"
	"sort"
	"strconv"

	"nsa/core"
	"nsa/props"
	"nsa/rules"
)

func main() {
	prop := flag.String("prop", "", "property id (C01..C20)")
	tier := flag.String("tier", "quick", "quick|thorough")
	repo := flag.String("repo", "/repo", "repository to analyse")
	verif := flag.String("verif", "", "verif directory (default: parent of the binary's dir)")
	explain := flag.String("explain", "", "print a violation report file")
	verbose := flag.Bool("v", false, "print every instance")
	list := flag.Bool("list", false, "list known properties")
	flag.Parse()

	if *verif == "" {
		exe, _ := os.Executable()
		*verif = filepath.Dir(filepath.Dir(exe))
		if _, err := os.Stat(filepath.Join(*verif, "properties.jsonl")); err != nil {
			*verif = "/verif"
		}
	}
	if *explain != "" {
		explainFile(*explain)
		return
	}
	if *list {
		var ids []string
		for id := range props.Registry {
			ids = append(ids, id)
		}
		sort.Strings(ids)
		for _, id := range ids {
			fmt.Println(id)
		}
		return
	}
	if t := os.Getenv("VERIF_TIER"); t != "" && !isFlagSet("tier") {
		*tier = t
	}
	seed, _ := strconv.ParseInt(os.Getenv("VERIF_SEED"), 10, 64)
	spec, ok := props.Registry[*prop]
	if !ok {
		fmt.Fprintf(os.Stderr, "unknown property %q\n", *prop)
		os.Exit(2)
	}
	rep := core.NewReport(*prop, *tier, seed)
	known, kerr := core.LoadKnown(filepath.Join(*verif, "known_findings.json"))
	if kerr != nil {
		fmt.Fprintln(os.Stderr, "known_findings.json:", kerr)
	}

	configs := []core.Config{{Repo: *repo}}
	if *tier == "thorough" {
		configs = append(configs, core.Config{Repo: *repo, GOARCH: "386"}, core.Config{Repo: *repo, Tags: "verif"})
	}
	code := func() (code int) {
		defer func() {
			if r := recover(); r != nil {
				// a crash of the analyser is "undecided", never a silent pass
				ob := rep.Ob("analyser", "internal", "the analyser completes", 0)
				ob.Unknown("analyser-panic", "-", fmt.Sprintf("%v\n%s", r, debug.Stack()))
				code = rep.Finish(*verif, known)
			}
		}()
		for _, cfg := range configs {
			p, err := core.Load(cfg)
			if err != nil {
				ob := rep.Ob("load", "loader", "every package of the module loads and type-checks from the working tree", 1)
				ob.Unknown("load:"+cfg.String(), "-", err.Error())
				continue
			}
			rep.Configs = append(rep.Configs, fmt.Sprintf("%s packages=%d", cfg.String(), len(p.Pkgs)))
			ob := rep.Ob("load", "loader", "every package of the module loads and type-checks from the working tree", 1)
			ob.Pass("load:"+cfg.String(), "-", fmt.Sprintf("%d module packages, %d total", len(p.Pkgs), len(p.All)))
			ctx := rules.NewCtx(p, rep, *tier)
			spec.Run(ctx)
		}
		rep.Explanation = spec.Explanation
		rep.NotDecided = spec.NotDecided
		rep.Assumptions = spec.Assumptions
		return rep.Finish(*verif, known)
	}()
	if *verbose {
		for _, o := range rep.Obligations {
			fmt.Printf("== %s [%s] %s (floor %d)\n", o.ID, o.Rule, o.Statement, o.Floor)
			for _, in := range o.Instances {
				fmt.Printf("   %-14s %s  %s  %s\n", in.Verdict, in.Construct, in.Pos, in.Why)
			}
		}
	}
	os.Exit(code)
}

func isFlagSet(name string) bool {
	set := false
	flag.Visit(func(f *flag.Flag) {
		if f.Name == name {
			set = true
		}
	})
	return set
}

func explainFile(path string) {
	b, err := os.ReadFile(path)
	if err != nil {
		fmt.Fprintln(os.Stderr, err)
		os.Exit(2)
	}
	var v struct {
		Property   string          `json:"property_id"`
		Violations []core.Instance `json:"violations"`
	}
	if err := json.Unmarshal(b, &v); err != nil {
		fmt.Fprintln(os.Stderr, err)
		os.Exit(2)
	}
	for _, in := range v.Violations {
		fmt.Printf("property %s, obligation %s, rule %s\n  construct: %s\n  at: %s\n  %s: %s\n", v.Property, in.Obligation, in.Rule, in.Construct, in.Pos, in.Verdict, in.Why)
	}
	if len(v.Violations) > 0 {
		fmt.Printf("VIOLATION property=%s replay=%s\n", v.Property, path)
		os.Exit(1)
	}
}
