// nscheck decides the structural obligations of one property of /verif/properties.jsonl
// from the source of /repo's working tree. It never executes numscript code.
package main

import (
	"encoding/json"
	"flag"
	"fmt"
	"os"
	"os/exec"
	"path/filepath"
	"runtime/debug"
	"sort"
	"strconv"

	"nsa/core"
	"nsa/props"
	"nsa/rules"
)

func main() {
	prop := flag.String("prop", "", "property id (C01..C20)")
	tier := flag.String("tier", "quick", "quick|thorough")
	repo := flag.String("repo", "/repo", "repository to analyse")
	verif := flag.String("verif", "", "verif directory (default: parent of the binary's dir)")
	explain := flag.String("explain", "", "print a violation report file")
	verbose := flag.Bool("v", false, "print every instance")
	list := flag.Bool("list", false, "list known properties")
	flag.Parse()

	if *verif == "" {
		exe, _ := os.Executable()
		*verif = filepath.Dir(filepath.Dir(exe))
		if _, err := os.Stat(filepath.Join(*verif, "properties.jsonl")); err != nil {
			*verif = "/verif"
		}
	}
	if *explain != "" {
		explainFile(*explain)
		return
	}
	if *list {
		var ids []string
		for id := range props.Registry {
			ids = append(ids, id)
		}
		sort.Strings(ids)
		for _, id := range ids {
			fmt.Println(id)
		}
		return
	}
	if t := os.Getenv("VERIF_TIER"); t != "" && !isFlagSet("tier") {
		*tier = t
	}
	seed, _ := strconv.ParseInt(os.Getenv("VERIF_SEED"), 10, 64)
	spec, ok := props.Registry[*prop]
	if !ok {
		fmt.Fprintf(os.Stderr, "unknown property %q\n", *prop)
		os.Exit(2)
	}
	rep := core.NewReport(*prop, *tier, seed)
	known, kerr := core.LoadKnown(filepath.Join(*verif, "known_findings.json"))
	if kerr != nil {
		fmt.Fprintln(os.Stderr, "known_findings.json:", kerr)
	}

	configs := []core.Config{{Repo: *repo}}
	if *tier == "thorough" {
		configs = append(configs, core.Config{Repo: *repo, GOARCH: "386"}, core.Config{Repo: *repo, Tags: "verif"})
	}
	code := func() (code int) {
		defer func() {
			if r := recover(); r != nil {
				// a crash of the analyser is "undecided", never a silent pass
				ob := rep.Ob("analyser", "internal", "the analyser completes", 0)
				ob.Unknown("analyser-panic", "-", fmt.Sprintf("%v\n%s", r, debug.Stack()))
				code = rep.Finish(*verif, known)
			}
		}()
		for _, cfg := range configs {
			p, err := core.Load(cfg)
			if err != nil {
				ob := rep.Ob("load", "loader", "every package of the module loads and type-checks from the working tree", 1)
				ob.Unknown("load:"+cfg.String(), "-", err.Error())
				continue
			}
			rep.Configs = append(rep.Configs, fmt.Sprintf("%s packages=%d", cfg.String(), len(p.Pkgs)))
			ob := rep.Ob("load", "loader", "every package of the module loads and type-checks from the working tree", 1)
			ob.Pass("load:"+cfg.String(), "-", fmt.Sprintf("%d module packages, %d total", len(p.Pkgs), len(p.All)))
			ctx := rules.NewCtx(p, rep, *tier)
			spec.Run(ctx)
		}
		if *tier == "thorough" && os.Getenv("NSCHECK_NO_SELFTEST") == "" {
			rep.Extra["selftest"] = selfTest(*prop, *repo, *verif)
		}
		rep.Explanation = spec.Explanation
		rep.NotDecided = spec.NotDecided
		rep.Assumptions = spec.Assumptions
		return rep.Finish(*verif, known)
	}()
	if *verbose {
		for _, o := range rep.Obligations {
			fmt.Printf("== %s [%s] %s (floor %d)\n", o.ID, o.Rule, o.Statement, o.Floor)
			for _, in := range o.Instances {
				fmt.Printf("   %-14s %s  %s  %s\n", in.Verdict, in.Construct, in.Pos, in.Why)
			}
		}
	}
	os.Exit(code)
}

// selfTest (thorough tier only, informational): every seeded change written for this
// property (/verif/seeded/<id>/patch.diff) is applied to a scratch copy of the repository
// and the same quick check is run on the copy: it must report a violation there. The
// result is recorded in the evidence; it never changes the verdict on /repo itself (a patch
// that no longer applies to an edited tree is skipped).
func selfTest(prop, repo, verif string) []map[string]any {
	var out []map[string]any
	dirs, _ := filepath.Glob(filepath.Join(verif, "seeded", "*"))
	sort.Strings(dirs)
	exe, _ := os.Executable()
	for _, d := range dirs {
		b, err := os.ReadFile(filepath.Join(d, "meta.json"))
		if err != nil {
			continue
		}
		var meta struct {
			ID     string `json:"id"`
			Breaks string `json:"breaks_property"`
		}
		if json.Unmarshal(b, &meta) != nil || meta.Breaks != prop {
			continue
		}
		res := map[string]any{"seeded": meta.ID}
		tmp, err := os.MkdirTemp("", "nscheck-selftest-")
		if err != nil {
			res["result"] = "skipped: " + err.Error()
			out = append(out, res)
			continue
		}
		func() {
			defer os.RemoveAll(tmp)
			cp := exec.Command("rsync", "-a", "--exclude", ".git", repo+"/", tmp+"/repo/")
			if o, err := cp.CombinedOutput(); err != nil {
				res["result"] = "skipped: copy failed: " + string(o)
				return
			}
			ap := exec.Command("git", "apply", filepath.Join(d, "patch.diff"))
			ap.Dir = tmp + "/repo"
			if o, err := ap.CombinedOutput(); err != nil {
				res["result"] = "skipped: patch does not apply to the current tree (" + firstLine(string(o)) + ")"
				return
			}
			os.MkdirAll(tmp+"/verif", 0o755)
			if kf, err := os.ReadFile(filepath.Join(verif, "known_findings.json")); err == nil {
				os.WriteFile(tmp+"/verif/known_findings.json", kf, 0o644)
			}
			run := exec.Command(exe, "-prop", prop, "-tier", "quick", "-repo", tmp+"/repo", "-verif", tmp+"/verif")
			run.Env = append(os.Environ(), "NSCHECK_NO_SELFTEST=1")
			o, err := run.CombinedOutput()
			if err != nil && run.ProcessState != nil && run.ProcessState.ExitCode() == 1 {
				res["result"] = "fired"
				for _, ln := range splitLines(string(o)) {
					if len(ln) > 2 && (ln[:2] == "  ") {
						res["first_report"] = ln
						break
					}
				}
			} else {
				res["result"] = "MISSED: the check stays silent on this seeded change"
			}
		}()
		out = append(out, res)
	}
	return out
}

func firstLine(s string) string {
	for i, c := range s {
		if c == '\n' {
			return s[:i]
		}
	}
	return s
}

func splitLines(s string) []string {
	var out []string
	cur := ""
	for _, c := range s {
		if c == '\n' {
			out = append(out, cur)
			cur = ""
		} else {
			cur += string(c)
		}
	}
	return append(out, cur)
}

func isFlagSet(name string) bool {
	set := false
	flag.Visit(func(f *flag.Flag) {
		if f.Name == name {
			set = true
		}
	})
	return set
}

func explainFile(path string) {
	b, err := os.ReadFile(path)
	if err != nil {
		fmt.Fprintln(os.Stderr, err)
		os.Exit(2)
	}
	var v struct {
		Property   string          `json:"property_id"`
		Violations []core.Instance `json:"violations"`
	}
	if err := json.Unmarshal(b, &v); err != nil {
		fmt.Fprintln(os.Stderr, err)
		os.Exit(2)
	}
	for _, in := range v.Violations {
		fmt.Printf("property %s, obligation %s, rule %s\n  construct: %s\n  at: %s\n  %s: %s\n", v.Property, in.Obligation, in.Rule, in.Construct, in.Pos, in.Verdict, in.Why)
	}
	if len(v.Violations) > 0 {
		fmt.Printf("VIOLATION property=%s replay=%s\n", v.Property, path)
		os.Exit(1)
	}
}
