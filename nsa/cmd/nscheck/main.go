package main

import (
	_ "golang.org/x/tools/go/callgraph/cha"
	_ "golang.org/x/tools/go/callgraph/vta"
	_ "golang.org/x/tools/go/cfg"
	_ "golang.org/x/tools/go/packages"
	_ "golang.org/x/tools/go/ssa"
	_ "golang.org/x/tools/go/ssa/ssautil"
	_ "golang.org/x/tools/go/types/typeutil"
)

func main() {}
