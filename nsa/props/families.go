package props

import (
	"golang.org/x/tools/go/ssa"
	"nsa/core"
	"nsa/model"
	"nsa/rules"
)

// Traversal families (DESIGN.md 2.3). Roots are resolved through the type checker; the
// members are whatever the call graph reaches from them.
var (
	famRun = &rules.Family{Name: "run", Roots: []string{"role:Dispatcher"}}
	// prefetch-only functions: reachable from the prefetch root but not from the statement runner
	famPrefetch = &rules.Family{Name: "prefetch", Roots: []string{"role:PrefetchStmt"},
		Exclude: []string{"role:Dispatcher"},
		Relevant: func(cf model.ChildField) bool {
			// the prefetch only needs the places where a balance is read: sources, the account
			// expressions of account-like sources, the sent value (asset) and the saved account
			if cf.Sum != nil {
				switch cf.Sum.Iface.Obj().Name() {
				case "Source", "SentValue":
					return true
				case "ValueExpr":
					on := cf.Owner.Obj().Name()
					return (on == "SourceAccount") || (on == "SourceOverdraft" && cf.Var.Name() == "Address") || on == "SaveStatement"
				}
			}
			return false
		}}
	famCheck = &rules.Family{Name: "check", Roots: []string{relAnalysis + ":(*CheckResult).check"},
		Exempt: map[string]string{"internal/analysis.CheckResult.typeOf": "type inference helper (reads the left operand only by design), the traversal itself is checkExpression"}}
	famHover = &rules.Family{Name: "hover", Roots: []string{relAnalysis + ":HoverOn"}}
)

func selPkgs(strictRels map[string]bool, nilableRels map[string]bool, rels ...string) func(string) (bool, bool, bool) {
	in := map[string]bool{}
	for _, r := range rels {
		in[r] = true
	}
	return func(rel string) (bool, bool, bool) {
		return in[rel], strictRels[rel], nilableRels[rel]
	}
}

var _ = core.ModPath

func sameFn(f *ssa.Function) func(*ssa.Function) bool {
	return func(g *ssa.Function) bool { return f != nil && g == f }
}

// reachesAvoiding: g is f or calls it through a chain that does not pass through avoid.
func reachesAvoiding(c *rules.Ctx, f, avoid *ssa.Function) func(*ssa.Function) bool {
	return func(g *ssa.Function) bool {
		if f == nil || g == nil || g == avoid {
			return false
		}
		seen := map[*ssa.Function]bool{g: true}
		work := []*ssa.Function{g}
		cg := c.P.CallGraph()
		for len(work) > 0 {
			x := work[len(work)-1]
			work = work[:len(work)-1]
			if x == f {
				return true
			}
			n := cg.Nodes[x]
			if n == nil || !c.P.InModule(x) {
				continue
			}
			for _, e := range n.Out {
				y := e.Callee.Func
				if y != avoid && !seen[y] {
					seen[y] = true
					work = append(work, y)
				}
			}
		}
		return false
	}
}

// reachesFn: g is f or (transitively) calls f - so that moving a call into a helper does not
// change the verdict.
func reachesFn(c *rules.Ctx, f *ssa.Function) func(*ssa.Function) bool {
	memo := map[*ssa.Function]bool{}
	return func(g *ssa.Function) bool {
		if f == nil || g == nil {
			return false
		}
		if g == f {
			return true
		}
		if v, ok := memo[g]; ok {
			return v
		}
		if !c.P.InModule(g) {
			return false
		}
		_, r := c.P.Reachable(g)[f]
		memo[g] = r
		return r
	}
}
