package props

import "nsa/rules"

func init() {
	Registry["C04"] = &Spec{
		Explanation: "structural necessary conditions of 'sources are drawn in declared order, each to its limit'",
		Run: func(c *rules.Ctx) {
			ob := c.R.Ob("C04.1a", "sumcheck/S1", "every type switch over a closed AST sum on the run path handles every node kind", 8)
			c.S1(ob, selPkgs(map[string]bool{relInterp: true}, nil, relInterp))
			ob2 := c.R.Ob("C04.1b", "sumcheck/S2", "each traversal clause descends into every child field of its node kind", 10)
			c.S2(ob2, famRun)
			c.S2(ob2, famPrefetch)
			c.S2(ob2, famCheck)
			c.S2(ob2, famHover)
		},
	}
}
