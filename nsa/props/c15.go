package props

import (
	"nsa/core"
	"nsa/rules"

	"golang.org/x/tools/go/ssa"
)

// parseRoots: everything that builds positions for the AST and for parse errors.
func parseRoots(c *rules.Ctx, ob *core.Obligation) []*ssa.Function {
	return []*ssa.Function{
		c.Fn(ob, relParser, "Parse"),
		c.Fn(ob, relParser, "(*ErrorListener).SyntaxError"),
	}
}

func obUnits(c *rules.Ctx, id string) {
	ob := c.R.Ob(id, "units", "every column stored in a parser.Position is a character count (never a byte length), every line is zero-based", 8)
	c.Units(ob, "parse", parseRoots(c, ob))
}

func obRangeEnds(c *rules.Ctx, id string) {
	ob := c.R.Ob(id, "mapping/range-ends", "a range built from a parse context starts at its start token and ends at its stop token", 2)
	c.RangeEnds(ob, "parse", parseRoots(c, ob))
}

func init() {
	Registry["C15"] = &Spec{
		Explanation: "Decides structural necessary conditions of 'parsing recovers exactly the script written': (1) units - every Position.Character written while parsing is a sum of character-unit terms (ANTLR columns, utf8.RuneCount*, constants), never len(string); lines are ANTLR lines minus one; (2) a context range starts at the start token and ends at the stop token; (3) every conversion switch over the generated alternative contexts handles every alternative of its rule (no node kind dropped); (4) same-named field mapping in composite literals of the parser; (5) Position.GtEq and Range.Contains are evaluated abstractly over all orderings of their operands (they only compare integers) and must be the lexicographic order and start <= position <= end.",
		NotDecided:  []string{"invariance under whitespace/comments and left-associativity (lexer channel and ATN of the generated parser)", "literal values beyond the conversion rules of C13/C14", "containment of children in parents (follows from ANTLR token nesting, assumption A2)"},
		Assumptions: []string{A1, A2, A4},
		Run: func(c *rules.Ctx) {
			obUnits(c, "C15.1")
			obRangeEnds(c, "C15.2a")
			ob := c.R.Ob("C15.4", "sumcheck/S1", "every parse-tree conversion switch handles every alternative context of its rule (plus the bare context of error recovery)", 10)
			c.S1(ob, selPkgs(map[string]bool{relParser: true}, nil, relParser))
			ob5 := c.R.Ob("C15.5", "cmp-pattern", "position ordering is lexicographic on (line, character) and containment is start <= position <= end", 2)
			c.PositionOrder(ob5)
			ob7 := c.R.Ob("C15.7", "origin/string-body", "the value of a string literal is its token text minus exactly one delimiter at each end", 1)
			c.StringLiteralBody(ob7)
			ob8 := c.R.Ob("C15.8", "origin/lexer-input", "the lexer reads exactly the text given to Parse", 1)
			c.LexerInputIsTheText(ob8, c.Fn(ob8, relParser, "Parse"))
			ob9 := c.R.Ob("C15.9", "numtext/N2-machine", "literal values are not built through 64-bit machine arithmetic", 0)
			c.BoundedArithmeticOnNumerals(ob9, map[string]bool{relParser: true})
			obm := c.R.Ob("C15.6", "mapping", "same-named fields are mapped to each other in composite literals of the parser", 0)
			c.Mapping(obm, map[string]bool{relParser: true})
		},
	}
}
