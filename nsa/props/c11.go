package props

import (
	"go/types"

	"nsa/core"
	"nsa/rules"

	"golang.org/x/tools/go/ssa"
)

func execRoots(c *rules.Ctx, ob *core.Obligation) []*ssa.Function {
	return []*ssa.Function{
		c.Fn(ob, relInterp, "RunProgram"),
		c.Fn(ob, "", "ParseResult.Run"),
		c.Fn(ob, "", "ParseResult.RunWithFeatureFlags"),
	}
}

func obNoGlobalWritesRun(c *rules.Ctx, id string) {
	ob := c.R.Ob(id, "effects/W1", "no function reachable from Run / RunProgram / Parse / CheckSource writes package-level state, starts goroutines or uses channels/sync: all state is per call", 60)
	roots := append(execRoots(c, ob), c.Fn(ob, relParser, "Parse"), c.Fn(ob, relAnalysis, "CheckSource"), c.Fn(ob, "", "Parse"))
	c.NoGlobalWrites(ob, "pure-entries", roots)
}

func obInputsReadOnly(c *rules.Ctx, id string) {
	ob := c.R.Ob(id, "effects/W2", "the vars and featureFlags maps, everything obtained from a Store method, and the shared parsed program are never written (map update/delete, store through pointer, in-place big-number operation)", 60)
	run := c.Fn(ob, relInterp, "RunProgram")
	srcs := []rules.TaintSource{{Fn: run, Params: []int{1, 2, 4}, What: "program, vars, featureFlags"}}
	if f := c.Fn(ob, "", "ParseResult.RunWithFeatureFlags"); f != nil {
		srcs = append(srcs, rules.TaintSource{Fn: f, Params: []int{0, 2, 4}, What: "parse result, vars, featureFlags"})
	}
	if f := c.Fn(ob, "", "ParseResult.Run"); f != nil {
		srcs = append(srcs, rules.TaintSource{Fn: f, Params: []int{0, 2}, What: "parse result, vars"})
	}
	c.InputsReadOnly(ob, "exec", execRoots(c, ob), srcs, c.P.Named(relInterp, "Store"))
}

func obFlagGate(c *rules.Ctx, id string) {
	ob := c.R.Ob(id, "effects/W6", "the feature-flag map is only looked up with constant keys; the lookup only sets a flag field; the flag field is read only by the implementation of a builtin", 3)
	c.FlagGate(ob, c.BuildTables(ob))
}

func obMapRangeOrder(c *rules.Ctx, id string) {
	ob := c.R.Ob(id, "effects/W5", "no result depends on map iteration order on the run path", 1)
	c.MapRangeOrderInsensitive(ob, "exec", execRoots(c, ob), nil)
}

func init() {
	Registry["C11"] = &Spec{
		Explanation: "Decides structural necessary conditions of 'execution is a pure, deterministic, re-entrant function of its inputs' by an effect analysis of every hand-written function reachable from Run/RunProgram (and Parse/CheckSource): (W1) no write to package-level variables (directly, through maps/pointers they hold, or by in-place big-number operations), no goroutine, channel, sync or unsafe use - so the only state is the per-call programState; (W2) a field-based may-alias taint analysis shows that the vars map, the featureFlags map, every map and big number returned by a Store method and the shared AST are never the target of a map update/delete, a store through a pointer or an in-place big-number operation; (W5) map iterations on the run path only have order-insensitive bodies; (W6) the feature flag is read only by the builtin it gates and the flag map is only looked up with the named constant.",
		NotDecided:  []string{"shallow copies of big.Int structs share their digit slice (assumption A3)", "schedules are not explored: the argument is that no shared mutable location exists, not a race search", "determinism of the Store implementation supplied by the caller"},
		Assumptions: []string{A1, A3, A4},
		Run: func(c *rules.Ctx) {
			obNoGlobalWritesRun(c, "C11.1")
			obInputsReadOnly(c, "C11.2")
			obMapRangeOrder(c, "C11.3")
			obFlagGate(c, "C11.4")
			obEvalReadOnly(c, "C11.2b")
			obQueryComplete(c, "C11.5")
		},
	}
}

var _ = types.Typ
