package props

import (
	"go/types"

	"nsa/rules"

	"golang.org/x/tools/go/ssa"
)

// isEvalCall: a call of the expression evaluator (a function taking an expectation
// func(Value, Range) (*T, error)) whose result is a pointer to a number or monetary.
func isEvalCall(call *ssa.Call) bool {
	sc := call.Call.StaticCallee()
	if sc == nil {
		return false
	}
	sig := sc.Signature
	hasExpect := false
	for i := 0; i < sig.Params().Len(); i++ {
		if fs, ok := sig.Params().At(i).Type().Underlying().(*types.Signature); ok && fs.Params().Len() == 2 && fs.Results().Len() == 2 {
			hasExpect = true
		}
	}
	if !hasExpect || sig.Results().Len() != 2 {
		return false
	}
	_, isPtr := sig.Results().At(0).Type().Underlying().(*types.Pointer)
	return isPtr
}

func obEvalReadOnly(c *rules.Ctx, id string) {
	ob := c.R.Ob(id, "effects/W2-eval", "a number obtained by evaluating an expression (a shallow copy sharing its digits with the variable's value), or queued as a sender/receiver amount, is never rewritten in place (except reset to zero)", 60)
	c.EvaluatedNumbersReadOnly(ob, "exec", execRoots(c, ob), isEvalCall)
}

func obPushBack(c *rules.Ctx, id string, r *rules.Roles) {
	ob := c.R.Ob(id, "ctrl/pushback", "the reconciler pushes back only fresh remainders: (own amount) - (other side's amount), onto the list the larger amount came from", 2)
	c.PushBackDiscipline(ob, r)
}

func obPendingScan(c *rules.Ctx, id string, r *rules.Roles) {
	ob := c.R.Ob(id, "ctrl/pending-scan", "the balance that bounds a draw is returned only after a complete scan of the pending senders, each sender of that name subtracted", 1)
	c.PendingScanComplete(ob, r)
}

func obBatchAlways(c *rules.Ctx, id string) {
	ob := c.R.Ob(id, "ctrl/batch", "registering a balance query records the (account, asset) pair unless the account is 'world' or the asset is already listed", 1)
	c.BatchRegistersAlways(ob)
}

var _ = ssa.NewProgram
