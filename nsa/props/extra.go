package props

import (
	"go/types"
	"nsa/core"

	"nsa/rules"

	"golang.org/x/tools/go/ssa"
)

// isEvalCall: a call of the expression evaluator (a function taking an expectation
// func(Value, Range) (*T, error)) whose result is a pointer to a number or monetary.
func isEvalCall(call *ssa.Call) bool {
	sc := call.Call.StaticCallee()
	if sc == nil {
		return false
	}
	sig := sc.Signature
	hasExpect := false
	for i := 0; i < sig.Params().Len(); i++ {
		if fs, ok := sig.Params().At(i).Type().Underlying().(*types.Signature); ok && fs.Params().Len() == 2 && fs.Results().Len() == 2 {
			hasExpect = true
		}
	}
	if !hasExpect || sig.Results().Len() != 2 {
		return false
	}
	_, isPtr := sig.Results().At(0).Type().Underlying().(*types.Pointer)
	return isPtr
}

func obEvalReadOnly(c *rules.Ctx, id string) {
	ob := c.R.Ob(id, "effects/W2-eval", "a number obtained by evaluating an expression (a shallow copy sharing its digits with the variable's value), or queued as a sender/receiver amount, is never rewritten in place (except reset to zero)", 60)
	c.EvaluatedNumbersReadOnly(ob, "exec", execRoots(c, ob), isEvalCall)
	c.ShallowCopyNeverMutated(ob, "exec", execRoots(c, ob))
}

func obDescend(c *rules.Ctx, id string) {
	ob := c.R.Ob(id, "ctrl/descend", "a traversal arm that hands a child sub-tree to a call on some path does so on every path that ends in a successful return", 10)
	// the traversal that collects the balances to fetch legitimately skips what cannot matter
	// (an unbounded overdraft needs no balance): it is judged by the prefetch rules of C10
	skip := map[*ssa.Function]bool{}
	if ir := c.IRoles(ob); ir != nil {
		skip[ir.Prefetch] = true
		skip[ir.PrefetchStmt] = true
	}
	c.ChildrenDescendedOnEveryPath(ob, map[string]bool{relInterp: true}, []string{"Source", "Destination", "KeptOrDestination", "Statement", "SentValue", "ValueExpr", "AllotmentValue"}, skip)
}

func obFetchFirst(c *rules.Ctx, id string) {
	ob := c.R.Ob(id, "ctrl/fetch-first", "on every path from RunProgram, a read of the balance cache comes after a fetch from the store (summaries over the call graph)", 1)
	ir := c.IRoles(ob)
	if ir == nil {
		return
	}
	// the leaf readers: functions that return a number read from the cache and do not get it
	// from another such function
	r := c.Roles(ob)
	if r == nil {
		return
	}
	leaf := func(fn *ssa.Function) bool {
		if !r.IsBalanceReader(fn) {
			return false
		}
		for _, ci := range core.Calls(fn) {
			if sc := ci.Common().StaticCallee(); sc != nil && sc != fn && r.IsBalanceReader(sc) {
				return false
			}
		}
		return true
	}
	c.NoReadBeforeFetch(ob, c.Fn(ob, relInterp, "RunProgram"), ir.Fetch, leaf)
}

func obQueryComplete(c *rules.Ctx, id string) {
	ob := c.R.Ob(id, "origin/query-complete", "the query sent to the store keeps, per account, the whole pending list of assets (or extends the entry by append)", 1)
	ir := c.IRoles(ob)
	if ir == nil {
		return
	}
	c.FilteredQueryComplete(ob, ir.Fetch, c.P.Field(relInterp, "programState", "CurrentBalanceQuery"))
}

func obCacheOwners(c *rules.Ctx, id string, r *rules.Roles) {
	ob := c.R.Ob(id, "effects/cache-owner", "a number that may be the cached balance itself is rewritten in place only where postings are applied and in the save runner", 1)
	c.CacheCellsWrittenByOwners(ob, r)
}

func obClampGrant(c *rules.Ctx, id string, r *rules.Roles) {
	ob := c.R.Ob(id, "ctrl/clamp-grant", "where a draw is bounded by balance + grant, only a number that already contains the grant is reset to zero", 1)
	c.ClampIncludesGrant(ob, r)
}

func obReaderUnaltered(c *rules.Ctx, id string, r *rules.Roles) {
	ob := c.R.Ob(id, "origin/reader-unaltered", "the balance reader that bounds a draw returns cached balance minus pending draws and nothing else (no clamp before the overdraft grant is added)", 1)
	c.ReaderReturnsUnaltered(ob, r)
}

func obPushBack(c *rules.Ctx, id string, r *rules.Roles) {
	ob := c.R.Ob(id, "ctrl/pushback", "the reconciler pushes back only fresh remainders: (own amount) - (other side's amount), onto the list the larger amount came from", 2)
	c.PushBackDiscipline(ob, r)
}

func obPendingScan(c *rules.Ctx, id string, r *rules.Roles) {
	ob := c.R.Ob(id, "ctrl/pending-scan", "the balance that bounds a draw is returned only after a complete scan of the pending senders, each sender of that name subtracted", 1)
	c.PendingScanComplete(ob, r)
}

func obBatchAlways(c *rules.Ctx, id string) {
	ob := c.R.Ob(id, "ctrl/batch", "registering a balance query records the (account, asset) pair unless the account is 'world' or the asset is already listed", 1)
	c.BatchRegistersAlways(ob)
}

var _ = ssa.NewProgram
