package props

import (
	"go/types"

	"nsa/core"
	"nsa/rules"

	"golang.org/x/tools/go/ssa"
)

func analysisRoots(c *rules.Ctx, ob *core.Obligation) []*ssa.Function {
	roots := []*ssa.Function{
		c.Fn(ob, relAnalysis, "CheckSource"),
		c.Fn(ob, relAnalysis, "CheckProgram"),
		c.Fn(ob, relAnalysis, "(*CheckResult).GetSymbols"),
		c.Fn(ob, relAnalysis, "HoverOn"),
		c.Fn(ob, relAnalysis, "GotoDefinition"),
		c.Fn(ob, relAnalysis, "SeverityToAnsiString"),
		c.Fn(ob, relLsp, "(*State).handleHover"),
		c.Fn(ob, relLsp, "(*State).handleGotoDefinition"),
		c.Fn(ob, relLsp, "(*State).handleGetSymbols"),
		c.Fn(ob, relLsp, "toLspDiagnostic"),
	}
	if dk := c.P.Named(relAnalysis, "DiagnosticKind"); dk != nil {
		if it, ok := dk.Underlying().(*types.Interface); ok {
			roots = append(roots, methodsImplementing(c, relAnalysis, it, "Message", "Severity")...)
		}
	}
	return roots
}

var analysisExceptions = map[string]rules.PanicException{
	"panic:internal/analysis.SeverityToAnsiString:unreachable-helper": {
		Reason: "every Severity() method of a diagnostic kind returns one of the constants handled by the switch", Side: rules.SideConstProducers(relAnalysis, "DiagnosticKind", "Severity")},
	"panic:internal/analysis.BadAllotmentSum.Message:explicit": {
		Reason: "a BadAllotmentSum diagnostic is only built on the arm where the sum was compared unequal to one", Side: rules.SideBuiltUnderCmpNE(relAnalysis, "BadAllotmentSum", "Sum")},
}

func obPanicAnalysis(c *rules.Ctx, id string) {
	ob := c.R.Ob(id, "panicscan", "every may-panic site reachable from the analysis entry points, the diagnostic renderers and the LSP query handlers is discharged", 20)
	exc := map[string]rules.PanicException{}
	for k, v := range parseExceptions {
		exc[k] = v
	}
	for k, v := range analysisExceptions {
		exc[k] = v
	}
	c.PanicScan(ob, "analysis-entry", analysisRoots(c, ob), exc)
}

func init() {
	Registry["C18"] = &Spec{
		Explanation: "",
		Assumptions: []string{A1, A3, A4},
		Run: func(c *rules.Ctx) {
			obPanicAnalysis(c, "C18.2")
		},
	}
}
