package props

import (
	"go/types"

	"nsa/core"
	"nsa/rules"

	"golang.org/x/tools/go/ssa"
)

func analysisRoots(c *rules.Ctx, ob *core.Obligation) []*ssa.Function {
	roots := []*ssa.Function{
		c.Fn(ob, relAnalysis, "CheckSource"),
		c.Fn(ob, relAnalysis, "CheckProgram"),
		c.Fn(ob, relAnalysis, "(*CheckResult).GetSymbols"),
		c.Fn(ob, relAnalysis, "HoverOn"),
		c.Fn(ob, relAnalysis, "GotoDefinition"),
		c.Fn(ob, relAnalysis, "SeverityToAnsiString"),
		c.Fn(ob, relLsp, "(*State).handleHover"),
		c.Fn(ob, relLsp, "(*State).handleGotoDefinition"),
		c.Fn(ob, relLsp, "(*State).handleGetSymbols"),
		c.Fn(ob, relLsp, "toLspDiagnostic"),
	}
	if dk := c.P.Named(relAnalysis, "DiagnosticKind"); dk != nil {
		if it, ok := dk.Underlying().(*types.Interface); ok {
			roots = append(roots, methodsImplementing(c, relAnalysis, it, "Message", "Severity")...)
		}
	}
	return roots
}

var analysisExceptions = map[string]rules.PanicException{
	"panic:internal/analysis.SeverityToAnsiString:unreachable-helper": {
		Reason: "every Severity() method of a diagnostic kind returns one of the constants handled by the switch", Side: rules.SideConstProducers(relAnalysis, "DiagnosticKind", "Severity")},
	"panic:internal/analysis.BadAllotmentSum.Message:explicit": {
		Reason: "a BadAllotmentSum diagnostic is only built on the arm where the sum was compared unequal to one", Side: rules.SideBuiltUnderCmpNE(relAnalysis, "BadAllotmentSum", "Sum")},
}

func obPanicAnalysis(c *rules.Ctx, id string) {
	ob := c.R.Ob(id, "panicscan", "every may-panic site reachable from the analysis entry points, the diagnostic renderers and the LSP query handlers is discharged", 20)
	exc := map[string]rules.PanicException{}
	for k, v := range parseExceptions {
		exc[k] = v
	}
	for k, v := range analysisExceptions {
		exc[k] = v
	}
	c.PanicScan(ob, "analysis-entry", analysisRoots(c, ob), exc)
}

var nilCfgAnalysis = rules.NilGuardCfg{
	Rels: map[string]bool{relAnalysis: true, relLsp: true},
	NonNilFields: map[string]string{
		"VarDeclaration.Type":     "first token of the varDeclaration rule (checked against Numscript.g4 by C18.1m)",
		"FnCall.Caller":           "always built as &FnCallIdentifier{...} (checked on the constructors by C18.1m)",
		"SourceOverdraft.Address": "both overdraft alternatives are only predicted after a complete address expression followed by ALLOWING (grammar shape checked by C18.1m)",
	},
	Exceptions: map[string]rules.NilException{
		"nil:internal/analysis.CheckResult.checkExpression:invoke:GetRange": {
			Reason: "the left operand is dereferenced only on the arm where its inferred type is neither any nor number/monetary, and the inference helper answers any for a nil expression",
			Side:   rules.SideInferAnyOnNil(relAnalysis, "(*CheckResult).typeOf")},
	},
	MapValueNonNil: map[string]map[string]bool{"declaredVars": {"Name": true}, "varResolution": {"Name": true}},
}

func obNilGuard(c *rules.Ctx, id string) {
	ob := c.R.Ob(id, "nilguard", "every dereference of a possibly-nil AST value in the checker, hover, definition, symbols and the LSP handlers is guarded by a nil test on every path", 15)
	c.NilGuard(ob, nilCfgAnalysis)
	obm := c.R.Ob(id+"m", "nilguard/model", "the facts the nil model relies on hold: FnCall.Caller and VarDeclaration.Type are never nil; declarations enter the checker's maps only with a non-nil Name", 4)
	c.NilModelChecks(obm)
}

func init() {
	Registry["C18"] = &Spec{
		Explanation: "",
		Assumptions: []string{A1, A3, A4},
		Run: func(c *rules.Ctx) {
			obNilGuard(c, "C18.1")
			obPanicAnalysis(c, "C18.2")
			ob3 := c.R.Ob("C18.3", "sumcheck/S1", "a panicking default in the checker / hover / LSP handlers sits under an exhaustive switch that also handles nil (partial trees)", 10)
			c.S1(ob3, selPkgs(nil, map[string]bool{relAnalysis: true}, relAnalysis, relLsp))
		},
	}
}
