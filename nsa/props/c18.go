package props

import (
	"go/types"

	"nsa/core"
	"nsa/rules"

	"golang.org/x/tools/go/ssa"
)

func analysisRoots(c *rules.Ctx, ob *core.Obligation) []*ssa.Function {
	roots := []*ssa.Function{
		c.Fn(ob, relAnalysis, "CheckSource"),
		c.Fn(ob, relAnalysis, "CheckProgram"),
		c.Fn(ob, relAnalysis, "(*CheckResult).GetSymbols"),
		c.Fn(ob, relAnalysis, "HoverOn"),
		c.Fn(ob, relAnalysis, "GotoDefinition"),
		c.Fn(ob, relAnalysis, "SeverityToAnsiString"),
		c.Fn(ob, relLsp, "(*State).handleHover"),
		c.Fn(ob, relLsp, "(*State).handleGotoDefinition"),
		c.Fn(ob, relLsp, "(*State).handleGetSymbols"),
		c.Fn(ob, relLsp, "toLspDiagnostic"),
	}
	if dk := c.P.Named(relAnalysis, "DiagnosticKind"); dk != nil {
		if it, ok := dk.Underlying().(*types.Interface); ok {
			roots = append(roots, methodsImplementing(c, relAnalysis, it, "Message", "Severity")...)
		}
	}
	return roots
}

var analysisExceptions = map[string]rules.PanicException{
	"panic:internal/analysis.SeverityToAnsiString:unreachable-helper": {
		Reason: "every Severity() method of a diagnostic kind returns one of the constants handled by the switch", Side: rules.SideConstProducers(relAnalysis, "DiagnosticKind", "Severity")},
	"panic:internal/analysis.BadAllotmentSum.Message:explicit": {
		Reason: "a BadAllotmentSum diagnostic is only built on the arm where the sum was compared unequal to one", Side: rules.SideBuiltUnderCmpNE(relAnalysis, "BadAllotmentSum", "Sum")},
}

func obPanicAnalysis(c *rules.Ctx, id string) {
	ob := c.R.Ob(id, "panicscan", "every may-panic site reachable from the analysis entry points, the diagnostic renderers and the LSP query handlers is discharged", 20)
	exc := map[string]rules.PanicException{}
	for k, v := range parseExceptions {
		exc[k] = v
	}
	for k, v := range analysisExceptions {
		exc[k] = v
	}
	c.PanicScan(ob, "analysis-entry", analysisRoots(c, ob), exc)
}

var nilCfgAnalysis = rules.NilGuardCfg{
	Rels: map[string]bool{relAnalysis: true, relLsp: true},
	NonNilFields: map[string]string{
		"VarDeclaration.Type":     "first token of the varDeclaration rule (checked against Numscript.g4 by C18.1m)",
		"FnCall.Caller":           "always built as &FnCallIdentifier{...} (checked on the constructors by C18.1m)",
		"SourceOverdraft.Address": "both overdraft alternatives are only predicted after a complete address expression followed by ALLOWING (grammar shape checked by C18.1m)",
	},
	Exceptions: map[string]rules.NilException{},
	MapValueNonNil: map[string]map[string]bool{"declaredVars": {"Name": true}, "varResolution": {"Name": true}},
}

func obNilGuard(c *rules.Ctx, id string) {
	ob := c.R.Ob(id, "nilguard", "every dereference of a possibly-nil AST value in the checker, hover, definition, symbols and the LSP handlers is guarded by a nil test on every path", 15)
	c.NilGuard(ob, nilCfgAnalysis)
	obm := c.R.Ob(id+"m", "nilguard/model", "the facts the nil model relies on hold: FnCall.Caller and VarDeclaration.Type are never nil; declarations enter the checker's maps only with a non-nil Name", 4)
	c.NilModelChecks(obm)
}

func init() {
	Registry["C18"] = &Spec{
		Explanation: "Decides structural necessary conditions of 'editor analysis survives any text': (1) a nil-guard dataflow over the checker, hover, go-to-definition, symbols and the LSP query handlers: every dereference (interface method call, field access through a pointer, pointer load, hand-off to a function that dereferences its parameter) of an AST value that can be absent on a partial tree is dominated on every path by a nil test of that value (or a successful type assertion of it); parameters are handled by a requirement fixpoint over call sites; fields proved non-nil by their constructors or by the grammar, and the invariant that declarations enter the checker's maps only with a name, are verified as separate model obligations; (2) the may-panic inventory (see C12/C14) from CheckSource, CheckProgram, GetSymbols, HoverOn, GotoDefinition, every diagnostic Message/Severity and the LSP query handlers, including the parser underneath; (3) panicking defaults sit under exhaustive switches that also handle nil.",
		NotDecided:  []string{"termination", "intermediate texts on which the ANTLR runtime itself misbehaves", "typed-nil pointers stored in interfaces by the conversion layer (no text produces them: ANTLR's recovery always builds the context or conjures the token)", "that diagnostics' ranges lie inside the document (runtime quantity; ranges are copies of parser ranges)", "analysing the same text twice gives the same set (follows from no shared state: see C11.1, not repeated here)"},
		Assumptions: []string{A1, A3, A4},
		Run: func(c *rules.Ctx) {
			obNilGuard(c, "C18.1")
			obPanicAnalysis(c, "C18.2")
			obUnits(c, "C18.4")
			ob3 := c.R.Ob("C18.3", "sumcheck/S1", "a panicking default in the checker / hover / LSP handlers sits under an exhaustive switch that also handles nil (partial trees)", 10)
			c.S1(ob3, selPkgs(nil, map[string]bool{relAnalysis: true}, relAnalysis, relLsp))
		},
	}
}
