package props

import (
	"fmt"
	"strings"

	"nsa/core"
	"nsa/rules"

	"golang.org/x/tools/go/ssa"
)

func parseEntryRoots(c *rules.Ctx, ob *core.Obligation) []*ssa.Function {
	return []*ssa.Function{
		c.Fn(ob, relParser, "Parse"),
		c.Fn(ob, relParser, "ParseErrorsToString"),
		c.Fn(ob, relParser, "(*ErrorListener).SyntaxError"),
	}
}

// lexer-class side conditions: computed from Numscript.g4 on every run (small-scope
// enumeration of the token's language over a representative alphabet).
func classSide(token, alphabet string, maxLen int, pred func(s string) (bool, string)) func(c *rules.Ctx, fn *ssa.Function, in ssa.Instruction) (bool, string) {
	return func(c *rules.Ctx, fn *ssa.Function, in ssa.Instruction) (bool, string) {
		g, err := c.Grammar()
		if err != nil {
			return false, "cannot read Numscript.g4: " + err.Error()
		}
		ms, err := g.Matches(token, alphabet, maxLen)
		if err != nil {
			return false, err.Error()
		}
		if len(ms) == 0 {
			return false, "lexer class " + token + " matched nothing over the probe alphabet"
		}
		for _, m := range ms {
			if ok, why := pred(m); !ok {
				return false, fmt.Sprintf("token %s can be %q: %s", token, m, why)
			}
		}
		return true, ""
	}
}

func digitsOnly(s string) bool {
	if s == "" {
		return false
	}
	for _, r := range s {
		if r < '0' || r > '9' {
			return false
		}
	}
	return true
}

var (
	sideRatioParts = classSide("RATIO_PORTION_LITERAL", "09 /x-", 6, func(s string) (bool, string) {
		parts := strings.Split(s, "/")
		if len(parts) != 2 {
			return false, "does not split into two parts on '/'"
		}
		for _, p := range parts {
			if !digitsOnly(strings.TrimSpace(p)) {
				return false, "a part is not a plain digit string after trimming"
			}
		}
		return true, ""
	})
	sidePercentDigits = classSide("PERCENTAGE_PORTION_LITERAL", "09.%x-", 6, func(s string) (bool, string) {
		t := strings.Replace(strings.TrimSuffix(s, "%"), ".", "", -1)
		if !digitsOnly(t) {
			return false, "is not digits after removing '%' and '.'"
		}
		return true, ""
	})
	sideMinLen = func(token string, alphabet string, n int) func(c *rules.Ctx, fn *ssa.Function, in ssa.Instruction) (bool, string) {
		return classSide(token, alphabet, 4, func(s string) (bool, string) {
			if len(s) < n {
				return false, fmt.Sprintf("shorter than %d", n)
			}
			return true, ""
		})
	}
)

const showOnSourceReason = "ASSUMPTION (runtime quantity, not decided): the ranges rendered by ParseErrorsToString were produced by ANTLR for the same text, so 0 <= Start.Line <= End.Line < number of lines and tokens have non-empty text (End.Character >= Start.Character on one line)"

var parseExceptions = map[string]rules.PanicException{
	"panic:internal/parser.Range.ShowOnSource:slice":    {Reason: showOnSourceReason},
	"panic:internal/parser.Range.ShowOnSource:index":    {Reason: showOnSourceReason},
	"panic:internal/parser.Range.ShowOnSource$2:repeat": {Reason: showOnSourceReason},
	"panic:internal/parser.parseVarLiteral:slice": {
		Reason: "the token is a VARIABLE_NAME (or a conjured one, excluded by the index test): at least the '$' sigil", Side: sideMinLen("VARIABLE_NAME", "$a_0", 1)},
	"panic:internal/parser.variableLiteralFromCtx:slice": {
		Reason: "the context is a single VARIABLE_NAME token: at least the '$' sigil", Side: sideMinLen("VARIABLE_NAME", "$a_0", 1)},
	"panic:internal/parser.parseValueExpr:slice": {
		Reason: "the accountLiteral alternative is a single ACCOUNT token: at least the '@' sigil", Side: sideMinLen("ACCOUNT", "@a:_", 1)},
	"panic:internal/parser.parseStringLiteralCtx:slice": {
		Reason: "the stringLiteral alternative is a single STRING token: two quotes", Side: sideMinLen("STRING", "\"a\\", 2)},
	"panic:internal/parser.unsafeParseBigInt:explicit": {
		Reason: "called only on the two parts of a RATIO token split on '/': trimmed digit strings, on which base-ten big.Int.SetString is total", Side: sideRatioParts},
	"panic:internal/parser.parseRatio:index": {
		Reason: "a RATIO token contains exactly one '/'", Side: sideRatioParts},
	"panic:internal/parser.parsePercentageRatio:explicit": {
		Reason: "ParsePercentageRatio fails only when base-ten SetString fails; a PERCENTAGE token minus '%' and '.' is a digit string", Side: sidePercentDigits},
}

func obPanicParse(c *rules.Ctx, id string) {
	ob := c.R.Ob(id, "panicscan", "every may-panic site reachable from Parse / ParseErrorsToString is discharged by a guard or a justified exception", 20)
	c.PanicScan(ob, "parse-entry", parseEntryRoots(c, ob), parseExceptions)
}

func obParserSwitches(c *rules.Ctx, id string) {
	ob := c.R.Ob(id, "sumcheck/S1", "every parse-tree conversion switch handles every alternative context of its rule (plus the bare context of error recovery)", 10)
	c.S1(ob, selPkgs(map[string]bool{relParser: true}, nil, relParser))
}

func init() {
	Registry["C14"] = &Spec{
		Explanation: "Decides structural necessary conditions of 'the parser is total': (1) an inventory of every may-panic construct (explicit panic, never-returning helper, index/slice, unchecked type assertion, division-like call, negative repeat/make) in every hand-written function reachable from Parse, ParseErrorsToString and the error listener; each site is discharged mechanically (exhaustive switch, bounds implied by the path condition, non-zero divisor) or by a named exception whose lexer-class side condition is recomputed from Numscript.g4 on every run; (2) every conversion switch handles every alternative context incl. the bare one produced by error recovery; (3) error positions are in characters and lines zero-based; (4) the collecting error listener is installed on both lexer and parser and is the one returned.",
		NotDecided:  []string{"termination", "that valid scripts yield zero errors and invalid ones at least one (generated recogniser vs grammar)", "panics inside the ANTLR runtime", "ShowOnSource bounds (runtime quantities, listed as an assumption)"},
		Assumptions: []string{A1, A3, A4, showOnSourceReason},
		Run: func(c *rules.Ctx) {
			obPanicParse(c, "C14.1")
			obParserSwitches(c, "C14.2")
			obUnits(c, "C14.3")
			ob4 := c.R.Ob("C14.4", "ctrl/listener", "lexer and parser report to one collecting listener whose list is what Parse returns", 1)
			c.SingleCollectingListener(ob4)
		},
	}
}
