package props

import (
	"fmt"
	"strings"

	"nsa/core"
	"nsa/rules"

	"golang.org/x/tools/go/ssa"
)

func parseEntryRoots(c *rules.Ctx, ob *core.Obligation) []*ssa.Function {
	return []*ssa.Function{
		c.Fn(ob, relParser, "Parse"),
		c.Fn(ob, relParser, "ParseErrorsToString"),
		c.Fn(ob, relParser, "(*ErrorListener).SyntaxError"),
	}
}

// lexer-class side conditions: computed from Numscript.g4 on every run (small-scope
// enumeration of the token's language over a representative alphabet).
func classSide(token, alphabet string, maxLen int, pred func(s string) (bool, string)) func(c *rules.Ctx, fn *ssa.Function, in ssa.Instruction) (bool, string) {
	return func(c *rules.Ctx, fn *ssa.Function, in ssa.Instruction) (bool, string) {
		g, err := c.Grammar()
		if err != nil {
			return false, "cannot read Numscript.g4: " + err.Error()
		}
		ms, err := g.Matches(token, alphabet, maxLen)
		if err != nil {
			return false, err.Error()
		}
		if len(ms) == 0 {
			return false, "lexer class " + token + " matched nothing over the probe alphabet"
		}
		for _, m := range ms {
			if ok, why := pred(m); !ok {
				return false, fmt.Sprintf("token %s can be %q: %s", token, m, why)
			}
		}
		return true, ""
	}
}

func digitsOnly(s string) bool {
	if s == "" {
		return false
	}
	for _, r := range s {
		if r < '0' || r > '9' {
			return false
		}
	}
	return true
}

var (
	sideRatioParts = classSide("RATIO_PORTION_LITERAL", "09 /x-", 6, func(s string) (bool, string) {
		parts := strings.Split(s, "/")
		if len(parts) != 2 {
			return false, "does not split into two parts on '/'"
		}
		for _, p := range parts {
			if !digitsOnly(strings.TrimSpace(p)) {
				return false, "a part is not a plain digit string after trimming"
			}
		}
		return true, ""
	})
	sidePercentDigits = classSide("PERCENTAGE_PORTION_LITERAL", "09.%x-", 6, func(s string) (bool, string) {
		t := strings.Replace(strings.TrimSuffix(s, "%"), ".", "", -1)
		if !digitsOnly(t) {
			return false, "is not digits after removing '%' and '.'"
		}
		return true, ""
	})
	sideMinLen = func(token string, alphabet string, n int) func(c *rules.Ctx, fn *ssa.Function, in ssa.Instruction) (bool, string) {
		return classSide(token, alphabet, 4, func(s string) (bool, string) {
			if len(s) < n {
				return false, fmt.Sprintf("shorter than %d", n)
			}
			return true, ""
		})
	}
)

func sideBoth(a, b func(c *rules.Ctx, fn *ssa.Function, in ssa.Instruction) (bool, string)) func(c *rules.Ctx, fn *ssa.Function, in ssa.Instruction) (bool, string) {
	return func(c *rules.Ctx, fn *ssa.Function, in ssa.Instruction) (bool, string) {
		if ok, why := a(c, fn, in); !ok {
			return ok, why
		}
		return b(c, fn, in)
	}
}

const showOnSourceReason = "ASSUMPTION (runtime quantity, not decided): the ranges rendered by ParseErrorsToString were produced by ANTLR for the same text, so 0 <= Start.Line <= End.Line < number of lines and tokens have non-empty text (End.Character >= Start.Character on one line)"

var parseExceptions = map[string]rules.PanicException{
	"shape:internal/parser:slice:renderer":  {Reason: showOnSourceReason},
	"shape:internal/parser:index:renderer":  {Reason: showOnSourceReason},
	"shape:internal/parser:repeat:renderer": {Reason: showOnSourceReason, Side: rules.SideRendererCount},
	"shape:internal/parser:explicit:setstring10-failed": {
		Reason: "in the parser package base-ten big.Int.SetString is only applied to the parts of a RATIO token split on '/' (trimmed digit strings) and to a PERCENTAGE token minus '%' and '.' (a digit string), on which it is total", Side: sideBoth(sideRatioParts, sidePercentDigits)},
	"shape:internal/parser:explicit:setstring10-failed-in-callee": {
		Reason: "the callee fails only when base-ten SetString fails; it is given a PERCENTAGE token, which minus '%' and '.' is a digit string", Side: sidePercentDigits},
	"shape:internal/parser:index:split-const": {
		Reason: "a RATIO token contains exactly one '/'", Side: sideRatioParts},
}

func obPanicParse(c *rules.Ctx, id string) {
	ob := c.R.Ob(id, "panicscan", "every may-panic site reachable from Parse / ParseErrorsToString is discharged by a guard or a justified exception", 20)
	c.PanicScan(ob, "parse-entry", parseEntryRoots(c, ob), parseExceptions)
}

func obParserSwitches(c *rules.Ctx, id string) {
	ob := c.R.Ob(id, "sumcheck/S1", "every parse-tree conversion switch handles every alternative context of its rule (plus the bare context of error recovery)", 10)
	c.S1(ob, selPkgs(map[string]bool{relParser: true}, nil, relParser))
}

func init() {
	Registry["C14"] = &Spec{
		Explanation: "Decides structural necessary conditions of 'the parser is total': (1) an inventory of every may-panic construct (explicit panic, never-returning helper, index/slice, unchecked type assertion, division-like call, negative repeat/make) in every hand-written function reachable from Parse, ParseErrorsToString and the error listener; each site is discharged mechanically (exhaustive switch, bounds implied by the path condition, non-zero divisor) or by a named exception whose lexer-class side condition is recomputed from Numscript.g4 on every run; (2) every conversion switch handles every alternative context incl. the bare one produced by error recovery; (3) error positions are in characters and lines zero-based; (4) the collecting error listener is installed on both lexer and parser and is the one returned.",
		NotDecided:  []string{"termination", "that valid scripts yield zero errors and invalid ones at least one (generated recogniser vs grammar)", "panics inside the ANTLR runtime", "ShowOnSource bounds (runtime quantities, listed as an assumption)"},
		Assumptions: []string{A1, A3, A4, showOnSourceReason},
		Run: func(c *rules.Ctx) {
			obPanicParse(c, "C14.1")
			obParserSwitches(c, "C14.2")
			obUnits(c, "C14.3")
			ob4 := c.R.Ob("C14.4", "ctrl/listener", "lexer and parser report to one collecting listener whose list is what Parse returns", 1)
			c.SingleCollectingListener(ob4)
			ob6 := c.R.Ob("C14.6", "sibling/line-split", "the error renderer cuts the source into lines at the character the lexer counts lines by", 1)
			c.RendererSplitsOnNewline(ob6)
			ob5 := c.R.Ob("C14.5", "origin/lexer-input", "the lexer reads exactly the text given to Parse (errors are located in the caller's text)", 1)
			c.LexerInputIsTheText(ob5, c.Fn(ob5, relParser, "Parse"))
		},
	}
}
