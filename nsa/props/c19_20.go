package props

import (
	"nsa/rules"
)

func init() {
	Registry["C19"] = &Spec{
		Explanation: "Decides structural necessary conditions of 'the language server answers from the latest text of the right document': (1) the document store has a single writer which stores, under the URI it is given, the text it is given together with CheckSource of that very text, and publishes - under the same URI - one diagnostic per diagnostic of that analysis; (2) didOpen / didChange hand it the URI and text of the same decoded notification, didChange the LAST content change (full sync); (3) hover, definition and symbols look the document up under the request's own TextDocument.URI, run the analysis on that document's own program and check result, and answer under the request's URI; (4) the position / range / diagnostic / symbol converters map same-named fields; (5) the hover traversal has an arm for every node kind and descends into every expression child (so every variable use and builtin call is reachable); (6) a hover result is created only after Contains(position) succeeded for the node reported, and a definition answer is the name range of the declaration the checker resolved for the hovered node; (7) the checker records a use -> declaration resolution only on the lookup-hit edge for the node whose own name was looked up; (8) the hover search leaves a loop over sibling nodes only with an answer in hand - ranges are inclusive at both ends, so the neighbour that starts where a node ends also contains that position.",
		NotDecided:  []string{"request histories beyond 'one writer, keyed by URI, latest text stored' (interleavings are not explored)", "UTF-16 vs character columns of the LSP wire format", "the content of hover messages"},
		Assumptions: []string{A1, A2, A4},
		Run: func(c *rules.Ctx) {
			ob1 := c.R.Ob("C19.1", "origin/lsp-store", "single-writer document store keyed by the request URI, holding the latest text and its own analysis; handlers read and answer under the request's URI", 6)
			c.LSPDocumentStore(ob1)
			ob4 := c.R.Ob("C19.4", "mapping", "LSP converters map same-named fields (Line<-Line, Character<-Character, Start<-Start, End<-End, Range<-Range, ...)", 8)
			c.Mapping(ob4, map[string]bool{relLsp: true, relAnalysis: true})
			ob5 := c.R.Ob("C19.5", "sumcheck/S2", "the hover traversal descends into every expression child of every node kind", 15)
			c.S2(ob5, famHover)
			ob6 := c.R.Ob("C19.6", "ctrl/contains", "hover results only under a successful Contains test of the node reported; definition = name range of the resolved declaration", 3)
			c.HoverUnderContains(ob6)
			ob7 := c.R.Ob("C19.7", "ctrl/names", "use -> declaration resolution recorded on the hit edge for the node looked up", 4)
			c.NameBookkeeping(ob7)
			ob10 := c.R.Ob("C19.10", "ctrl/sibling-search", "the hover search leaves a loop over sibling nodes only with an answer (neighbouring ranges share their boundary position)", 3)
			c.SiblingSearchExhaustive(ob10, relAnalysis, "Hover")
			ob9 := c.R.Ob("C19.9", "origin/node-identity", "the expression checker is handed AST nodes, never the address of a local copy of one (resolutions are keyed by node address)", 1)
			c.NodesNotCopiedBeforeChecking(ob9)
			ob8 := c.R.Ob("C19.8", "cmp-pattern", "position ordering is lexicographic on (line, character) and containment is start <= position <= end", 2)
			c.PositionOrder(ob8)
		},
	}
	Registry["C20"] = &Spec{
		Explanation: "Decides structural necessary conditions of 'the CLI reports exactly what the library computes': (1) in `check`, os.Exit(non-zero) is executed exactly on the edge where GetErrorsCount() of CheckSource(file text) is non-zero, and GetErrorsCount counts the diagnostics whose Severity() equals ErrorSeverity; every diagnostic is printed with its start line, character and message; (2) in `run`, the script parsed, the program executed and the variables all come from the one decoded input value that all three input channels (raw, file flags, stdin) fill, and the store is built field-for-field from its balances and metadata; (3) a library error or a parse error is rendered and every path then exits non-zero; (4) JSON mode writes json.Marshal of the very value the library returned, unmodified, to standard output; (5) the JSON renderings of values are base-ten exact and mirror String (C13).",
		NotDecided:  []string{"exit status when a file cannot be read (outside the property)", "formatting details of pretty mode", "that encoding/json and cobra behave as documented"},
		Assumptions: []string{A3, A4},
		Run: func(c *rules.Ctx) {
			ob1 := c.R.Ob("C20.1", "ctrl/exit-status", "check exits non-zero exactly when the error count is non-zero; every diagnostic is printed with position and message", 3)
			c.CLICheckExitStatus(ob1)
			ob2 := c.R.Ob("C20.3", "origin/cli-run", "run executes the decoded input through the library and reports its result or error unmodified", 5)
			c.CLIRunPassThrough(ob2)
			ob3 := c.R.Ob("C20.3b", "mapping", "the store handed to the library is built field-for-field from the decoded balances and metadata", 2)
			c.Mapping(ob3, map[string]bool{relCmd: true})
			ob4 := c.R.Ob("C20.4", "numtext/N2-machine", "neither the CLI nor the value renderers it prints through narrow or rebuild amounts through 64-bit machine integers", 0)
			c.BoundedArithmeticOnNumerals(ob4, map[string]bool{relCmd: true, relInterp: true, "": true})
			ob6 := c.R.Ob("C20.6", "origin/verbatim", "no message is used as a format string by the CLI", 1)
			c.FormatStringsConstant(ob6, relCmd)
			obNumRender(c, "C20.5")
			obTypeTables(c, "C20.5b")
		},
	}
}
