package props

import (
	"go/types"

	"nsa/core"
	"nsa/rules"

	"golang.org/x/tools/go/ssa"
)

// textRels: packages whose functions handle script, variable or metadata text.
var textRels = map[string]bool{"": true, relParser: true, relInterp: true, relAnalysis: true, relUtils: true}

// valueRenderers lists String/MarshalJSON of every Value type plus the metadata writers.
func valueRenderers(c *rules.Ctx, ob *core.Obligation) []*ssa.Function {
	var out []*ssa.Function
	valueT := c.P.Named(relInterp, "Value")
	sum := c.M.SumOf(valueT)
	if sum == nil {
		ob.Unknown("anchor:interpreter.Value", "-", "Value sum not found")
		return nil
	}
	for _, t := range sum.Impls {
		for i := 0; i < t.NumMethods(); i++ {
			m := t.Method(i)
			if m.Name() == "String" || m.Name() == "MarshalJSON" {
				if f := c.P.SSAFunc(m); f != nil {
					out = append(out, f)
				}
			}
		}
	}
	// the metadata writers: the implementations of the statement builtins, whatever their names
	t := c.BuildTables(ob)
	n := 0
	for name, f := range t.Impl {
		if t.RCtx[name] == "statement" && f != nil {
			out = append(out, f)
			n++
		}
	}
	if n == 0 {
		ob.Unknown("anchor:statement-builtins", "-", "no implementation of a statement builtin found through the dispatch")
	}
	return out
}

func obNumText(c *rules.Ctx, id string) {
	ob := c.R.Ob(id, "numtext/N1+N2", "every text->number conversion of script, variable or metadata text is explicit base ten and unbounded", 6)
	c.NumTextIn(ob, textRels, nil)
}

func obNumRender(c *rules.Ctx, id string) {
	ob := c.R.Ob(id, "numtext/N3", "number->text rendering of values (String, MarshalJSON, metadata writers) is base ten and exact", 8)
	c.NumRenderIn(ob, valueRenderers(c, ob))
}

func obTypeTables(c *rules.Ctx, id string) {
	ob := c.R.Ob(id, "numtext/N4", "declared type names, parseVar arms, expect* functions and Value types are in bijection; MarshalJSON mirrors String", 8)
	c.TypeTables(ob)
	c.MarshalMirrorsString(ob)
}

func init() {
	Registry["C13"] = &Spec{
		Explanation: "Decides structural necessary conditions of 'values keep their exact meaning across literal, variable and metadata text': (1) every conversion from text to a number in the parser, interpreter and checker is a big-integer parse with the constant base 10 - no base auto-detection (big.Rat.SetString, base 0), no range-bounded converter (strconv, float powers); (2) every rendering of a value to text uses base-ten exact forms; (3) the four type tables (checker type names, parseVar arms, expect* functions, Value implementers) are in bijection and MarshalJSON reads the same components as String, so transaction and account metadata carry the same text; (4) both percentage readers scale by 10^(2+fraction digits).",
		NotDecided:  []string{"round-trip equality for arbitrary values (a string containing a space read back as a monetary, an asset outside the ASSET class): quantifies over values", "that the digit groups are combined with the right arithmetic beyond the scale exponent"},
		Assumptions: []string{A1, A3, A4},
		Run: func(c *rules.Ctx) {
			obNumText(c, "C13.1")
			obNumRender(c, "C13.2")
			obTypeTables(c, "C13.3")
			ob5 := c.R.Ob("C13.5", "numtext/N2-machine", "no machine-integer multiplication feeds a big number and no big number is narrowed to 64 bits where numbers are read, computed or rendered", 3)
			c.BoundedArithmeticOnNumerals(ob5, map[string]bool{relParser: true, relInterp: true, relCmd: true, "": true})
			ob7 := c.R.Ob("C13.7", "origin/var-text", "the text of a variable reaches the per-type readers unmodified", 1)
			c.VariableTextUnmodified(ob7)
			obEvalReadOnly(c, "C13.8")
			ob6 := c.R.Ob("C13.6", "origin/meta-text", "the account metadata a script writes is each value's own String() text", 1)
			c.AccountMetaIsValueText(ob6)
			ob := c.R.Ob("C13.4", "numtext/scale", "percentage readers (literal and variable) scale by ten to the power 2 + number of fraction digits, in exact integer arithmetic", 0)
			c.PercentScale(ob, map[string]bool{relParser: true, relInterp: true})
		},
	}
}

var _ = types.Typ
