package props

import (
	"nsa/rules"
)

func obSaveMonotone(c *rules.Ctx, id string, r *rules.Roles) {
	ob := c.R.Ob(id, "subguard/save", "save only lowers a balance: the amount subtracted is tested non-negative first, and the balance is set to zero only where its value at entry was tested positive", 1)
	c.SaveMonotone(ob, r)
}

func init() {
	Registry["C08"] = &Spec{
		Explanation: "Decides structural necessary conditions of 'save reserves funds': in the function that executes a save statement (1) every write to the saved account's cached balance keeps it at or below its value at entry: a subtraction of an amount tested non-negative, or a reset to zero that is reachable only where the balance read at entry - before any write - was tested positive (so a negative balance is never raised); (2) a negative amount is rejected by a strict comparison before any write; (3) the function returns no postings on any path and cannot reach the sender/receiver push functions or the reconciler; (4) the prefetch registers the saved (account, asset) pair (C10.1a).",
		NotDecided:  []string{"interaction with later statements beyond the cache update rule (C09)", "that min(balance, n) is what gets hidden, as arithmetic"},
		Assumptions: []string{A1, A3, A4},
		Run: func(c *rules.Ctx) {
			ob0 := c.R.Ob("C08.0", "roles", "the interpreter's money roles are found in the code", 0)
			r := c.Roles(ob0)
			obSaveMonotone(c, "C08.1", r)
			obSign(c, "C08.1b")
			obEvalReadOnly(c, "C08.5")
			ob2 := c.R.Ob("C08.2", "ctrl/negative", "negative amounts are rejected by a strict comparison with zero", 2)
			c.NegativeTestStrict(ob2, "NegativeAmountErr")
			ob3 := c.R.Ob("C08.3", "effects/W4", "the save runner returns no postings and can reach neither the push functions nor the reconciler", 1)
			c.SaveProducesNothing(ob3, r)
			ob4 := c.R.Ob("C08.4", "sumcheck/S2", "the prefetch registers the account and asset a save will read", 2)
			c.S2(ob4, famPrefetch)
			obFetchFirst(c, "C08.6")
		},
	}
}
