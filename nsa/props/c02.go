package props

import (
	"go/constant"
	"go/types"
	"strings"

	"nsa/core"
	"nsa/rules"

	"golang.org/x/tools/go/ssa"
)

func signCfg(c *rules.Ctx, r *rules.Roles) rules.SignCfg {
	isInterp := func(f *types.Var) bool {
		rel, ok := core.Rel(f.Pkg())
		return ok && rel == relInterp
	}
	owner := func(f *types.Var, typ string) bool {
		// field belongs to struct typ of the interpreter package
		tn, _ := f.Pkg().Scope().Lookup(typ).(*types.TypeName)
		if tn == nil {
			return false
		}
		st, ok := tn.Type().Underlying().(*types.Struct)
		if !ok {
			return false
		}
		for i := 0; i < st.NumFields(); i++ {
			if st.Field(i) == f {
				return true
			}
		}
		return false
	}
	sinkName := func(f *types.Var) (string, bool) {
		if f.Pkg() == nil || !isInterp(f) {
			return "", false
		}
		switch {
		case f.Name() == "Monetary" && owner(f, "Sender"):
			return "Sender.Monetary", true
		case f.Name() == "Monetary" && owner(f, "Receiver"):
			return "Receiver.Monetary", true
		case f.Name() == "Amount" && owner(f, "Posting"):
			return "Posting.Amount", true
		}
		return "", false
	}
	return rules.SignCfg{
		Rel:              relInterp,
		MustBeNNAtReturn: c.SaveBalanceCells(r),
		SinkField:        sinkName,
		NNField: func(f *types.Var) bool {
			if f.Pkg() == nil {
				return false
			}
			if _, ok := sinkName(f); ok {
				return true // guaranteed by the sink obligation itself (assume-guarantee)
			}
			rel, ok := core.Rel(f.Pkg())
			// numerator / denominator of a ratio literal: digit strings by lexer class (A1)
			return ok && rel == relParser && (f.Name() == "Numerator" || f.Name() == "Denominator")
		},
		SubMustBeOrdered: func(x, y ssa.Value) bool {
			isPair := func(v ssa.Value) bool {
				v = core.Strip(v)
				switch t := v.(type) {
				case *ssa.Field:
					if f := core.FieldOf(t); f != nil {
						_, ok := sinkName(f)
						return ok
					}
				case *ssa.UnOp:
					if f := core.FieldOf(t.X); f != nil {
						_, ok := sinkName(f)
						return ok
					}
				}
				return false
			}
			return isPair(x) && isPair(y)
		},
		NNCall: func(call *ssa.Call) bool {
			callee := call.Call.StaticCallee()
			if callee == nil {
				return false
			}
			// portions are within [0,1]: checked by C02.2p (range test in the portion reader, digit-only literals)
			if callee.Name() == "ToRatio" {
				return true
			}
			name := callee.Name()
			if o := callee.Origin(); o != nil {
				name = o.Name()
			}
			if name == "evaluateExprAs" && call.Call.Signature().Results().Len() == 2 {
				return strings.HasSuffix(call.Call.Signature().Results().At(0).Type().String(), "math/big.Rat")
			}
			return false
		},
	}
}

func obSign(c *rules.Ctx, id string) {
	ob := c.R.Ob(id, "sign", "no possibly-negative amount (script cap, overdraft grant, balance, balance+overdraft, remaining portion) reaches a sender / receiver / posting amount without a sign test or clamp on every path", 6)
	c.SignAnalysis(ob, signCfg(c, c.Roles(ob)))
	obp := c.R.Ob(id+"p", "sign/portion-range", "portion values are within [0,1]: the portion reader returns a value only after comparing it with zero and one", 1)
	c.PortionRangeChecked(obp)
}

// keptMarker reads the value of the interpreter's KEPT_ADDR constant.
func keptMarker(c *rules.Ctx) string {
	if pkg := c.P.Pkg(relInterp); pkg != nil {
		if k, ok := pkg.Types.Scope().Lookup("KEPT_ADDR").(*types.Const); ok {
			return constant.StringVal(k.Val())
		}
	}
	return "<kept>"
}

func init() {
	Registry["C02"] = &Spec{
		Explanation: "Decides structural necessary conditions of 'every posting is a real transfer': (1) zero filter - every amount queued as a sender or receiver is compared unequal to zero on every path, and the remainders the reconciler pushes back come from strictly ordered subtractions; (2) sign - a forward, path-sensitive may-be-negative analysis over the interpreter's big-number cells (signs are 'non-negative provided these parameters are', so helpers get transfer summaries) shows that no value that may be negative - a script cap, an overdraft grant, a balance, balance+grant, the remaining portion 1-sum, an allotment share - reaches a sender/receiver/posting amount without a sign test or a clamp on every path; every subtraction between a sender amount and a receiver amount is ordered by a comparison on that path (also in the branch for kept funds); portions are proved within [0,1] at the reader; (3) a posting's source is a sender's name, its destination a receiver's name that was compared unequal to the kept marker on every path, its asset the reconciler's parameter whose every argument is the current asset, which each statement assigns before anything reads it; (4) negative sent amounts are rejected by a strict comparison.",
		NotDecided:  []string{"that big-integer subtraction in the draw/receive families never goes negative when both operands are non-negative: treated optimistically - it is the 'drawn <= requested' contract of C03/C04", "empty account names passed through variables (parseVar accepts any string as an account)"},
		Assumptions: []string{A1, A3, A4},
		Run: func(c *rules.Ctx) {
			ob1 := c.R.Ob("C02.1", "ctrl/zero-filter", "every amount queued as sender or receiver is tested non-zero (or is the remainder of a strictly ordered subtraction) on every path", 4)
			r := c.Roles(ob1)
			c.ZeroFilter(ob1, r)
			obSign(c, "C02.2")
			obPushBack(c, "C02.3", r)
			ob4 := c.R.Ob("C02.4", "origin/posting", "a posting's source is a sender's name, its destination a receiver's name that is never the kept marker, its asset the current asset of the statement", 3)
			c.PostingShape(ob4, r, keptMarker(c))
			ob5 := c.R.Ob("C02.4b", "ctrl/asset", "the current asset is assigned by each statement before anything reads it", 2)
			c.AssetAssignedBeforeUse(ob5, r)
			ob6 := c.R.Ob("C02.6", "ctrl/negative", "negative amounts are rejected by a strict comparison with zero", 2)
			c.NegativeTestStrict(ob6, "NegativeAmountErr")
		},
	}
}
