package props

import (
	"nsa/rules"
)

func init() {
	Registry["C17"] = &Spec{
		Explanation: "Decides structural necessary conditions of 'a clean static check means no static-class failure at run time' by cross-checking the two implementations of the typing discipline, both tables being extracted from the code on every run: (1) for every AST position at which the interpreter demands a type (evaluateExprAs(st, <node>.<field>, expectX), expectation combinators resolved), the checker calls checkExpression on the same position with one of the accepted types - 'any' only where the interpreter accepts anything or on an arm selected when the operand's type could not be inferred (which comes with its own error); (2) the builtins dispatched by the statement runner / origin handler are exactly the statement / origin entries of analysis.Builtins, with equal arity, parameter types (parseArg sequence) and origin return types; (3) declared type names, parseVar arms, expect* functions and Value types are in bijection; (4) every send-all source shape the interpreter rejects has a diagnostic on the checker's arm for that kind; (5) the kinds for undeclared variable, unknown function, wrong arity, invalid type and type mismatch have error severity; the per-statement fields of the check state are assigned for the statement at hand before anything reads them (a send-all flag left behind by a previous statement would hide or invent a send-all shape error).",
		NotDecided:  []string{"soundness as a theorem over all programs", "failures that depend on variable values (an account variable holding 'world' under send-all)", "that the checker propagates declared variable types correctly through assertHasType (its arithmetic, not its shape)"},
		Assumptions: []string{A1, A4},
		Run: func(c *rules.Ctx) {
			ob := c.R.Ob("C17.1", "sibling/typing", "the checker is never weaker than the interpreter: every position typed at run time is checked with an accepted type", 12)
			t := c.BuildTables(ob)
			c.CheckerNotWeaker(ob, t)
			ob2 := c.R.Ob("C17.2", "sibling/builtins", "builtin dispatch, contexts, arities, parameter and return types agree between interpreter and checker", 5)
			c.BuiltinTablesAgree(ob2, t, c.ValueTypeNames())
			obTypeTables(c, "C17.3")
			ob4 := c.R.Ob("C17.4", "sibling/send-all", "every Source kind the send-all traversal can reject has a diagnostic on the checker's arm for that kind, conditional on the send-all flag", 2)
			c.SendAllRejectionsDiagnosed(ob4)
			ob6 := c.R.Ob("C17.6", "ctrl/origin-order", "a declaration's origin is checked before the variable is declared (the interpreter evaluates it before binding)", 1)
			c.OriginBeforeDeclaration(ob6)
			ob7 := c.R.Ob("C17.7", "ctrl/send-all-uncond", "the send-all error for an unbounded overdraft does not depend on the kind of the address expression", 1)
			c.OverdraftDiagnosticUnconditional(ob7)
			ob8 := c.R.Ob("C17.8", "sibling/inferred-type", "the type the checker infers for a variable is its declared type (what the interpreter reads it as), or 'unknown'", 1)
			c.InferredVariableTypeIsDeclared(ob8)
			ob9 := c.R.Ob("C17.9", "typestate/save-restore", "scoped overrides of the checker's send-all state restore the value read on entry (a leaked setting hides a send-all shape error)", 1)
			c.SaveRestoreClosures(ob9)
			ob11 := c.R.Ob("C17.11", "typestate/per-statement", "the per-statement fields of the check state (send-all flag, emptied accounts, unbounded account met) are assigned for the statement at hand before anything reads them", 1)
			c.PerStatementStateAssignedBeforeRead(ob11, relAnalysis, "CheckResult")
			ob10 := c.R.Ob("C17.10", "ctrl/world-diag", "a diagnostic about an @world overdraft address does not depend on the overdraft being bounded", 1)
			c.WorldDiagnosticUnconditional(ob10)
			ob5 := c.R.Ob("C17.5", "ctrl/severity", "the diagnostics for undeclared variable, unknown function, wrong arity, invalid type and type mismatch have error severity", 5)
			c.SeverityIs(ob5, map[string]string{"UnboundVariable": "ErrorSeverity", "UnknownFunction": "ErrorSeverity", "BadArity": "ErrorSeverity", "InvalidType": "ErrorSeverity", "TypeMismatch": "ErrorSeverity", "DuplicateVariable": "ErrorSeverity", "Parsing": "ErrorSeverity", "InvalidUnboundedAccount": "ErrorSeverity"})
		},
	}
	Registry["C16"] = &Spec{
		Explanation: "Decides structural necessary conditions of 'the checker never cries wolf and is exact about variable names': (1) at every AST position typed by both sides the checker requires only types the interpreter accepts (tables extracted from the code, see C17); (2) the send-all diagnostic for an overdraft source is emitted only when the overdraft is unbounded, which is exactly when the interpreter rejects it; (3) name bookkeeping in the variable arm of the expression checker: the unbound diagnostic is created only on the lookup-miss edge, for the name and range of the node at hand; the resolution is recorded only on the hit edge under that node; the name leaves the unused set on both edges; duplicates are reported only on the already-declared edge, otherwise the declaration enters both the declared and the unused set; unused diagnostics are produced after all declarations and statements were traversed; (4) every expression child of every node is handed to the expression checker (S2); (5) the per-statement fields of the check state (send-all flag, emptied accounts, unbounded account met) are assigned for the statement at hand, on every path, before anything reads them - so nothing a previous statement left behind decides a diagnostic.",
		NotDecided:  []string{"that every statically valid script is accepted (needs the checker's semantics, not its shape)", "exactly-once reporting as a count", "literal allotment sum diagnostics beyond their construction guard"},
		Assumptions: []string{A1, A4},
		Run: func(c *rules.Ctx) {
			ob := c.R.Ob("C16.1", "sibling/typing", "the checker is never stricter than the interpreter at any position both type", 12)
			t := c.BuildTables(ob)
			c.CheckerNotStricter(ob, t)
			ob2 := c.R.Ob("C16.2", "ctrl/send-all", "the send-all error for an overdraft source is conditional on the overdraft being unbounded", 1)
			c.OverdraftSendAllConditional(ob2)
			ob3 := c.R.Ob("C16.3", "ctrl/names", "variable-name diagnostics and resolutions sit on the right edges of the declaration lookup", 4)
			c.NameBookkeeping(ob3)
			ob5 := c.R.Ob("C16.5", "typestate/save-restore", "scoped overrides of the checker's send-all / emptied-account state restore, on exit, the value read on entry", 1)
			c.SaveRestoreClosures(ob5)
			ob4 := c.R.Ob("C16.4", "sumcheck/S2", "every expression child of every node kind is handed to the expression checker", 15)
			c.S2(ob4, famCheck)
			ob8 := c.R.Ob("C16.8", "sibling/inferred-type", "the type inferred for a variable is its declared type and for an infix expression the type of its left operand (what the interpreter computes)", 2)
			c.InferredVariableTypeIsDeclared(ob8)
			ob6 := c.R.Ob("C16.6", "typestate/scoped", "a field of the check state overwritten inside the recursive traversals is one that the save/restore helpers put back (nested nodes do not wipe what the enclosing node collected)", 2)
			c.RecursiveStateScoped(ob6, relAnalysis, "CheckResult")
			ob9 := c.R.Ob("C16.9", "typestate/per-statement", "the per-statement fields of the check state (send-all flag, emptied accounts, unbounded account met) are assigned for the statement at hand before anything reads them", 1)
			c.PerStatementStateAssignedBeforeRead(ob9, relAnalysis, "CheckResult")
			ob7 := c.R.Ob("C16.7", "sibling/typing-visits", "every expression position the interpreter evaluates is visited by the checker (a use inside an unvisited operand is neither resolved nor marked used)", 12)
			c.CheckerNotWeaker(ob7, t)
		},
	}
}
