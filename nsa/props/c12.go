package props

import (
	"go/types"

	"nsa/core"
	"nsa/rules"

	"golang.org/x/tools/go/ssa"
)

// methodsNamed returns the SSA functions of every method with one of the given names on
// the named types of a package that implement iface.
func methodsImplementing(c *rules.Ctx, rel string, iface *types.Interface, names ...string) []*ssa.Function {
	var out []*ssa.Function
	pkg := c.P.Pkg(rel)
	if pkg == nil || iface == nil {
		return nil
	}
	scope := pkg.Types.Scope()
	for _, n := range scope.Names() {
		tn, ok := scope.Lookup(n).(*types.TypeName)
		if !ok || tn.IsAlias() {
			continue
		}
		nt, ok := tn.Type().(*types.Named)
		if !ok {
			continue
		}
		if _, isI := nt.Underlying().(*types.Interface); isI {
			continue
		}
		if !types.Implements(nt, iface) && !types.Implements(types.NewPointer(nt), iface) {
			continue
		}
		for i := 0; i < nt.NumMethods(); i++ {
			for _, want := range names {
				if nt.Method(i).Name() == want {
					if f := c.P.SSAFunc(nt.Method(i)); f != nil {
						out = append(out, f)
					}
				}
			}
		}
	}
	return out
}

func runRoots(c *rules.Ctx, ob *core.Obligation) []*ssa.Function {
	roots := []*ssa.Function{
		c.Fn(ob, relInterp, "RunProgram"),
		c.Fn(ob, "", "ParseResult.Run"),
		c.Fn(ob, "", "ParseResult.RunWithFeatureFlags"),
	}
	if ie := c.P.Named(relInterp, "InterpreterError"); ie != nil {
		if it, ok := ie.Underlying().(*types.Interface); ok {
			roots = append(roots, methodsImplementing(c, relInterp, it, "Error")...)
		}
	}
	return roots
}

const allotReason = "makeAllotment returns one share per allotment item: the shares slice is made with the length of the portions slice, which receives exactly one element per item on every arm of the exhaustive AllotmentValue switch; callers index it with the index of the same items"

var runExceptions = map[string]rules.PanicException{
	"panic:internal/interpreter.expectOneOf$1:explicit": {
		Reason: "every call of expectOneOf passes at least one combinator", Side: rules.SideVariadicNonEmpty(relInterp, "expectOneOf")},
}

func obPanicRun(c *rules.Ctx, id string) {
	ob := c.R.Ob(id, "panicscan", "every may-panic site reachable from RunProgram / Run / the error renderers is discharged by a guard or a justified exception", 15)
	c.PanicScan(ob, "run-entry", runRoots(c, ob), runExceptions)
}

var errRels = map[string]bool{relInterp: true, "": true}

var errExempt = map[string]string{}

func obErrNotDropped(c *rules.Ctx, id string) {
	ob := c.R.Ob(id, "errflow/E1", "no error returned by a call on the run path is dropped: it is returned, or tested with the failure edge returning it (possibly wrapped), or accumulated", 25)
	c.ErrNotDropped(ob, errRels, errExempt)
}

func obErrImpliesZero(c *rules.Ctx, id string) {
	ob := c.R.Ob(id, "errflow/E2", "a return with a possibly non-nil error carries only zero values in its other results", 20)
	c.ErrImpliesZero(ob, errRels)
}

func init() {
	Registry["C12"] = &Spec{
		Explanation: "Decides structural necessary conditions of 'execution never panics and fails atomically with a typed error': (1) an inventory of every may-panic construct (explicit panic, never-returning helper, index/slice, unchecked type assertion, integer and big-number division, negative make/repeat) in every hand-written function reachable from RunProgram, Run, RunWithFeatureFlags and the Error() renderers; each site is discharged mechanically - exhaustive closed-sum switch, bounds implied by the path condition (difference constraints), divisor proved non-zero on every path - or by a named exception with a side condition recomputed on every run; (2) every type switch over a closed sum on the run path is exhaustive; (3) no error result of a call is dropped: it is returned, or tested with the failure edge leading only to returns of that error (possibly wrapped in a literal, as for store errors), or accumulated in an error field; (4) a return with a possibly non-nil error carries only zero values in the other results, up to RunWithFeatureFlags.",
		NotDecided:  []string{"that the error names the actual cause", "behaviour on a program value that did not come from an error-free parse (assumption A1)", "panics inside math/big, regexp or the ANTLR runtime on their documented domains", "nil dereferences of grammar-mandatory children (assumption A1)"},
		Assumptions: []string{A1, A3, A4},
		Run: func(c *rules.Ctx) {
			obPanicRun(c, "C12.1")
			ob2 := c.R.Ob("C12.2", "sumcheck/S1", "every type switch over a closed sum on the run path is exhaustive (a panicking default is unreachable, no kind silently ignored)", 6)
			c.S1(ob2, selPkgs(map[string]bool{relInterp: true}, nil, relInterp))
			ob1b := c.R.Ob("C12.1b", "ctrl/one-per-item", "the allotment function produces exactly one portion per item on every non-error path (callers index the shares by item)", 3)
			c.OneElementPerIteration(ob1b, relInterp, "(*programState).makeAllotment")
			obErrNotDropped(c, "C12.3a")
			obErrImpliesZero(c, "C12.3b")
			ob3c := c.R.Ob("C12.3c", "errflow/store-first", "the answer of a Store call is used only where its error was tested to be nil", 2)
			c.StoreErrorCheckedFirst(ob3c, c.P.Named(relInterp, "Store"))
		},
	}
}
