package props

import (
	"nsa/core"
	"nsa/rules"

	"golang.org/x/tools/go/ssa"
)

func drawFns(c *rules.Ctx, ob *core.Obligation) (fixed, all, recv, allAcct *ssa.Function) {
	ir := c.IRoles(ob)
	if ir == nil {
		return nil, nil, nil, nil
	}
	return ir.FixedDraw, ir.SendAll, ir.Receive, ir.SendAllAccount
}

func obBalanceOrigin(c *rules.Ctx, id string, r *rules.Roles) {
	ob := c.R.Ob(id, "origin/balance", "every amount queued as a sender by a draw helper is bounded by balance(account)+grant of the account debited, or taken under the unbounded gate", 2)
	c.BalanceBoundsDraws(ob, r)
}

func obPending(c *rules.Ctx, id string, r *rules.Roles) {
	ob := c.R.Ob(id, "ctrl/pending", "the balance that bounds a draw accounts for what the current statement already drew from the account", 2)
	c.ReaderSeesPending(ob, r)
}

func obApplyPostings(c *rules.Ctx, id string, r *rules.Roles) {
	ob := c.R.Ob(id, "ctrl/apply-postings", "every posting of a statement is applied to the cached balances (source -, destination +, posting's asset) before the statement returns", 1)
	c.PostingsAppliedToCache(ob, r)
}

func obGate(c *rules.Ctx, id string, r *rules.Roles) {
	ob := c.R.Ob(id, "ctrl/gate", "the unbounded gate is opened only by @world and `allowing unbounded overdraft`; send-all rejects both before pushing", 5)
	ir := c.IRoles(ob)
	if ir == nil {
		return
	}
	pre, batch := ir.Prefetch, ir.Batch
	fixed, all, _, allAcct := drawFns(c, ob)
	c.PrefetchAgreesWithDraw(ob, pre, batch, []*ssa.Function{fixed, all}, balanceReaders(c))
	c.SendAllGate(ob, r, allAcct)
}

func init() {
	Registry["C01"] = &Spec{
		Explanation: "Decides structural necessary conditions of 'no unauthorized overdraft': (1) at every sender push made by a draw helper, each alternative of the amount is either taken under the unbounded gate (grant == nil) or is bounded - through a verified minimum - by balance(account)+grant where the balance is read for the very account being debited; (2) the grant that reaches the helpers is nil only for `allowing unbounded overdraft` (Bounded == nil) - a plain account passes a non-nil zero - and the helper turns it to nil only for the account 'world'; send-all rejects world and nil grants before pushing; (3) the balance used to bound a draw subtracts what the statement already drew from that account (pending senders), so an account named twice cannot be drawn twice; (4) every posting is applied to the cache before the statement returns, so later statements see it; (5) save only lowers a balance (C08); (6) balance+grant is clamped at zero before it can be pushed (sign rule, C02).",
		NotDecided:  []string{"the universally quantified bound itself: that the arithmetic on balances is right beyond these dependences (e.g. the grant compared against the right total across statements)", "accounts aliased through variables evaluate to equal names (string equality at run time)"},
		Assumptions: []string{A1, A3, A4},
		Run: func(c *rules.Ctx) {
			ob0 := c.R.Ob("C01.0", "roles", "the interpreter's money roles (push functions, cache, pending lists) are found in the code", 1)
			r := c.Roles(ob0)
			if r != nil {
				ob0.Pass("roles", "-", "senders pushed by "+r.PushSender.Fn.Name()+", receivers by "+r.PushReceiver.Fn.Name())
			}
			obBalanceOrigin(c, "C01.1", r)
			obGate(c, "C01.2", r)
			obPending(c, "C01.3", r)
			obPendingScan(c, "C01.3b", r)
			obReaderUnaltered(c, "C01.3c", r)
			obCacheOwners(c, "C01.3d", r)
			obClampGrant(c, "C01.3e", r)
			obPushBack(c, "C01.7", r)
			obApplyPostings(c, "C01.4", r)
			obCacheMergeOnly(c, "C01.8")
			obSaveMonotone(c, "C01.5", r)
			obSign(c, "C01.6")
		},
	}
}
