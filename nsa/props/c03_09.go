package props

import (
	"nsa/rules"

	"golang.org/x/tools/go/ssa"
)

func obRunSwitches(c *rules.Ctx, id string) {
	ob := c.R.Ob(id, "sumcheck/S1", "every type switch over a closed AST sum on the run path handles every node kind", 8)
	c.S1(ob, selPkgs(map[string]bool{relInterp: true}, nil, relInterp))
}

func obRunChildren(c *rules.Ctx, id string) {
	ob := c.R.Ob(id, "sumcheck/S2", "each draw / receive / evaluation clause descends into every child field of its node kind", 10)
	c.S2(ob, famRun)
}

func obCaps(c *rules.Ctx, id string) {
	ob := c.R.Ob(id, "cmpselect/caps", "below a max node the amount handed on is min(incoming, cap) (the cap itself in send-all); each ordered-destination clause gets min(cap, remaining); the min helper is a minimum", 3)
	fixed, all, recv, _ := drawFns(c, ob)
	c.CapRules(ob, fixed, all, recv)
	mn := c.Fn(ob, relUtils, "MinBigInt")
	if mn != nil {
		if ok, why := c.IsMinSelect(mn); ok {
			ob.Pass("min:internal/utils.MinBigInt", c.P.Pos(mn.Pos()), "returns a parameter only where a comparison shows it is the smaller or equal one")
		} else {
			ob.Fail("min:internal/utils.MinBigInt", c.P.Pos(mn.Pos()), "MinBigInt is not a minimum: "+why)
		}
	}
}

func init() {
	Registry["C03"] = &Spec{
		Explanation: "Decides structural necessary conditions of 'a fixed-amount send moves exactly that amount or the whole script fails': (1) the exact-draw function returns success only on the edge of a comparison between the amount actually drawn (the result of the draw traversal) and the amount requested (its own parameter, the one it passed to the traversal) that excludes 'less', and builds the insufficient-funds error otherwise; (2) the destination traversal receives the very amount that was requested from the exact draw (fixed mode) or the result of the send-all draw; (3) an allotment source draws each share with the exact function (S2 + the draw traversal's allotment arm); (4) no error is dropped and an error is always accompanied by zero results up to RunWithFeatureFlags; (5) negative amounts are rejected by a strict comparison, so a send of 0 is accepted; (6) where a draw function may hand back the very number it was given, the caller does not read that result after rewriting the number in place.",
		NotDecided:  []string{"'fails only when the funds are missing' (no spurious failure) and 'never more than n': both are the arithmetic contract of the draw family", "that the reconciler preserves totals (an identity over two integer sequences)"},
		Assumptions: []string{A1, A3, A4},
		Run: func(c *rules.Ctx) {
			ob1 := c.R.Ob("C03.1", "ctrl/exactness", "the exact draw succeeds only when the amount drawn is not less than the amount requested", 1)
			c.ExactnessTest(ob1, "MissingFundsErr")
			ob2 := c.R.Ob("C03.2", "origin/same-amount", "the destination receives the amount that was drawn", 1)
			c.SameAmountBothSides(ob2)
			obRunChildren(c, "C03.3")
			obErrNotDropped(c, "C03.4a")
			obErrImpliesZero(c, "C03.4b")
			obEvalReadOnly(c, "C03.6")
			ob7 := c.R.Ob("C03.7", "ctrl/clamp-self", "an amount is clamped to zero only under a sign test of that very amount (no spurious 'gives nothing')", 2)
			c.ClampTestsItself(ob7, relInterp)
			obSign(c, "C03.8")
			ob0 := c.R.Ob("C03.0", "roles", "the interpreter's money roles are found in the code", 0)
			r03 := c.Roles(ob0)
			obApplyPostings(c, "C03.9", r03)
			obGate(c, "C03.10", r03)
			ob5 := c.R.Ob("C03.5", "ctrl/negative", "only strictly negative amounts are rejected: a send of 0 goes through", 2)
			c.NegativeTestStrict(ob5, "NegativeAmountErr")
			ob11 := c.R.Ob("C03.11", "effects/returned-arg", "a draw result that may be the very number passed in is not read after that number is rewritten in place", 1)
			c.ReturnedArgumentNotRewritten(ob11, relInterp, relUtils)
		},
	}
	Registry["C04"] = &Spec{
		Explanation: "Decides structural necessary conditions of 'sources are drawn in declared order, each to its limit': (1) both draw traversals are exhaustive over the Source kinds and descend into every child, ranging over the Sources / Items fields themselves; (2) below a max node the fixed-amount traversal hands on min(needed, cap) computed by a helper verified to be a minimum, and send-all switches to the bounded traversal with the cap as amount; caps are clamped at zero (sign rule); (3) a drawn amount is bounded by balance+grant of the account debited, pending draws included, or taken under the unbounded gate, which only @world / unbounded overdraft open (shared with C01); (4) send-all rejects allotment, world and unbounded sources unless below a cap.",
		NotDecided:  []string{"greedy optimality as arithmetic; off-by-one inside big-integer expressions", "that the running remainder is threaded correctly through the in-order loop (C04.2 of the design: a loop-shape rule dropped as brittle)"},
		Assumptions: []string{A1, A3, A4},
		Run: func(c *rules.Ctx) {
			obRunSwitches(c, "C04.1a")
			obRunChildren(c, "C04.1b")
			obCaps(c, "C04.3")
			ob0 := c.R.Ob("C04.0", "roles", "the interpreter's money roles are found in the code", 0)
			r := c.Roles(ob0)
			obBalanceOrigin(c, "C04.5a", r)
			obGate(c, "C04.5b", r)
			obPending(c, "C04.5c", r)
			obPendingScan(c, "C04.5d", r)
			obReaderUnaltered(c, "C04.5e", r)
			obCacheOwners(c, "C04.5f", r)
			obClampGrant(c, "C04.5g", r)
			ob5h := c.R.Ob("C04.5h", "ctrl/world-by-name", "a draw helper recognises @world on the evaluated account name (the one it queues as sender), not on the syntax of the expression", 1)
			c.WorldRecognisedByName(ob5h, r)
			obSign(c, "C04.6")
			ob7 := c.R.Ob("C04.7", "ctrl/clamp-self", "an amount is clamped to zero only under a sign test of that very amount", 2)
			c.ClampTestsItself(ob7, relInterp)
		},
	}
	Registry["C05"] = &Spec{
		Explanation: "Decides structural necessary conditions of 'destinations are filled in order up to their caps': (1) the receive traversals are exhaustive over Destination / KeptOrDestination kinds and descend into every child (clauses, caps, remaining, allotment items); (2) each ordered clause receives the verified minimum of its cap and what is left; (3) destination caps and allotment shares cannot be negative when they reach a receiver push (sign rule: a negative cap is clamped, portions are within [0,1], 'remaining' is only computed when the other portions do not exceed one); (4) the kept marker is queued only for `kept` targets and a destination account is never replaced by a constant.",
		NotDecided:  []string{"the conservation identity credited + kept = sent as arithmetic", "that the remaining accumulator is decreased by exactly what each clause received (loop-shape rule dropped as brittle)"},
		Assumptions: []string{A1, A3, A4},
		Run: func(c *rules.Ctx) {
			obRunSwitches(c, "C05.1a")
			obRunChildren(c, "C05.1b")
			obCaps(c, "C05.3")
			obSign(c, "C05.2")
			ob0 := c.R.Ob("C05.0", "roles", "the interpreter's money roles are found in the code", 0)
			r := c.Roles(ob0)
			obEvalReadOnly(c, "C05.5")
			obPushBack(c, "C05.6", r)
			ob4 := c.R.Ob("C05.4", "ctrl/kept", "kept targets, and only they, are queued under the kept marker", 2)
			c.KeptOnlyForKept(ob4, r, keptMarker(c))
			obDescend(c, "C05.8")
			ob9 := c.R.Ob("C05.9", "effects/consumed", "an amount handed to a function that rewrites it in place is not used afterwards by the caller", 1)
			c.ConsumedArgumentsDead(ob9, relInterp)
			ob7 := c.R.Ob("C05.7", "ctrl/ordered-stop", "the loop over the clauses of an ordered destination is left early only when nothing is left to distribute", 1)
			_, _, recv, _ := drawFns(c, ob7)
			c.OrderedDestinationStopsOnlyWhenEmpty(ob7, recv)
		},
	}
	Registry["C06"] = &Spec{
		Explanation: "Decides structural necessary conditions of 'allotments split exactly': (1) the allotment function reaches a successful return only if the sum of the portions was compared equal to one, or - next to a `remaining` item - not greater than one (so the remaining portion 1 - sum is never negative); (2) portions are non-negative wherever they come from (digit-only literals, variable reader with a range test) and shares computed from them are non-negative when they reach a push (sign rule); (3) no division-like call with an unproved divisor is reachable (the portion literal 1/0 is an error, the floor division divides by Rat.Denom()); (4) portion text is read in base ten with exact scaling (C13); (5) the shares slice has one entry per item (panic-site side conditions of C12).",
		NotDecided:  []string{"floor-vs-ceil and the identity sum(shares) == amount as arithmetic", "that leftover units go to the earliest clauses (loop-shape rule dropped as brittle)"},
		Assumptions: []string{A1, A3, A4},
		Run: func(c *rules.Ctx) {
			ob1 := c.R.Ob("C06.1", "ctrl/sum-test", "shares are computed only after the sum of the portions was compared with one", 1)
			c.SumTest(ob1, "InvalidAllotmentSum")
			obSign(c, "C06.2")
			obPanicRun(c, "C06.3")
			ob5 := c.R.Ob("C06.5", "numtext/N1+N2", "portion text (literal and variable) is converted with explicit base ten, unbounded", 4)
			c.NumTextIn(ob5, textRels, map[string]string{"conv:internal/parser.parseNumberLiteral:strconv.Atoi": "integer literals are not portions (that site is finding D11 of C13/C14)"})
			ob7 := c.R.Ob("C06.6", "ctrl/validated", "every successful path through an allotment arm (source or destination) goes through the function that checks that the portions add up to one", 2)
			c.AllotmentValidatedBeforeSuccess(ob7)
			ob6 := c.R.Ob("C06.5b", "numtext/scale", "percentage readers scale by ten to the power 2 + number of fraction digits", 0)
			c.PercentScale(ob6, map[string]bool{relParser: true, relInterp: true})
		},
	}
	Registry["C07"] = &Spec{
		Explanation: "Decides the structural part of 'funds pair first-come-first-served; kept funds stay with the earliest sources': (1) every subtraction between a sender amount and a receiver amount in the reconciler - including the branch for kept funds - is ordered by a three-way comparison on that path, so a kept amount larger than the next sender spans several senders instead of producing a negative remainder; remainders pushed back are non-zero; (2) a posting is built from the sender and receiver popped in the same iteration (source <- sender's name, destination <- receiver's name, never the kept marker) and merged into the previous posting only under equality of both names; (3) both lists are consumed from the same end relative to push order.",
		NotDecided:  []string{"that the resulting flow matrix equals the in-order pairing: a statement about two integer sequences that needs execution or proof"},
		Assumptions: []string{A1, A3, A4},
		Run: func(c *rules.Ctx) {
			ob0 := c.R.Ob("C07.0", "roles", "the interpreter's money roles are found in the code", 0)
			r := c.Roles(ob0)
			obSign(c, "C07.1")
			ob1 := c.R.Ob("C07.1b", "ctrl/zero-filter", "remainders pushed back by the reconciler come from strictly ordered subtractions (never zero)", 2)
			c.ZeroFilter(ob1, r)
			ob2 := c.R.Ob("C07.2", "origin/posting", "postings are built from the popped pair; merged only when both names agree; the kept marker never reaches a posting", 4)
			c.PostingShape(ob2, r, keptMarker(c))
			c.ReconcilerShape(ob2, r)
			obPushBack(c, "C07.3", r)
			obDescend(c, "C07.4")
		},
	}
	Registry["C09"] = &Spec{
		Explanation: "Decides structural necessary conditions of 'statements compose sequentially': (1) every posting of a statement is applied to the cached balances (source -, destination +, same asset) by a loop over all of them before the statement returns; (2) the pending sender/receiver lists are reset at the start of every statement, before anything can push, and written nowhere else; the current asset is assigned by each statement before anything reads it; (3) transaction metadata and account metadata maps are created once and only updated key by key, never replaced; (4) balances are fetched once before the first statement runs and no fetch is reachable from the statement runners; the cache is merge-only; (5) save only lowers balances.",
		NotDecided:  []string{"the metamorphic equation run(S1..Sn) = run(S1..Sk); run(Sk+1..Sn) as such"},
		Assumptions: []string{A1, A3, A4},
		Run: func(c *rules.Ctx) {
			ob0 := c.R.Ob("C09.0", "roles", "the interpreter's money roles are found in the code", 0)
			r := c.Roles(ob0)
			obApplyPostings(c, "C09.1", r)
			ob2 := c.R.Ob("C09.2", "ctrl/reset", "pending lists are reset per statement before any push and have no other writer; the current asset is assigned before use", 4)
			var disp, fetch, onDemand *ssa.Function
			if ir := c.IRoles(ob2); ir != nil {
				disp, fetch, onDemand = ir.Dispatcher, ir.Fetch, ir.OnDemand
			}
			c.ResetBeforePush(ob2, r, disp)
			c.AssetAssignedBeforeUse(ob2, r)
			ob3 := c.R.Ob("C09.3", "effects/W3", "metadata maps are created once with a fresh map and never replaced", 2)
			c.WholeFieldOnlyFresh(ob3, relInterp, "programState", "TxMeta", map[string]bool{"internal/interpreter.RunProgram": true})
			c.WholeFieldOnlyFresh(ob3, relInterp, "programState", "SetAccountsMeta", map[string]bool{"internal/interpreter.RunProgram": true})
			ob4 := c.R.Ob("C09.4", "ctrl/fetch-once", "balances are fetched before the first statement and never while statements run", 2)
			c.NoFetchFromRunners(ob4, disp, c.P.Named(relInterp, "Store"), "GetBalances")
			run := c.Fn(ob4, relInterp, "RunProgram")
			c.CallOrder(ob4, "order:RunProgram:statements-after-fetch", run, reachesAvoiding(c, fetch, onDemand), reachesFn(c, disp), "statements run only after the balances were fetched")
			obFetchFirst(c, "C09.4d")
			obQueryComplete(c, "C09.4e")
			obCacheMergeOnly(c, "C09.4b")
			obBatchAlways(c, "C09.4c")
			obSaveMonotone(c, "C09.5", r)
			obEvalReadOnly(c, "C09.6")
		},
	}
}
