package props

import (
	"go/types"

	"nsa/core"
	"nsa/rules"

	"golang.org/x/tools/go/ssa"
)

// isBalanceMap: map[string]*big.Int or map[string]map[string]*big.Int (named or not).
func isBalanceMap(t types.Type) bool {
	m, ok := types.Unalias(t).Underlying().(*types.Map)
	if !ok {
		return false
	}
	if core.IsNamedType(m.Elem(), "math/big", "Int") {
		_, isPtr := types.Unalias(m.Elem()).(*types.Pointer)
		return isPtr
	}
	if inner, ok := types.Unalias(m.Elem()).Underlying().(*types.Map); ok {
		_, isPtr := types.Unalias(inner.Elem()).(*types.Pointer)
		return isPtr && core.IsNamedType(inner.Elem(), "math/big", "Int")
	}
	return false
}

// readsBalance: functions that (transitively, within the interpreter) look a balance up in the cache.
func balanceReaders(c *rules.Ctx) func(fn *ssa.Function) bool {
	f := c.P.Field(relInterp, "programState", "CachedBalances")
	direct := map[*ssa.Function]bool{}
	for _, fn := range c.P.ModuleFunctions() {
		for _, b := range fn.Blocks {
			for _, in := range b.Instrs {
				if u, ok := in.(*ssa.UnOp); ok && core.FieldOf(u.X) == f && f != nil {
					direct[fn] = true
				}
			}
		}
	}
	memo := map[*ssa.Function]int{}
	var reads func(fn *ssa.Function, d int) bool
	reads = func(fn *ssa.Function, d int) bool {
		if direct[fn] {
			return true
		}
		if d > 3 || fn.Blocks == nil || !c.P.InModule(fn) {
			return false
		}
		if v, ok := memo[fn]; ok {
			return v == 1
		}
		memo[fn] = 2
		for _, ci := range core.Calls(fn) {
			if sc := ci.Common().StaticCallee(); sc != nil && sc != fn && reads(sc, d+1) {
				memo[fn] = 1
				return true
			}
		}
		return false
	}
	return func(fn *ssa.Function) bool {
		// only the leaf readers (getCachedBalance / getAvailableBalance style helpers): functions
		// without a Source/Statement parameter
		for _, p := range fn.Params {
			if core.IsNamedType(p.Type(), core.ModPath+"/internal/parser", "Source") || core.IsNamedType(p.Type(), core.ModPath+"/internal/parser", "ValueExpr") {
				return false
			}
		}
		return reads(fn, 0)
	}
}

func obCacheMergeOnly(c *rules.Ctx, id string) {
	ob := c.R.Ob(id, "effects/W3", "the balance cache is initialised once with a fresh map and only ever extended entry by entry; a fetched entry never replaces a known one", 3)
	c.WholeFieldOnlyFresh(ob, relInterp, "programState", "CachedBalances", map[string]bool{"internal/interpreter.RunProgram": true})
	c.InsertIfAbsentOnly(ob, relInterp, isBalanceMap)
}

func obPrefetchAgreement(c *rules.Ctx, id string) {
	ob := c.R.Ob(id, "sumcheck/S4", "every balance the draw traversals can read was registered by the prefetch traversal (per Source kind, with matching conditions)", 5)
	ir := c.IRoles(ob)
	if ir == nil {
		return
	}
	c.PrefetchAgreesWithDraw(ob, ir.Prefetch, ir.Batch, []*ssa.Function{ir.FixedDraw, ir.SendAll}, balanceReaders(c))
}

func obWorldNeverQueried(c *rules.Ctx, id string) {
	ob := c.R.Ob(id, "effects/W4", "the pending balance query is written in one place only, never for the account 'world', and is what is handed to the store", 2)
	fns := c.MapFieldUpdatesGuarded(ob, relInterp, "programState", "CurrentBalanceQuery", func(fn *ssa.Function, mu *ssa.MapUpdate, l core.Lit) bool {
		return rules.StringNeqConst(l, "world", mu.Key)
	}, "account != \"world\"")
	if len(fns) > 1 {
		seen := map[*ssa.Function]bool{}
		for _, f := range fns {
			seen[f] = true
		}
		if len(seen) > 1 {
			ob.Fail("mapwrite:programState.CurrentBalanceQuery:writers", "-", "the pending query is written in more than one function")
		}
	}
	c.WholeFieldOnlyFresh(ob, relInterp, "programState", "CurrentBalanceQuery", nil)
}

func init() {
	Registry["C10"] = &Spec{
		Explanation: "Decides structural necessary conditions of 'results depend only on the balances asked for': (S2/S4) the prefetch traversal has an arm for every Source kind, descends into every sub-source and registers the account of every kind at which a draw traversal reads a balance; an arm may skip the registration only under '<kind>.<field> == nil' and then the draw traversals pass a nil grant exactly under that test and the account helper reads the balance only for a non-nil grant; (W3) the balance cache is created once from a fresh map, never assigned a foreign map, and every update of a balance map is an insertion guarded by a failed lookup of the same key (a learned value is never forgotten or overwritten); (W4) the pending query is written in one function, only under account != \"world\"; on-demand reads batch, fetch, then read, in that order; balance-map lookups are comma-ok (absent reads as zero through the default path).",
		NotDecided:  []string{"equality of results across store behaviours as such (a differential property over executions)", "accounts reached through variables evaluate to the same name in prefetch and draw (both call the same evaluator on the same expression: covered by S2 only structurally)"},
		Assumptions: []string{A1, A3, A4},
		Run: func(c *rules.Ctx) {
			ob := c.R.Ob("C10.1a", "sumcheck/S2", "the prefetch traversal descends into every Source-typed child and every account expression at which a balance is read", 5)
			c.S2(ob, famPrefetch)
			obs := c.R.Ob("C10.1c", "sumcheck/S1", "prefetch and draw switches are exhaustive over the Source and Statement kinds", 5)
			c.S1(obs, selPkgs(map[string]bool{relInterp: true}, nil, relInterp))
			obPrefetchAgreement(c, "C10.1b")
			ob2 := c.R.Ob("C10.2", "ctrl/order", "an on-demand balance read registers the query, then fetches, then reads; the run fetches once before the first statement", 2)
			ir := c.IRoles(ob2)
			if ir == nil {
				return
			}
			gb, batch, fetch := ir.OnDemand, ir.Batch, ir.Fetch
			rd := balanceReaders(c)
			// the fetch may be wrapped in a helper (error conversion)
			isFetch := func(f *ssa.Function) bool { return f == fetch || (f != gb && rules.ReachesWithin(f, fetch, 2)) }
			c.CallOrder(ob2, "order:getBalance:fetch-after-batch", gb, func(f *ssa.Function) bool { return f == batch }, isFetch, "the query is registered before the fetch")
			c.CallOrder(ob2, "order:getBalance:read-after-fetch", gb, isFetch, func(f *ssa.Function) bool { return !isFetch(f) && f != batch && rd(f) }, "the balance is read only after the fetch")
			run := c.Fn(ob2, relInterp, "RunProgram")
			runSt := ir.Dispatcher
			c.CallOrder(ob2, "order:RunProgram:statements-after-fetch", run, reachesAvoiding(c, fetch, gb), reachesFn(c, runSt), "statements run only after the balances were fetched")
			obFetchFirst(c, "C10.2b")
			obQueryComplete(c, "C10.2c")
			ob2e := c.R.Ob("C10.2e", "ctrl/query-filter", "an account enters the query sent to the store where one of its assets was found missing from the cache", 1)
			c.QueryFilterOnMiss(ob2e, ir.Fetch)
			ob2d := c.R.Ob("C10.2d", "ctrl/loop-complete", "the balance-collecting traversal leaves a loop over child nodes only when the list is exhausted or with an error", 1)
			c.TraversalLoopsComplete(ob2d, ir.Prefetch, ir.PrefetchStmt)
			obCacheMergeOnly(c, "C10.3")
			obBatchAlways(c, "C10.4b")
			obWorldNeverQueried(c, "C10.4")
			ob5 := c.R.Ob("C10.5", "ctrl/default-read", "balance maps are only read with the comma-ok form: an absent entry goes through the zero default, it is never dereferenced", 1)
			c.LookupsCommaOk(ob5, relInterp, isBalanceMap)
		},
	}
}
