// Package props composes rule instances into the claim made for each property.
package props

import "nsa/rules"

type Spec struct {
	Run         func(c *rules.Ctx)
	Explanation string
	NotDecided  []string
	Assumptions []string
}

var Registry = map[string]*Spec{}

const (
	relInterp   = "internal/interpreter"
	relParser   = "internal/parser"
	relAnalysis = "internal/analysis"
	relLsp      = "internal/lsp"
	relCmd      = "internal/cmd"
	relUtils    = "internal/utils"
)

// Assumptions shared by all properties (DESIGN.md section 6).
var (
	A1 = "A1: an error-free parse yields an AST in which every grammar-mandatory child is non-nil and every token text belongs to its lexer class (ANTLR runtime and generated code trusted)"
	A2 = "A2: ANTLR start/stop tokens of a rule context enclose those of its sub-contexts"
	A3 = "A3: math/big, regexp, strings, encoding/json, slices, x/exp/maps behave as documented; value copies of big.Int are not written through"
	A4 = "A4: the module is built without cgo/asm/unsafe/linkname and with the build configurations listed in coverage.configurations"
)
