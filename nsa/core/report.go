package core

import (
	"encoding/json"
	"fmt"
	"os"
	"path/filepath"
	"sort"
	"strings"
	"time"
)

// Verdict of one rule instance.
type Verdict string

const (
	OK        Verdict = "discharged"
	Violated  Verdict = "violated"
	Undecided Verdict = "undecided" // counts as violated
	Known     Verdict = "known-finding"
)

// Instance is one construct of /repo examined under one obligation.
type Instance struct {
	Obligation string  `json:"obligation"`
	Rule       string  `json:"rule"`
	Construct  string  `json:"construct"` // stable key: function / node / field, never a line number
	Pos        string  `json:"pos"`
	Verdict    Verdict `json:"verdict"`
	Why        string  `json:"why,omitempty"`
}

// Obligation groups instances and carries the vacuity floor.
type Obligation struct {
	ID        string     `json:"id"`
	Rule      string     `json:"rule"`
	Statement string     `json:"statement"`
	Floor     int        `json:"floor"` // minimal number of instances that must be found on /repo
	Instances []Instance `json:"instances"`
}

type Report struct {
	Property    string
	Tier        string
	Seed        int64
	Start       time.Time
	Obligations []*Obligation
	Notes       []string
	Functions   map[string]bool
	CallSites   int
	Configs     []string
	Assumptions []string
	NotDecided  []string
	Explanation string
	Trusted     []string
	Extra       map[string]any
}

func NewReport(prop, tier string, seed int64) *Report {
	return &Report{Property: prop, Tier: tier, Seed: seed, Start: time.Now(), Functions: map[string]bool{}, Extra: map[string]any{}}
}

func (r *Report) Ob(id, rule, statement string, floor int) *Obligation {
	for _, o := range r.Obligations {
		if o.ID == id {
			return o
		}
	}
	o := &Obligation{ID: id, Rule: rule, Statement: statement, Floor: floor}
	r.Obligations = append(r.Obligations, o)
	return o
}

func (o *Obligation) add(v Verdict, construct, pos, why string) {
	// one verdict per (construct); a violation wins over a discharge (several configs/instances)
	for i := range o.Instances {
		if o.Instances[i].Construct == construct {
			if o.Instances[i].Verdict == OK && v != OK {
				o.Instances[i].Verdict, o.Instances[i].Why, o.Instances[i].Pos = v, why, pos
			}
			return
		}
	}
	o.Instances = append(o.Instances, Instance{Obligation: o.ID, Rule: o.Rule, Construct: construct, Pos: pos, Verdict: v, Why: why})
}

func (o *Obligation) Pass(construct, pos, why string) { o.add(OK, construct, pos, why) }
func (o *Obligation) Fail(construct, pos, why string) { o.add(Violated, construct, pos, why) }
func (o *Obligation) Unknown(construct, pos, why string) {
	o.add(Undecided, construct, pos, why)
}
func (o *Obligation) Check(ok bool, construct, pos, whyOK, whyBad string) {
	if ok {
		o.Pass(construct, pos, whyOK)
	} else {
		o.Fail(construct, pos, whyBad)
	}
}

// KnownFindings is /verif/known_findings.json.
type KnownFindings struct {
	Findings []struct {
		ID         string   `json:"id"`
		Properties []string `json:"properties"`
		Constructs []string `json:"constructs"`
		What       string   `json:"what"`
		Input      string   `json:"input"`
	} `json:"findings"`
	Fixed []string `json:"fixed"`
}

func LoadKnown(path string) (*KnownFindings, error) {
	b, err := os.ReadFile(path)
	if err != nil {
		return nil, err
	}
	var k KnownFindings
	if err := json.Unmarshal(b, &k); err != nil {
		return nil, err
	}
	return &k, nil
}

// Finish applies vacuity floors and known findings, writes evidence (+ violation report)
// and returns the process exit code.
func (r *Report) Finish(verifDir string, known *KnownFindings) int {
	// vacuity: an obligation that matched fewer constructs than confirmed by hand fails
	for _, o := range r.Obligations {
		if len(o.Instances) < o.Floor {
			o.Unknown("vacuity:"+o.ID, "-", fmt.Sprintf("rule matched %d construct(s) in /repo, expected at least %d: anchor moved or rule no longer sees the code", len(o.Instances), o.Floor))
		}
	}
	var bad []Instance
	nInst, nOK, nKnown := 0, 0, 0
	distinct := map[string]bool{}
	for _, o := range r.Obligations {
		for i := range o.Instances {
			in := &o.Instances[i]
			nInst++
			distinct[in.Obligation+"|"+in.Construct] = true
			if in.Verdict == Violated || in.Verdict == Undecided {
				if known != nil {
					for _, k := range known.Findings {
						if contains(k.Properties, r.Property) && contains(k.Constructs, in.Construct) {
							in.Verdict = Known
							fmt.Printf("KNOWN-FINDING: property=%s %s [%s] %s\n", r.Property, k.ID, in.Construct, k.What)
						}
					}
				}
			}
			switch in.Verdict {
			case OK:
				nOK++
			case Known:
				nKnown++
			default:
				bad = append(bad, *in)
			}
		}
	}
	obl, dis := 0, 0
	for _, o := range r.Obligations {
		obl++
		ok := true
		for _, in := range o.Instances {
			if in.Verdict != OK {
				ok = false
			}
		}
		if ok {
			dis++
		}
	}
	var samples []any
	for _, o := range r.Obligations {
		s := map[string]any{"obligation": o.ID, "rule": o.Rule, "statement": o.Statement, "instances": len(o.Instances)}
		var ex []Instance
		for i, in := range o.Instances {
			if i < 6 || in.Verdict != OK {
				ex = append(ex, in)
			}
		}
		s["examples"] = ex
		samples = append(samples, s)
	}
	fns := make([]string, 0, len(r.Functions))
	for f := range r.Functions {
		fns = append(fns, f)
	}
	sort.Strings(fns)
	expl := r.Explanation
	if len(r.NotDecided) > 0 {
		expl += " NOT DECIDED by this check: " + strings.Join(r.NotDecided, "; ") + "."
	}
	cov := map[string]any{
		"explanation":         expl,
		"obligations":         obl,
		"discharged":          dis,
		"evaluations":         nInst,
		"distinct_nontrivial": len(distinct),
		"rule":                "one evaluation = one (obligation, construct of /repo) pair examined by a static rule; distinct = distinct pairs; all are non-trivial in the sense that the rule matched a real construct in the loaded program",
		"samples":             samples,
		"functions_analysed":  len(fns),
		"functions":           fns,
		"call_sites":          r.CallSites,
		"configurations":      r.Configs,
		"known_findings":      nKnown,
		"checker_cmd":         "bin/nscheck -prop " + r.Property + " -tier " + r.Tier,
		"trusted_base":        append([]string{"go/packages+go/types+go/ssa (x/tools v0.29.0)", "VTA call graph over CHA", "this checker's rule implementations (tested by fixtures and the seeded-mutant corpus)"}, r.Trusted...),
		"exhaustive":          false,
	}
	for k, v := range r.Extra {
		cov[k] = v
	}
	if r.Assumptions == nil {
		r.Assumptions = []string{}
	}
	if r.Configs == nil {
		r.Configs = []string{}
	}
	ev := map[string]any{
		"property_id": r.Property,
		"tier":        r.Tier,
		"seed":        r.Seed,
		"level":       "other",
		"coverage":    cov,
		"assumptions": r.Assumptions,
		"wall_s":      time.Since(r.Start).Seconds(),
		"violations":  len(bad),
	}
	_ = os.MkdirAll(filepath.Join(verifDir, "evidence", "violations"), 0o755)
	writeJSON(filepath.Join(verifDir, "evidence", r.Property+".json"), ev)
	vpath := filepath.Join(verifDir, "evidence", "violations", r.Property+".json")
	if len(bad) == 0 {
		os.Remove(vpath)
		fmt.Printf("OK property=%s tier=%s obligations=%d discharged=%d instances=%d known=%d functions=%d\n", r.Property, r.Tier, obl, dis, nInst, nKnown, len(fns))
		return 0
	}
	writeJSON(vpath, map[string]any{"property_id": r.Property, "tier": r.Tier, "violations": bad})
	for _, in := range bad {
		fmt.Printf("  %s %s [%s] %s at %s: %s\n", in.Verdict, in.Obligation, in.Rule, in.Construct, in.Pos, in.Why)
	}
	fmt.Printf("VIOLATION property=%s replay=%s\n", r.Property, vpath)
	return 1
}

func contains(xs []string, s string) bool {
	for _, x := range xs {
		if x == s {
			return true
		}
	}
	return false
}

func writeJSON(path string, v any) {
	b, err := json.MarshalIndent(v, "", " ")
	if err != nil {
		fmt.Fprintln(os.Stderr, "evidence marshal:", err)
		return
	}
	tmp := path + ".tmp"
	if err := os.WriteFile(tmp, b, 0o644); err == nil {
		os.Rename(tmp, path)
	}
}
