package core

import (
	"fmt"
	"go/token"
	"go/types"

	"golang.org/x/tools/go/ssa"
)

// Canon gives a structural key for an SSA value such that two loads of the same
// never-reassigned location (a parameter spilled to the stack, a field of it, a local
// assigned once) get the same key - go/ssa performs no CSE, so `r.Denominator` read twice
// is two different values. Values that cannot be canonicalised get a key unique to them.
func Canon(v ssa.Value) string { return canon(v, 0) }

func canon(v ssa.Value, d int) string {
	if d > 10 {
		return uniq(v)
	}
	switch x := v.(type) {
	case *ssa.Parameter:
		return "param:" + x.Name()
	case *ssa.FreeVar:
		return "free:" + x.Name()
	case *ssa.Const:
		return "const:" + x.String()
	case *ssa.Global:
		return "global:" + x.String()
	case *ssa.ChangeType:
		return canon(x.X, d+1)
	case *ssa.Convert:
		// int conversions keep identity for our purposes
		return canon(x.X, d+1)
	case *ssa.MakeInterface:
		return canon(x.X, d+1)
	case *ssa.ChangeInterface:
		return canon(x.X, d+1)
	case *ssa.TypeAssert:
		// the asserted value is the same value seen at another type
		if !x.CommaOk {
			return canon(x.X, d+1)
		}
	case *ssa.Extract:
		if ta, ok := x.Tuple.(*ssa.TypeAssert); ok && x.Index == 0 {
			return canon(ta.X, d+1)
		}
	case *ssa.Alloc:
		// a local stored exactly once (parameter spill / single assignment): the stored value
		if s := singleStore(x); s != nil {
			return "&(" + canon(s.Val, d+1) + ")"
		}
		return uniq(v)
	case *ssa.FieldAddr:
		f := FieldOf(x)
		name := fmt.Sprint(x.Field)
		if f != nil {
			name = f.Name()
		}
		return canon(x.X, d+1) + ".&" + name
	case *ssa.Field:
		f := FieldOf(x)
		name := fmt.Sprint(x.Field)
		if f != nil {
			name = f.Name()
		}
		return canon(x.X, d+1) + "." + name
	case *ssa.UnOp:
		if x.Op == token.MUL {
			// load: stable only if the address is stable and never stored to after init
			if al, ok := x.X.(*ssa.Alloc); ok {
				if s := singleStore(al); s != nil {
					return canon(s.Val, d+1)
				}
				return uniq(v)
			}
			if fa, ok := x.X.(*ssa.FieldAddr); ok && !fieldStored(fa) {
				return "*(" + canon(fa, d+1) + ")"
			}
			if p, ok := x.X.(*ssa.Parameter); ok && !storedBefore(p, x) {
				return "*(" + canon(p, d+1) + ")"
			}
			// a pointer obtained from a call (e.g. the *string an evaluator returns) that this
			// function only ever loads from: every load sees the same value
			switch x.X.(type) {
			case *ssa.Extract, *ssa.Call:
				if onlyLoaded(x.X) {
					return "*(" + uniq(x.X) + ")"
				}
			}
			return uniq(v)
		}
	case *ssa.Call:
		// len(x) is a function of x
		if b, ok := x.Call.Value.(*ssa.Builtin); ok && b.Name() == "len" {
			return "len(" + canon(x.Call.Args[0], d+1) + ")"
		}
	}
	return uniq(v)
}

func uniq(v ssa.Value) string {
	if v.Parent() != nil {
		return fmt.Sprintf("v:%s:%s@%d", v.Parent().Name(), v.Name(), v.Pos())
	}
	return fmt.Sprintf("v:%s@%d", v.Name(), v.Pos())
}

// singleStore returns the only store into a non-escaping local whose address is used only
// by loads, field addresses and that store.
func singleStore(al *ssa.Alloc) *ssa.Store {
	var st *ssa.Store
	if al.Referrers() == nil {
		return nil
	}
	for _, r := range *al.Referrers() {
		switch y := r.(type) {
		case *ssa.Store:
			if y.Addr != al {
				return nil // address stored somewhere: escapes
			}
			if st != nil {
				return nil
			}
			st = y
		case *ssa.UnOp, *ssa.FieldAddr, *ssa.DebugRef, *ssa.IndexAddr:
		case *ssa.Call:
			// passed as a pointer receiver/argument: may be written, unless it is a read-only use by
			// math/big (an operand that is not the receiver, or a receiver of a pure reader)
			if !bigReadOnlyUse(y, al) {
				return nil
			}
		default:
			return nil
		}
	}
	// no store through a field address either
	for _, r := range *al.Referrers() {
		if fa, ok := r.(*ssa.FieldAddr); ok && fieldAddrWritten(fa) {
			return nil
		}
	}
	return st
}

var bigReaders = map[string]bool{"Cmp": true, "CmpAbs": true, "Sign": true, "String": true, "Text": true, "IsInt": true,
	"IsInt64": true, "IsUint64": true, "Int64": true, "Uint64": true, "BitLen": true, "Float64": true, "FloatString": true, "RatString": true}

func bigReadOnlyUse(call *ssa.Call, v ssa.Value) bool {
	tn, m := BigMethod(&call.Call)
	if tn == "" {
		return false
	}
	args := CallArgs(&call.Call)
	for i, a := range args {
		if a == v && i == 0 && !bigReaders[m] {
			return false
		}
	}
	return true
}

func fieldAddrWritten(fa *ssa.FieldAddr) bool {
	if fa.Referrers() == nil {
		return false
	}
	for _, r := range *fa.Referrers() {
		switch y := r.(type) {
		case *ssa.Store:
			if y.Addr == fa {
				return true
			}
		case *ssa.FieldAddr:
			if fieldAddrWritten(y) {
				return true
			}
		case *ssa.Call:
			return true
		}
	}
	return false
}

// fieldStored: some instruction of the function stores to the same field of the same base.
func fieldStored(fa *ssa.FieldAddr) bool {
	fn := fa.Parent()
	if fn == nil {
		return true
	}
	key := canonBaseField(fa)
	for _, b := range fn.Blocks {
		for _, in := range b.Instrs {
			if st, ok := in.(*ssa.Store); ok {
				if o, ok := st.Addr.(*ssa.FieldAddr); ok && canonBaseField(o) == key {
					return true
				}
			}
		}
	}
	return false
}

func canonBaseField(fa *ssa.FieldAddr) string {
	return fmt.Sprintf("%s#%d", canon(fa.X, 5), fa.Field)
}

// onlyLoaded: every use of the pointer is a load (or a debug reference).
func onlyLoaded(p ssa.Value) bool {
	if p.Referrers() == nil {
		return true
	}
	for _, r := range *p.Referrers() {
		switch y := r.(type) {
		case *ssa.UnOp:
			if y.Op != token.MUL {
				return false
			}
		case *ssa.DebugRef:
		default:
			return false
		}
	}
	return true
}

// storedBefore: some store through the pointer parameter p can execute before the load
// (same block earlier, or in a block from which the load's block is reachable).
func storedBefore(p *ssa.Parameter, load *ssa.UnOp) bool {
	if p.Referrers() == nil {
		return false
	}
	for _, r := range *p.Referrers() {
		st, ok := r.(*ssa.Store)
		if !ok || st.Addr != p {
			if ci, ok := r.(ssa.CallInstruction); ok && ci != nil {
				// the pointer is handed to a call: it may be written there
				_ = ci
				if instrBefore(r, load) {
					return true
				}
			}
			continue
		}
		if instrBefore(st, load) {
			return true
		}
	}
	return false
}

// instrBefore: a can execute before b.
func instrBefore(a, b ssa.Instruction) bool {
	if a.Block() == b.Block() {
		for _, in := range a.Block().Instrs {
			if in == a {
				// a comes first in the block; or the block is in a loop
				return true
			}
			if in == b {
				break
			}
		}
		// a after b in the same block: only via a cycle
		for _, s := range a.Block().Succs {
			if ReachableAvoiding(s, a.Block(), nil) {
				return true
			}
		}
		return false
	}
	return ReachableAvoiding(a.Block(), b.Block(), nil)
}

// ---------- difference constraints ----------

// DiffSys is a set of constraints x - y <= k over named integer terms; "0" is the constant zero.
type DiffSys struct {
	edges map[string]map[string]int64 // edges[y][x] = k  meaning x - y <= k
}

func NewDiffSys() *DiffSys { return &DiffSys{edges: map[string]map[string]int64{}} }

func (d *DiffSys) Add(x, y string, k int64) { // x - y <= k
	if d.edges[y] == nil {
		d.edges[y] = map[string]int64{}
	}
	if old, ok := d.edges[y][x]; !ok || k < old {
		d.edges[y][x] = k
	}
	if d.edges[x] == nil {
		d.edges[x] = map[string]int64{}
	}
}

// Implies reports whether the system entails x - y <= k (shortest path from y to x <= k).
func (d *DiffSys) Implies(x, y string, k int64) bool {
	if x == y {
		return k >= 0
	}
	const inf = int64(1) << 60
	dist := map[string]int64{y: 0}
	nodes := len(d.edges) + 2
	for i := 0; i < nodes; i++ {
		changed := false
		for u, outs := range d.edges {
			du, ok := dist[u]
			if !ok {
				continue
			}
			for w, k2 := range outs {
				if dv, ok := dist[w]; !ok || du+k2 < dv {
					dist[w] = du + k2
					changed = true
				}
			}
		}
		if !changed {
			break
		}
	}
	dx, ok := dist[x]
	if !ok {
		dx = inf
	}
	return dx <= k
}

// Linear decomposes an integer SSA value into (term, offset): v == term + offset.
func Linear(v ssa.Value) (string, int64) {
	switch x := v.(type) {
	case *ssa.Const:
		if k, ok := ConstInt(x); ok {
			return "0", k
		}
	case *ssa.Convert:
		if isIntType(x.X.Type()) && isIntType(x.Type()) {
			return Linear(x.X)
		}
	case *ssa.BinOp:
		if x.Op == token.ADD {
			if k, ok := ConstInt(x.Y); ok {
				t, o := Linear(x.X)
				return t, o + k
			}
			if k, ok := ConstInt(x.X); ok {
				t, o := Linear(x.Y)
				return t, o + k
			}
		}
		if x.Op == token.SUB {
			if k, ok := ConstInt(x.Y); ok {
				t, o := Linear(x.X)
				return t, o - k
			}
		}
	}
	return Canon(v), 0
}

func isIntType(t types.Type) bool {
	b, ok := t.Underlying().(*types.Basic)
	return ok && b.Info()&types.IsInteger != 0
}

// AddIntLiteral adds the integer comparison literal (cond is true iff val) to the system;
// returns false when the literal is not an integer comparison.
func (d *DiffSys) AddIntLiteral(l Lit) bool {
	b, ok := l.Cond.(*ssa.BinOp)
	if !ok || !isIntType(b.X.Type()) {
		return false
	}
	op := b.Op
	if !l.Val {
		switch op {
		case token.LSS:
			op = token.GEQ
		case token.LEQ:
			op = token.GTR
		case token.GTR:
			op = token.LEQ
		case token.GEQ:
			op = token.LSS
		case token.EQL:
			op = token.NEQ
		case token.NEQ:
			op = token.EQL
		default:
			return false
		}
	}
	x, xo := Linear(b.X)
	y, yo := Linear(b.Y)
	// (x+xo) op (y+yo)
	switch op {
	case token.LSS: // x - y <= yo - xo - 1
		d.Add(x, y, yo-xo-1)
	case token.LEQ:
		d.Add(x, y, yo-xo)
	case token.GTR: // y - x <= xo - yo - 1
		d.Add(y, x, xo-yo-1)
	case token.GEQ:
		d.Add(y, x, xo-yo)
	case token.EQL:
		d.Add(x, y, yo-xo)
		d.Add(y, x, xo-yo)
	case token.NEQ:
		// only useful as "len != 0" => len >= 1, handled by the caller via NonZeroLen
		d.noteNE(x, xo, y, yo)
	default:
		return false
	}
	return true
}

// noteNE: t != c with t a length (>= 0) and c == 0 gives t >= 1.
func (d *DiffSys) noteNE(x string, xo int64, y string, yo int64) {
	if y == "0" && len(x) > 4 && x[:4] == "len(" && yo-xo == 0 {
		d.Add("0", x, -1) // 0 - x <= -1
	}
	if x == "0" && len(y) > 4 && y[:4] == "len(" && xo-yo == 0 {
		d.Add("0", y, -1)
	}
}
