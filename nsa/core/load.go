// Package core loads /repo's working tree (syntax, types, SSA, call graph) and offers the
// typed lookups the rules are written against. Nothing here executes numscript code.
package core

import (
	"fmt"
	"go/ast"
	"go/token"
	"go/types"
	"os"
	"path/filepath"
	"sort"
	"strings"

	"golang.org/x/tools/go/callgraph"
	"golang.org/x/tools/go/callgraph/cha"
	"golang.org/x/tools/go/callgraph/vta"
	"golang.org/x/tools/go/packages"
	"golang.org/x/tools/go/ssa"
	"golang.org/x/tools/go/ssa/ssautil"
)

const ModPath = "github.com/formancehq/numscript"

// Config selects the build configuration analysed.
type Config struct {
	Repo   string
	GOARCH string // "" = host
	Tags   string // "" = none
}

func (c Config) String() string {
	a := c.GOARCH
	if a == "" {
		a = "host"
	}
	t := c.Tags
	if t == "" {
		t = "-"
	}
	return "arch=" + a + ",tags=" + t
}

type Program struct {
	Cfg   Config
	Fset  *token.FileSet
	Pkgs  []*packages.Package // module packages only (sorted by path)
	All   []*packages.Package
	ByRel map[string]*packages.Package // "" (root), "internal/parser", ...
	SSA   *ssa.Program
	SSAOf map[*packages.Package]*ssa.Package

	cg       *callgraph.Graph
	declOf   map[*types.Func]*ast.FuncDecl
	fileOf   map[*ast.File]*packages.Package
	parents  map[ast.Node]ast.Node
	allFuncs map[*ssa.Function]bool
}

// Load type-checks every package of the module at cfg.Repo from its working tree and
// builds SSA (generics instantiated). Any load or type error is returned: an analysis
// that cannot see the code has not shown anything.
func Load(cfg Config) (*Program, error) {
	env := []string{}
	for _, kv := range os.Environ() {
		if strings.HasPrefix(kv, "GOWORK=") || strings.HasPrefix(kv, "GOFLAGS=") || strings.HasPrefix(kv, "GOARCH=") ||
			strings.HasPrefix(kv, "GOPROXY=") || strings.HasPrefix(kv, "GOSUMDB=") || strings.HasPrefix(kv, "GOTOOLCHAIN=") {
			continue
		}
		env = append(env, kv)
	}
	env = append(env, "GOWORK=off", "GOFLAGS=-mod=mod", "GOPROXY=off", "GOSUMDB=off", "GOTOOLCHAIN=local", "CGO_ENABLED=0")
	if cfg.GOARCH != "" {
		env = append(env, "GOARCH="+cfg.GOARCH)
	}
	pc := &packages.Config{
		Mode:  packages.LoadAllSyntax,
		Dir:   cfg.Repo,
		Env:   env,
		Tests: false,
	}
	if cfg.Tags != "" {
		pc.BuildFlags = []string{"-tags=" + cfg.Tags}
	}
	initial, err := packages.Load(pc, "./...")
	if err != nil {
		return nil, fmt.Errorf("packages.Load: %v", err)
	}
	if len(initial) == 0 {
		return nil, fmt.Errorf("no packages loaded from %s", cfg.Repo)
	}
	p := &Program{Cfg: cfg, ByRel: map[string]*packages.Package{}, SSAOf: map[*packages.Package]*ssa.Package{},
		declOf: map[*types.Func]*ast.FuncDecl{}, fileOf: map[*ast.File]*packages.Package{}}
	var errs []string
	packages.Visit(initial, nil, func(pkg *packages.Package) {
		p.All = append(p.All, pkg)
		for _, e := range pkg.Errors {
			errs = append(errs, pkg.PkgPath+": "+e.Error())
		}
		if pkg.PkgPath == ModPath || strings.HasPrefix(pkg.PkgPath, ModPath+"/") {
			p.Pkgs = append(p.Pkgs, pkg)
		}
	})
	if len(errs) > 0 {
		sort.Strings(errs)
		if len(errs) > 8 {
			errs = errs[:8]
		}
		return nil, fmt.Errorf("load/type errors: %s", strings.Join(errs, " | "))
	}
	if len(p.Pkgs) == 0 {
		return nil, fmt.Errorf("no package of module %s found under %s", ModPath, cfg.Repo)
	}
	sort.Slice(p.Pkgs, func(i, j int) bool { return p.Pkgs[i].PkgPath < p.Pkgs[j].PkgPath })
	p.Fset = initial[0].Fset
	for _, pkg := range p.Pkgs {
		rel := strings.TrimPrefix(strings.TrimPrefix(pkg.PkgPath, ModPath), "/")
		p.ByRel[rel] = pkg
		if pkg.TypesInfo == nil || len(pkg.Syntax) == 0 {
			return nil, fmt.Errorf("package %s loaded without syntax/types", pkg.PkgPath)
		}
		for _, f := range pkg.Syntax {
			p.fileOf[f] = pkg
			for _, d := range f.Decls {
				if fd, ok := d.(*ast.FuncDecl); ok {
					if obj, ok := pkg.TypesInfo.Defs[fd.Name].(*types.Func); ok {
						p.declOf[obj] = fd
					}
				}
			}
		}
	}
	prog, ssaPkgs := ssautil.AllPackages(initial, ssa.InstantiateGenerics|ssa.GlobalDebug)
	_ = ssaPkgs
	prog.Build()
	p.SSA = prog
	for _, pkg := range p.Pkgs {
		sp := prog.Package(pkg.Types)
		if sp == nil {
			return nil, fmt.Errorf("no SSA for %s", pkg.PkgPath)
		}
		p.SSAOf[pkg] = sp
	}
	return p, nil
}

// Rel returns the module-relative package path of a types.Package ("" for the root), ok=false if foreign.
func Rel(pkg *types.Package) (string, bool) {
	if pkg == nil {
		return "", false
	}
	if pkg.Path() == ModPath {
		return "", true
	}
	if strings.HasPrefix(pkg.Path(), ModPath+"/") {
		return strings.TrimPrefix(pkg.Path(), ModPath+"/"), true
	}
	return "", false
}

// IsGenerated: the ANTLR output and the LSP protocol bindings are traversed for
// reachability but never reported on.
func IsGeneratedRel(rel string) bool { return rel == "internal/parser/antlr" }

// InModule reports whether fn is hand-written module code.
func (p *Program) InModule(fn *ssa.Function) bool {
	if fn == nil {
		return false
	}
	pk := fn.Pkg
	if pk == nil {
		if o := fn.Origin(); o != nil {
			pk = o.Pkg
		}
	}
	if pk == nil && fn.Parent() != nil {
		return p.InModule(fn.Parent())
	}
	if pk == nil {
		return false
	}
	rel, ok := Rel(pk.Pkg)
	return ok && !IsGeneratedRel(rel)
}

func (p *Program) Pkg(rel string) *packages.Package { return p.ByRel[rel] }

// Pos renders a position relative to the repository root.
func (p *Program) Pos(pos token.Pos) string {
	if !pos.IsValid() {
		return "-"
	}
	ps := p.Fset.Position(pos)
	if r, err := filepath.Rel(p.Cfg.Repo, ps.Filename); err == nil {
		return fmt.Sprintf("%s:%d", r, ps.Line)
	}
	return fmt.Sprintf("%s:%d", ps.Filename, ps.Line)
}

// Decl returns the syntax of a module function.
func (p *Program) Decl(fn *types.Func) *ast.FuncDecl { return p.declOf[fn] }

// LookupFunc finds a package-level function or a method: name is "F" or "T.m" / "(*T).m".
func (p *Program) LookupFunc(rel, name string) *types.Func {
	pkg := p.ByRel[rel]
	if pkg == nil {
		return nil
	}
	name = strings.NewReplacer("(", "", ")", "", "*", "").Replace(name)
	if i := strings.Index(name, "."); i >= 0 {
		tn, _ := pkg.Types.Scope().Lookup(name[:i]).(*types.TypeName)
		if tn == nil {
			return nil
		}
		obj, _, _ := types.LookupFieldOrMethod(types.NewPointer(tn.Type()), true, pkg.Types, name[i+1:])
		f, _ := obj.(*types.Func)
		return f
	}
	f, _ := pkg.Types.Scope().Lookup(name).(*types.Func)
	return f
}

// SSAFunc returns the SSA function of a (non-generic) types.Func.
func (p *Program) SSAFunc(f *types.Func) *ssa.Function {
	if f == nil {
		return nil
	}
	return p.SSA.FuncValue(f)
}

// Instances returns fn itself, or all its instantiations if it is generic.
func (p *Program) Instances(fn *ssa.Function) []*ssa.Function {
	if fn == nil {
		return nil
	}
	if fn.TypeParams().Len() == 0 || len(fn.TypeArgs()) > 0 {
		return []*ssa.Function{fn}
	}
	var out []*ssa.Function
	for f := range p.AllFunctions() {
		if f.Origin() == fn {
			out = append(out, f)
		}
	}
	sort.Slice(out, func(i, j int) bool { return out[i].String() < out[j].String() })
	return out
}

func (p *Program) AllFunctions() map[*ssa.Function]bool {
	if p.allFuncs == nil {
		p.allFuncs = ssautil.AllFunctions(p.SSA)
	}
	return p.allFuncs
}

// ModuleFunctions lists every hand-written SSA function of the module (incl. closures,
// instantiations), sorted.
func (p *Program) ModuleFunctions() []*ssa.Function {
	var out []*ssa.Function
	for f := range p.AllFunctions() {
		if p.InModule(f) && f.Blocks != nil {
			out = append(out, f)
		}
	}
	sort.Slice(out, func(i, j int) bool {
		if out[i].Pos() != out[j].Pos() {
			return out[i].Pos() < out[j].Pos()
		}
		return out[i].String() < out[j].String()
	})
	return out
}

// CallGraph builds (once) the VTA call graph refined from CHA.
func (p *Program) CallGraph() *callgraph.Graph {
	if p.cg == nil {
		p.cg = vta.CallGraph(p.AllFunctions(), cha.CallGraph(p.SSA))
	}
	return p.cg
}

// Reachable returns the functions reachable from the roots in the call graph, with one
// witness predecessor each (for call-path reports).
func (p *Program) Reachable(roots ...*ssa.Function) map[*ssa.Function]*ssa.Function {
	cg := p.CallGraph()
	seen := map[*ssa.Function]*ssa.Function{}
	var work []*ssa.Function
	for _, r := range roots {
		if r != nil {
			if _, ok := seen[r]; !ok {
				seen[r] = nil
				work = append(work, r)
			}
		}
	}
	for len(work) > 0 {
		f := work[0]
		work = work[1:]
		n := cg.Nodes[f]
		if n == nil {
			continue
		}
		// closures created by f are considered reachable with f
		for _, an := range f.AnonFuncs {
			if _, ok := seen[an]; !ok {
				seen[an] = f
				work = append(work, an)
			}
		}
		for _, e := range n.Out {
			c := e.Callee.Func
			if _, ok := seen[c]; !ok {
				seen[c] = f
				work = append(work, c)
			}
		}
	}
	return seen
}

// Path renders the witness call path entry -> ... -> fn.
func Path(reach map[*ssa.Function]*ssa.Function, fn *ssa.Function) string {
	var parts []string
	for f := fn; f != nil; f = reach[f] {
		parts = append([]string{f.String()}, parts...)
		if len(parts) > 12 {
			break
		}
	}
	return strings.Join(parts, " -> ")
}

// Parent returns the syntactic parent of n (computed lazily for module files).
func (p *Program) Parent(n ast.Node) ast.Node {
	if p.parents == nil {
		p.parents = map[ast.Node]ast.Node{}
		for _, pkg := range p.Pkgs {
			for _, f := range pkg.Syntax {
				var stack []ast.Node
				ast.Inspect(f, func(n ast.Node) bool {
					if n == nil {
						stack = stack[:len(stack)-1]
						return true
					}
					if len(stack) > 0 {
						p.parents[n] = stack[len(stack)-1]
					}
					stack = append(stack, n)
					return true
				})
			}
		}
	}
	return p.parents[n]
}

// EnclosingFunc returns the FuncDecl containing n.
func (p *Program) EnclosingFunc(n ast.Node) *ast.FuncDecl {
	for ; n != nil; n = p.Parent(n) {
		if fd, ok := n.(*ast.FuncDecl); ok {
			return fd
		}
	}
	return nil
}

// Named looks up a named type of a module package.
func (p *Program) Named(rel, name string) *types.Named {
	pkg := p.ByRel[rel]
	if pkg == nil {
		return nil
	}
	tn, _ := pkg.Types.Scope().Lookup(name).(*types.TypeName)
	if tn == nil {
		// a private state struct that was renamed: recognise it by a field only it has
		want, ok := map[string]string{"programState": "[]Sender", "argsParser": "[]Value"}[name]
		if !ok {
			return nil
		}
		var found *types.Named
		for _, nm := range pkg.Types.Scope().Names() {
			t, ok := pkg.Types.Scope().Lookup(nm).(*types.TypeName)
			if !ok || t.Exported() {
				continue
			}
			nt, ok := t.Type().(*types.Named)
			if !ok {
				continue
			}
			st, ok := nt.Underlying().(*types.Struct)
			if !ok {
				continue
			}
			for i := 0; i < st.NumFields(); i++ {
				if types.TypeString(st.Field(i).Type(), func(*types.Package) string { return "" }) == want {
					if found != nil && found != nt {
						return nil // ambiguous
					}
					found = nt
				}
			}
		}
		return found
	}
	n, _ := tn.Type().(*types.Named)
	if n == nil {
		// alias
		n, _ = types.Unalias(tn.Type()).(*types.Named)
	}
	return n
}

// Field finds a field (possibly promoted) of a named struct type.
func (p *Program) Field(rel, typ, field string) *types.Var {
	n := p.Named(rel, typ)
	if n == nil {
		return nil
	}
	obj, _, _ := types.LookupFieldOrMethod(n, true, p.ByRel[rel].Types, field)
	if v, ok := obj.(*types.Var); ok {
		return v
	}
	return p.fieldByRole(n, typ, field)
}

// fieldRoles: private state fields that the rules refer to. When the field has been renamed,
// it is recognised by its type, which must then identify it uniquely within its struct
// (a rename is not an alarm; an ambiguous or missing field stays "not found").
var fieldRoles = map[string]string{
	"programState.Senders":             "[]Sender",
	"programState.Receivers":           "[]Receiver",
	"programState.CachedBalances":      "Balances",
	"programState.CurrentAsset":        "string",
	"programState.CurrentBalanceQuery": "BalanceQuery",
	"programState.CachedAccountsMeta":  "AccountsMetadata#cache",
	"programState.SetAccountsMeta":     "AccountsMetadata#result",
	"programState.TxMeta":              "map[string]Value#result",
	"CheckResult.unboundedSend":        "bool",
	"CheckResult.declaredVars":         "map[string]parser.VarDeclaration",
	"CheckResult.unusedVars":           "map[string]parser.Range",
	"CheckResult.varResolution":        "map[*parser.Variable]parser.VarDeclaration",
	"CheckResult.emptiedAccount":       "map[string]struct{}",
	"State.documents":                  "map[DocumentURI]InMemoryDocument",
	"argsParser.parsedArgsCount":       "int",
}

func (p *Program) fieldByRole(n *types.Named, typ, field string) *types.Var {
	want, ok := fieldRoles[typ+"."+field]
	if !ok {
		return nil
	}
	st, ok := n.Underlying().(*types.Struct)
	if !ok {
		return nil
	}
	role := ""
	if i := strings.Index(want, "#"); i >= 0 {
		want, role = want[:i], want[i+1:]
	}
	q := func(pk *types.Package) string {
		if pk == n.Obj().Pkg() {
			return ""
		}
		return pk.Name()
	}
	var cands []*types.Var
	for i := 0; i < st.NumFields(); i++ {
		if types.TypeString(st.Field(i).Type(), q) == want {
			cands = append(cands, st.Field(i))
		}
	}
	if role != "" {
		// several fields of that type: the one whose value is (not) handed to the execution result
		var inResult, others []*types.Var
		for _, f := range cands {
			if p.copiedIntoResult(f) {
				inResult = append(inResult, f)
			} else {
				others = append(others, f)
			}
		}
		if role == "result" {
			cands = inResult
		} else {
			cands = others
		}
	}
	if len(cands) == 1 {
		return cands[0]
	}
	return nil
}

// copiedIntoResult: a load of the field is stored into a field of ExecutionResult.
func (p *Program) copiedIntoResult(f *types.Var) bool {
	for _, fn := range p.ModuleFunctions() {
		for _, b := range fn.Blocks {
			for _, in := range b.Instrs {
				st, ok := in.(*ssa.Store)
				if !ok {
					continue
				}
				fa, ok := st.Addr.(*ssa.FieldAddr)
				if !ok {
					continue
				}
				pt, ok := fa.X.Type().Underlying().(*types.Pointer)
				if !ok {
					continue
				}
				nt, ok := types.Unalias(pt.Elem()).(*types.Named)
				if !ok || nt.Obj().Name() != "ExecutionResult" {
					continue
				}
				if ld, ok := st.Val.(*ssa.UnOp); ok {
					if fa2, ok := ld.X.(*ssa.FieldAddr); ok && FieldOf(fa2) == f {
						return true
					}
				}
			}
		}
	}
	return false
}

// Info returns the types.Info of the package containing the file position.
func (p *Program) InfoFor(pkg *packages.Package) *types.Info { return pkg.TypesInfo }

// FuncName gives a short stable name "rel.Recv.name" for constructs keys.
func FuncName(f *types.Func) string {
	if f == nil {
		return "?"
	}
	rel, _ := Rel(f.Pkg())
	if rel == "" {
		rel = "numscript"
	}
	sig := f.Type().(*types.Signature)
	if r := sig.Recv(); r != nil {
		t := r.Type()
		if pt, ok := t.(*types.Pointer); ok {
			t = pt.Elem()
		}
		if n, ok := t.(*types.Named); ok {
			return rel + "." + n.Obj().Name() + "." + f.Name()
		}
	}
	return rel + "." + f.Name()
}

// SSAName gives the same kind of key for an SSA function (closures get "$n", instances keep origin).
func SSAName(fn *ssa.Function) string {
	if fn == nil {
		return "?"
	}
	if fn.Parent() != nil {
		return SSAName(fn.Parent()) + "$" + strings.TrimPrefix(fn.Name(), fn.Parent().Name()+"$")
	}
	o := fn
	if fn.Origin() != nil {
		o = fn.Origin()
	}
	if obj, ok := o.Object().(*types.Func); ok {
		return FuncName(obj)
	}
	return fn.String()
}
