package core

import (
	"go/constant"
	"go/token"
	"go/types"
	"sort"
	"strings"

	"golang.org/x/tools/go/ssa"
)

// ---------- callee resolution ----------

// StaticCallee returns the statically known callee (function, method or closure), or nil.
func StaticCallee(c *ssa.CallCommon) *ssa.Function { return c.StaticCallee() }

// CalleeObj returns the types.Func called (static function/method or interface method).
func CalleeObj(c *ssa.CallCommon) *types.Func {
	if c.IsInvoke() {
		return c.Method
	}
	if f := c.StaticCallee(); f != nil {
		if o, ok := f.Object().(*types.Func); ok {
			return o
		}
		if f.Origin() != nil {
			if o, ok := f.Origin().Object().(*types.Func); ok {
				return o
			}
		}
	}
	return nil
}

// IsFunc reports whether obj is pkgPath.name (package-level function).
func IsFunc(obj *types.Func, pkgPath, name string) bool {
	if obj == nil || obj.Pkg() == nil {
		return false
	}
	sig := obj.Type().(*types.Signature)
	return sig.Recv() == nil && obj.Pkg().Path() == pkgPath && obj.Name() == name
}

// RecvNamed returns (pkgPath, typeName) of the receiver of a method, "" if none.
func RecvNamed(obj *types.Func) (string, string) {
	if obj == nil {
		return "", ""
	}
	sig, _ := obj.Type().(*types.Signature)
	if sig == nil || sig.Recv() == nil {
		return "", ""
	}
	t := sig.Recv().Type()
	if p, ok := t.(*types.Pointer); ok {
		t = p.Elem()
	}
	if n, ok := types.Unalias(t).(*types.Named); ok && n.Obj().Pkg() != nil {
		return n.Obj().Pkg().Path(), n.Obj().Name()
	}
	return "", ""
}

// IsMethod reports whether obj is method name of pkgPath.typ.
func IsMethod(obj *types.Func, pkgPath, typ, name string) bool {
	pp, tn := RecvNamed(obj)
	return pp == pkgPath && tn == typ && obj.Name() == name
}

// BigMethod returns ("Int"|"Rat"|"Float", method) if the call is a math/big method.
func BigMethod(c *ssa.CallCommon) (string, string) {
	obj := CalleeObj(c)
	pp, tn := RecvNamed(obj)
	if pp == "math/big" {
		return tn, obj.Name()
	}
	return "", ""
}

// CallArgs returns the arguments with the receiver first (for both call modes).
func CallArgs(c *ssa.CallCommon) []ssa.Value {
	if c.IsInvoke() {
		return append([]ssa.Value{c.Value}, c.Args...)
	}
	return c.Args
}

// IsNamedType reports whether t (after pointers/aliases) is pkgPath.name.
func IsNamedType(t types.Type, pkgPath, name string) bool {
	for {
		t = types.Unalias(t)
		if p, ok := t.(*types.Pointer); ok {
			t = p.Elem()
			continue
		}
		break
	}
	n, ok := t.(*types.Named)
	return ok && n.Obj().Pkg() != nil && n.Obj().Pkg().Path() == pkgPath && n.Obj().Name() == name
}

// ConstInt returns the integer value of an SSA constant.
func ConstInt(v ssa.Value) (int64, bool) {
	c, ok := v.(*ssa.Const)
	if !ok || c.Value == nil {
		return 0, false
	}
	if c.Value.Kind() != constant.Int {
		return 0, false
	}
	i, exact := constant.Int64Val(c.Value)
	return i, exact
}

func ConstString(v ssa.Value) (string, bool) {
	c, ok := v.(*ssa.Const)
	if !ok || c.Value == nil || c.Value.Kind() != constant.String {
		return "", false
	}
	return constant.StringVal(c.Value), true
}

func IsNilConst(v ssa.Value) bool {
	c, ok := v.(*ssa.Const)
	return ok && c.Value == nil
}

// Strip removes value-preserving wrappers (type changes, interface boxing of the same value).
func Strip(v ssa.Value) ssa.Value {
	for {
		switch x := v.(type) {
		case *ssa.ChangeType:
			v = x.X
		case *ssa.Convert:
			v = x.X
		case *ssa.ChangeInterface:
			v = x.X
		case *ssa.MakeInterface:
			v = x.X
		default:
			return v
		}
	}
}

// ---------- comparison decoding ----------

// Ord is a set of orderings between a and b: bit 1 = a<b, 2 = a==b, 4 = a>b.
type Ord uint8

const (
	LT  Ord = 1
	EQ  Ord = 2
	GT  Ord = 4
	LE      = LT | EQ
	GE      = GT | EQ
	NE      = LT | GT
	ANY     = LT | EQ | GT
)

func (r Ord) String() string {
	switch r {
	case LT:
		return "<"
	case EQ:
		return "=="
	case GT:
		return ">"
	case LE:
		return "<="
	case GE:
		return ">="
	case NE:
		return "!="
	case ANY:
		return "any"
	case 0:
		return "none"
	}
	return "?"
}

// Flip gives the relation with operands swapped.
func (r Ord) Flip() Ord {
	var o Ord
	if r&LT != 0 {
		o |= GT
	}
	if r&GT != 0 {
		o |= LT
	}
	if r&EQ != 0 {
		o |= EQ
	}
	return o
}

// Cmp3 describes a three-way comparison call: A.Cmp(B) (B!=nil) or A.Sign() (B==nil, i.e. zero).
type Cmp3 struct {
	Call *ssa.Call
	A, B ssa.Value
}

// AsCmp3 recognises x.Cmp(y) / x.Sign() on math/big Int and Rat.
func AsCmp3(v ssa.Value) *Cmp3 {
	c, ok := v.(*ssa.Call)
	if !ok {
		return nil
	}
	tn, m := BigMethod(&c.Call)
	if tn != "Int" && tn != "Rat" {
		return nil
	}
	args := CallArgs(&c.Call)
	switch m {
	case "Cmp":
		if len(args) == 2 {
			return &Cmp3{Call: c, A: args[0], B: args[1]}
		}
	case "Sign":
		if len(args) == 1 {
			return &Cmp3{Call: c, A: args[0]}
		}
	}
	return nil
}

// outcomesOf returns the mask of three-way outcomes o in {-1,0,1} with "o op k" true.
func outcomesOf(op token.Token, k int64) Ord {
	var m Ord
	for i, o := range []int64{-1, 0, 1} {
		var t bool
		switch op {
		case token.EQL:
			t = o == k
		case token.NEQ:
			t = o != k
		case token.LSS:
			t = o < k
		case token.LEQ:
			t = o <= k
		case token.GTR:
			t = o > k
		case token.GEQ:
			t = o >= k
		default:
			return ANY
		}
		if t {
			m |= Ord(1 << uint(i))
		}
	}
	return m
}

func swapOp(op token.Token) token.Token {
	switch op {
	case token.LSS:
		return token.GTR
	case token.LEQ:
		return token.GEQ
	case token.GTR:
		return token.LSS
	case token.GEQ:
		return token.LEQ
	}
	return op
}

// DecodeCond: if cond is "cmp3 op const" (either side), returns the comparison and the
// relation that holds when cond is true.
func DecodeCond(cond ssa.Value) (*Cmp3, Ord, bool) {
	switch b := cond.(type) {
	case *ssa.UnOp:
		if b.Op == token.NOT {
			c, r, ok := DecodeCond(b.X)
			if ok {
				return c, ANY &^ r, true
			}
		}
	case *ssa.BinOp:
		if k, ok := ConstInt(b.Y); ok {
			if c := AsCmp3(b.X); c != nil {
				return c, outcomesOf(b.Op, k), true
			}
		}
		if k, ok := ConstInt(b.X); ok {
			if c := AsCmp3(b.Y); c != nil {
				return c, outcomesOf(swapOp(b.Op), k), true
			}
		}
	}
	return nil, 0, false
}

// ---------- path conditions ----------

// Lit is a branch literal: Cond evaluated to Val.
type Lit struct {
	Cond ssa.Value
	Val  bool
}

// Term is a conjunction of literals; DNF a disjunction of terms.
type Term []Lit
type DNF []Term

// atom normalises a literal: `x == nil` and `x != nil` (two different SSA comparisons of
// canonically equal operands) are the same atom with opposite polarity.
func (l Lit) atom() (string, bool) {
	if bo, ok := l.Cond.(*ssa.BinOp); ok && (bo.Op == token.EQL || bo.Op == token.NEQ) {
		x, y := Canon(bo.X), Canon(bo.Y)
		if y < x {
			x, y = y, x
		}
		return "eq(" + x + "," + y + ")", (bo.Op == token.EQL) == l.Val
	}
	if un, ok := l.Cond.(*ssa.UnOp); ok && un.Op == token.NOT {
		k, pol := Lit{Cond: un.X, Val: !l.Val}.atom()
		return k, pol
	}
	return uniq(l.Cond), l.Val
}

func (t Term) has(l Lit) bool {
	k, p := l.atom()
	for _, x := range t {
		if x == l {
			return true
		}
		if xk, xp := x.atom(); xk == k && xp == p {
			return true
		}
	}
	return false
}

// PathConds computes, for every block, a DNF of branch literals that is a necessary
// condition for the block to execute (back edges ignored; widened to "true" beyond a cap).
type PathConds struct {
	fn   *ssa.Function
	dnf  map[*ssa.BasicBlock]DNF
	back map[[2]int]bool
}

const dnfCap = 64

func NewPathConds(fn *ssa.Function) *PathConds { return NewPathCondsAvoiding(fn, nil) }

// NewPathCondsAvoiding computes the path conditions of the sub-graph without the blocks in
// avoid: the condition under which a block is reached WITHOUT passing through any of them.
func NewPathCondsAvoiding(fn *ssa.Function, avoid map[*ssa.BasicBlock]bool) *PathConds {
	pc := &PathConds{fn: fn, dnf: map[*ssa.BasicBlock]DNF{}, back: map[[2]int]bool{}}
	if len(fn.Blocks) == 0 {
		return pc
	}
	// back edges: target dominates source
	for _, b := range fn.Blocks {
		for _, s := range b.Succs {
			if s.Dominates(b) {
				pc.back[[2]int{b.Index, s.Index}] = true
			}
		}
	}
	// reverse post-order over the acyclic graph
	order := rpo(fn, pc.back)
	for _, b := range order {
		if b == fn.Blocks[0] {
			pc.dnf[b] = DNF{Term{}}
			continue
		}
		if avoid[b] {
			continue
		}
		var acc DNF
		for _, p := range b.Preds {
			if pc.back[[2]int{p.Index, b.Index}] || avoid[p] {
				continue
			}
			pd, ok := pc.dnf[p]
			if !ok {
				continue // unreachable pred
			}
			var lit *Lit
			if iff, ok := p.Instrs[len(p.Instrs)-1].(*ssa.If); ok && p.Succs[0] != p.Succs[1] {
				lit = &Lit{Cond: iff.Cond, Val: p.Succs[0] == b}
				// `x && y` / `x || y` stored in a variable: the condition is a phi of constants and
				// sub-conditions defined in p itself; take the edges on which it can have this value
				if ph, isPhi := iff.Cond.(*ssa.Phi); isPhi && ph.Block() == p && len(ph.Edges) == len(p.Preds) {
					if ex, ok := pc.expandBoolPhi(ph, lit.Val); ok {
						pd = ex
						lit = nil
					}
				}
			}
			for _, t := range pd {
				nt := t
				if lit != nil {
					if t.has(Lit{lit.Cond, !lit.Val}) {
						continue // contradictory
					}
					if !t.has(*lit) {
						nt = append(append(Term{}, t...), *lit)
					}
				}
				acc = append(acc, nt)
			}
		}
		acc = simplify(acc)
		if len(acc) > dnfCap {
			acc = DNF{Term{}}
		}
		pc.dnf[b] = acc
	}
	return pc
}

// expandBoolPhi: the path conditions under which the boolean phi (at the head of its block)
// has the value val: for every incoming edge whose value is that constant, or a
// sub-condition (then required to have that value), the conditions of that edge.
func (pc *PathConds) expandBoolPhi(ph *ssa.Phi, val bool) (DNF, bool) {
	p := ph.Block()
	var out DNF
	for i, e := range ph.Edges {
		pp := p.Preds[i]
		if pc.back[[2]int{pp.Index, p.Index}] {
			return nil, false
		}
		ppd, ok := pc.dnf[pp]
		if !ok {
			continue
		}
		var extra []Lit
		if iff, ok := pp.Instrs[len(pp.Instrs)-1].(*ssa.If); ok && pp.Succs[0] != pp.Succs[1] {
			extra = append(extra, Lit{Cond: iff.Cond, Val: pp.Succs[0] == p})
		}
		if k, isConst := e.(*ssa.Const); isConst {
			if k.Value == nil || (k.Value.ExactString() == "true") != val {
				continue
			}
		} else {
			extra = append(extra, Lit{Cond: e, Val: val})
		}
	terms:
		for _, t := range ppd {
			nt := append(Term{}, t...)
			for _, l := range extra {
				if nt.has(Lit{l.Cond, !l.Val}) {
					continue terms
				}
				if !nt.has(l) {
					nt = append(nt, l)
				}
			}
			out = append(out, nt)
		}
	}
	return out, true
}

func rpo(fn *ssa.Function, back map[[2]int]bool) []*ssa.BasicBlock {
	seen := map[*ssa.BasicBlock]bool{}
	var post []*ssa.BasicBlock
	var dfs func(b *ssa.BasicBlock)
	dfs = func(b *ssa.BasicBlock) {
		seen[b] = true
		for _, s := range b.Succs {
			if back[[2]int{b.Index, s.Index}] || seen[s] {
				continue
			}
			dfs(s)
		}
		post = append(post, b)
	}
	dfs(fn.Blocks[0])
	for i, j := 0, len(post)-1; i < j; i, j = i+1, j-1 {
		post[i], post[j] = post[j], post[i]
	}
	return post
}

func simplify(d DNF) DNF {
	// drop duplicate and subsumed terms (t subsumed by s if s ⊆ t)
	sort.SliceStable(d, func(i, j int) bool { return len(d[i]) < len(d[j]) })
	var out DNF
outer:
	for _, t := range d {
		for _, s := range out {
			sub := true
			for _, l := range s {
				if !t.has(l) {
					sub = false
					break
				}
			}
			if sub {
				continue outer
			}
		}
		out = append(out, t)
	}
	// merge t∧l and t∧¬l -> t (one round, cheap)
	changed := true
	for changed && len(out) <= dnfCap {
		changed = false
		for i := 0; i < len(out) && !changed; i++ {
			for j := i + 1; j < len(out) && !changed; j++ {
				if len(out[i]) != len(out[j]) {
					continue
				}
				diff := -1
				ok := true
				for k, l := range out[i] {
					if out[j].has(l) {
						continue
					}
					if out[j].has(Lit{l.Cond, !l.Val}) && diff == -1 {
						diff = k
						continue
					}
					ok = false
					break
				}
				if ok && diff >= 0 {
					nt := append(append(Term{}, out[i][:diff]...), out[i][diff+1:]...)
					out[i] = nt
					out = append(out[:j], out[j+1:]...)
					changed = true
				}
			}
		}
		if changed {
			return simplify(out)
		}
	}
	return out
}

// At returns the DNF for block b (nil = unreachable).
func (pc *PathConds) At(b *ssa.BasicBlock) DNF { return pc.dnf[b] }

// Requires reports whether every path to b satisfies pred on at least one of its literals.
func (pc *PathConds) Requires(b *ssa.BasicBlock, pred func(Lit) bool) bool {
	d, ok := pc.dnf[b]
	if !ok {
		return true // unreachable
	}
	for _, t := range d {
		found := false
		for _, l := range t {
			if pred(l) {
				found = true
				break
			}
		}
		if !found {
			return false
		}
	}
	return true
}

// EdgeRequires is Requires for the control-flow edge pred -> succ (the path condition of
// pred strengthened by the branch literal of that edge).
func (pc *PathConds) EdgeRequires(pred, succ *ssa.BasicBlock, p func(Lit) bool) bool {
	if iff, ok := pred.Instrs[len(pred.Instrs)-1].(*ssa.If); ok && pred.Succs[0] != pred.Succs[1] {
		if p(Lit{Cond: iff.Cond, Val: pred.Succs[0] == succ}) {
			return true
		}
	}
	return pc.Requires(pred, p)
}

// ---------- misc CFG ----------

// ReachableAvoiding reports whether 'to' is reachable from 'from' without entering any block in avoid.
func ReachableAvoiding(from, to *ssa.BasicBlock, avoid map[*ssa.BasicBlock]bool) bool {
	if avoid[from] {
		return false
	}
	seen := map[*ssa.BasicBlock]bool{from: true}
	work := []*ssa.BasicBlock{from}
	for len(work) > 0 {
		b := work[len(work)-1]
		work = work[:len(work)-1]
		if b == to {
			return true
		}
		for _, s := range b.Succs {
			if !seen[s] && !avoid[s] {
				seen[s] = true
				work = append(work, s)
			}
		}
	}
	return false
}

// Returns lists the return instructions of fn.
func Returns(fn *ssa.Function) []*ssa.Return {
	var out []*ssa.Return
	for _, b := range fn.Blocks {
		if len(b.Instrs) == 0 {
			continue
		}
		if r, ok := b.Instrs[len(b.Instrs)-1].(*ssa.Return); ok {
			out = append(out, r)
		}
	}
	return out
}

// Calls lists call instructions (call, go, defer) of fn in block order.
func Calls(fn *ssa.Function) []ssa.CallInstruction {
	var out []ssa.CallInstruction
	for _, b := range fn.Blocks {
		for _, in := range b.Instrs {
			if c, ok := in.(ssa.CallInstruction); ok {
				out = append(out, c)
			}
		}
	}
	return out
}

// FieldOf returns the struct field selected by a FieldAddr / Field instruction.
func FieldOf(v ssa.Value) *types.Var {
	switch x := v.(type) {
	case *ssa.FieldAddr:
		t := x.X.Type()
		if p, ok := types.Unalias(t).Underlying().(*types.Pointer); ok {
			if st, ok := p.Elem().Underlying().(*types.Struct); ok {
				return st.Field(x.Field)
			}
		}
	case *ssa.Field:
		if st, ok := x.X.Type().Underlying().(*types.Struct); ok {
			return st.Field(x.Field)
		}
	}
	return nil
}

// ShortVal renders an SSA value for reports.
func ShortVal(v ssa.Value) string {
	if v == nil {
		return "<nil>"
	}
	s := v.String()
	if len(s) > 80 {
		s = s[:80] + "…"
	}
	return strings.ReplaceAll(s, ModPath+"/", "")
}
