package model

import (
	"fmt"
	"os"
	"path/filepath"
	"regexp"
	"regexp/syntax"
	"strings"
	"unicode"
)

// Grammar is the (small, EBNF-only) Numscript.g4 read well enough to know, per parser rule
// alternative, the ordered elements with their labels and multiplicities, and the lexer
// rules as regular expressions.
type Grammar struct {
	Rules  map[string]*GRule
	Order  []string
	Lexer  map[string]string // token name -> Go regexp (anchored by the user)
	Source string
}

type GRule struct {
	Name string
	Alts []*GAlt
}

type GAlt struct {
	Label string // "# label", "" when unlabelled
	Elems []*GElem
}

type GElem struct {
	Label    string // "address" in address = valueExpr
	Ref      string // rule or token name, or a quoted literal / set
	IsToken  bool   // token reference or literal
	Optional bool   // ?, * or inside an optional/repeated group
	Repeated bool   // *, + or inside a repeated group
}

func ReadGrammar(repo string) (*Grammar, error) {
	b, err := os.ReadFile(filepath.Join(repo, "Numscript.g4"))
	if err != nil {
		return nil, err
	}
	g := &Grammar{Rules: map[string]*GRule{}, Lexer: map[string]string{}, Source: string(b)}
	toks := lexG4(string(b))
	i := 0
	// skip "grammar X;"
	if i < len(toks) && toks[i] == "grammar" {
		for i < len(toks) && toks[i] != ";" {
			i++
		}
		i++
	}
	for i < len(toks) {
		name := toks[i]
		if i+1 >= len(toks) || toks[i+1] != ":" {
			return nil, fmt.Errorf("grammar: expected rule at token %d (%q)", i, name)
		}
		j := i + 2
		depth := 0
		for j < len(toks) && !(toks[j] == ";" && depth == 0) {
			if toks[j] == "(" {
				depth++
			}
			if toks[j] == ")" {
				depth--
			}
			j++
		}
		body := toks[i+2 : j]
		if unicode.IsUpper(rune(name[0])) {
			re, err := lexerRegex(body, g)
			if err == nil {
				g.Lexer[name] = re
			}
		} else {
			r := &GRule{Name: name}
			for _, altToks := range splitTop(body, "|") {
				alt := &GAlt{}
				// trailing "# label"
				for k := 0; k < len(altToks); k++ {
					if altToks[k] == "#" && k+1 < len(altToks) {
						alt.Label = altToks[k+1]
						altToks = altToks[:k]
						break
					}
				}
				parseElems(altToks, false, false, alt)
				r.Alts = append(r.Alts, alt)
			}
			g.Rules[name] = r
			g.Order = append(g.Order, name)
		}
		i = j + 1
	}
	if len(g.Rules) == 0 {
		return nil, fmt.Errorf("grammar: no parser rules read")
	}
	return g, nil
}

func lexG4(s string) []string {
	var out []string
	i := 0
	for i < len(s) {
		c := s[i]
		switch {
		case c == ' ' || c == '\t' || c == '\n' || c == '\r':
			i++
		case c == '/' && i+1 < len(s) && s[i+1] == '/':
			for i < len(s) && s[i] != '\n' {
				i++
			}
		case c == '/' && i+1 < len(s) && s[i+1] == '*':
			j := strings.Index(s[i+2:], "*/")
			if j < 0 {
				return out
			}
			i += j + 4
		case c == '\'':
			j := i + 1
			for j < len(s) && s[j] != '\'' {
				if s[j] == '\\' {
					j++
				}
				j++
			}
			out = append(out, s[i:j+1])
			i = j + 1
		case c == '[':
			j := i + 1
			for j < len(s) && s[j] != ']' {
				if s[j] == '\\' {
					j++
				}
				j++
			}
			out = append(out, s[i:j+1])
			i = j + 1
		case c == '-' && i+1 < len(s) && s[i+1] == '>':
			out = append(out, "->")
			i += 2
		case unicode.IsLetter(rune(c)) || c == '_':
			j := i
			for j < len(s) && (unicode.IsLetter(rune(s[j])) || unicode.IsDigit(rune(s[j])) || s[j] == '_') {
				j++
			}
			out = append(out, s[i:j])
			i = j
		default:
			out = append(out, string(c))
			i++
		}
	}
	return out
}

func splitTop(toks []string, sep string) [][]string {
	var out [][]string
	depth := 0
	cur := []string{}
	for _, t := range toks {
		if t == "(" {
			depth++
		}
		if t == ")" {
			depth--
		}
		if t == sep && depth == 0 {
			out = append(out, cur)
			cur = []string{}
			continue
		}
		cur = append(cur, t)
	}
	return append(out, cur)
}

func parseElems(toks []string, opt, rep bool, alt *GAlt) {
	i := 0
	for i < len(toks) {
		label := ""
		if i+2 < len(toks) && toks[i+1] == "=" {
			label = toks[i]
			i += 2
		}
		var group []string
		ref := ""
		if toks[i] == "(" {
			depth := 1
			j := i + 1
			for j < len(toks) && depth > 0 {
				if toks[j] == "(" {
					depth++
				}
				if toks[j] == ")" {
					depth--
				}
				j++
			}
			group = toks[i+1 : j-1]
			i = j
		} else {
			ref = toks[i]
			i++
		}
		o, r := opt, rep
		if i < len(toks) {
			switch toks[i] {
			case "?":
				o = true
				i++
			case "*":
				o, r = true, true
				i++
			case "+":
				r = true
				i++
			}
		}
		if group != nil {
			alts := splitTop(group, "|")
			if allLiterals(alts) && (label != "" || len(alts) > 1) {
				// op = ('+' | '-') : a token set
				alt.Elems = append(alt.Elems, &GElem{Label: label, Ref: "(" + strings.Join(group, " ") + ")", IsToken: true, Optional: o, Repeated: r})
				continue
			}
			for _, a := range alts {
				parseElems(a, o || len(alts) > 1, r, alt)
			}
			continue
		}
		isTok := strings.HasPrefix(ref, "'") || (len(ref) > 0 && unicode.IsUpper(rune(ref[0])))
		alt.Elems = append(alt.Elems, &GElem{Label: label, Ref: ref, IsToken: isTok, Optional: o, Repeated: r})
	}
}

func allLiterals(alts [][]string) bool {
	for _, a := range alts {
		if len(a) != 1 {
			return false
		}
		if !(strings.HasPrefix(a[0], "'") || unicode.IsUpper(rune(a[0][0]))) {
			return false
		}
	}
	return true
}

// MayBeNil reports whether the child (by label, or by rule name when unlabelled) of the
// alternative can be absent from the generated context after ANTLR's error recovery:
// it is optional/repeated, or a token other than the alternative's first element (or an
// optional/repeated block) precedes it - a failed token match aborts the rule body, whereas
// a sub-rule call always returns a (possibly bare) context.
func (a *GAlt) MayBeNil(name string) (bool, bool) {
	for i, e := range a.Elems {
		if e.Label == name || (e.Label == "" && e.Ref == name) || (name != "" && e.Label == "" && strings.EqualFold(e.Ref, name)) {
			if e.Optional || (e.IsToken && i != 0) {
				// a token that is not the first element may fail to match (nil) or be conjured
				return true, true
			}
			for j := 0; j < i; j++ {
				p := a.Elems[j]
				if (p.IsToken && j != 0) || p.Optional || p.Repeated {
					return true, true
				}
			}
			return false, true
		}
	}
	return false, false
}

// AltByLabel finds the alternative with the given "# label" (case-insensitive), or the only
// alternative of an unlabelled rule.
func (g *Grammar) AltByLabel(rule, label string) *GAlt {
	r := g.Rules[rule]
	if r == nil {
		return nil
	}
	for _, a := range r.Alts {
		if strings.EqualFold(a.Label, label) {
			return a
		}
	}
	if len(r.Alts) == 1 && label == "" {
		return r.Alts[0]
	}
	return nil
}

// ---------- lexer rules as regular expressions ----------

func lexerRegex(body []string, g *Grammar) (string, error) {
	// drop "-> skip" etc.
	for i, t := range body {
		if t == "->" {
			body = body[:i]
			break
		}
	}
	var sb strings.Builder
	for _, t := range body {
		switch {
		case t == "(" || t == ")" || t == "|" || t == "?" || t == "*" || t == "+":
			if t == "(" {
				sb.WriteString("(?:")
			} else {
				sb.WriteString(t)
			}
		case t == ".":
			sb.WriteString("(?s:.)")
		case t == "~":
			sb.WriteString("~") // resolved below
		case strings.HasPrefix(t, "'"):
			lit := t[1 : len(t)-1]
			lit = strings.ReplaceAll(lit, `\\`, "\x00")
			lit = strings.ReplaceAll(lit, `\'`, "'")
			lit = strings.ReplaceAll(lit, "\x00", `\`)
			sb.WriteString(quoteMeta(lit))
		case strings.HasPrefix(t, "["):
			sb.WriteString(t)
		default:
			if sub, ok := g.Lexer[t]; ok {
				sb.WriteString("(?:" + sub + ")")
			} else {
				return "", fmt.Errorf("unknown lexer ref %s", t)
			}
		}
	}
	re := sb.String()
	// ~[...] -> [^...]
	re = strings.ReplaceAll(re, "~[", "[^")
	return re, nil
}

func quoteMeta(s string) string {
	var sb strings.Builder
	for _, r := range s {
		if strings.ContainsRune(`\.+*?()|[]{}^$`, r) {
			sb.WriteByte('\\')
		}
		sb.WriteRune(r)
	}
	return sb.String()
}

// Matches enumerates every string over the alphabet up to maxLen that the lexer rule matches
// completely (small-scope view of a lexer class; used to justify text-conversion sites).
func (g *Grammar) Matches(token string, alphabet string, maxLen int) ([]string, error) {
	re, ok := g.Lexer[token]
	if !ok {
		return nil, fmt.Errorf("no lexer rule %s in Numscript.g4", token)
	}
	rx, err := regexp.Compile("^(?:" + re + ")$")
	if err != nil {
		return nil, fmt.Errorf("lexer rule %s: %v", token, err)
	}
	var out []string
	var rec func(prefix string)
	rec = func(prefix string) {
		if rx.MatchString(prefix) {
			out = append(out, prefix)
		}
		if len(prefix) >= maxLen {
			return
		}
		for _, ch := range alphabet {
			rec(prefix + string(ch))
		}
	}
	rec("")
	return out, nil
}

// ---------- minimum text lengths ----------

// TokenMinLen: the length (in bytes) of the shortest text the lexer rule matches.
func (g *Grammar) TokenMinLen(token string) (int, bool) {
	re, ok := g.Lexer[token]
	if !ok {
		return 0, false
	}
	rx, err := syntax.Parse(re, syntax.Perl)
	if err != nil {
		return 0, false
	}
	return regexMinLen(rx), true
}

func regexMinLen(re *syntax.Regexp) int {
	switch re.Op {
	case syntax.OpLiteral:
		n := 0
		for _, r := range re.Rune {
			n += len(string(r))
		}
		return n
	case syntax.OpCharClass, syntax.OpAnyCharNotNL, syntax.OpAnyChar:
		return 1
	case syntax.OpCapture:
		return regexMinLen(re.Sub[0])
	case syntax.OpConcat:
		n := 0
		for _, s := range re.Sub {
			n += regexMinLen(s)
		}
		return n
	case syntax.OpAlternate:
		m := -1
		for _, s := range re.Sub {
			if k := regexMinLen(s); m < 0 || k < m {
				m = k
			}
		}
		if m < 0 {
			return 0
		}
		return m
	case syntax.OpPlus:
		return regexMinLen(re.Sub[0])
	case syntax.OpRepeat:
		return re.Min * regexMinLen(re.Sub[0])
	}
	return 0 // star, quest, empty matches, anchors
}

// AnyTokenMinLen: the shortest text of any token the lexer can produce.
func (g *Grammar) AnyTokenMinLen() int {
	m := -1
	for name := range g.Lexer {
		if k, ok := g.TokenMinLen(name); ok && (m < 0 || k < m) {
			m = k
		}
	}
	if m < 0 {
		return 0
	}
	return m
}

// AltMinTextLen: for the alternative labelled `label` (or the unlabelled rule named so), the
// least length of the concatenated token texts of a context of that alternative, counting
// only what ANTLR guarantees once the alternative has been predicted: the leading element
// when it is a token (prediction looked at it), and nothing after it.
func (g *Grammar) AltMinTextLen(label string) (int, bool) {
	for _, rn := range g.Order {
		r := g.Rules[rn]
		for _, a := range r.Alts {
			if !strings.EqualFold(a.Label, label) && !(a.Label == "" && len(r.Alts) == 1 && strings.EqualFold(r.Name, label)) {
				continue
			}
			if len(a.Elems) == 0 {
				return 0, true
			}
			first := a.Elems[0]
			if !first.IsToken || first.Optional {
				return 0, true
			}
			if k, ok := g.TokenMinLen(first.Ref); ok {
				return k, true
			}
			if strings.HasPrefix(first.Ref, "'") {
				return len(first.Ref) - 2, true
			}
			return 0, true
		}
	}
	return 0, false
}
