// Package model derives repository facts (closed sums, AST child fields, families of
// traversal functions) from the loaded program, so that rules speak about roles and not
// about frozen source text.
package model

import (
	"go/ast"
	"go/types"
	"sort"
	"strings"

	"nsa/core"

	"golang.org/x/tools/go/packages"
	"golang.org/x/tools/go/ssa"
)

// Sum is a closed sum: a sealed interface (unexported marker method) of a module package,
// or a generated ANTLR rule-context interface, with its implementers.
type Sum struct {
	Iface *types.Named
	Impls []*types.Named // named struct types; the pointer type implements Iface unless ByValue
	// ByValue[i] is true when the value type itself implements the interface.
	ByValue map[*types.Named]bool
	Antlr   bool
}

func (s *Sum) Name() string { return s.Iface.Obj().Pkg().Name() + "." + s.Iface.Obj().Name() }

type Model struct {
	P    *core.Program
	Sums map[*types.Named]*Sum
}

func Build(p *core.Program) *Model {
	m := &Model{P: p, Sums: map[*types.Named]*Sum{}}
	theProgram = p
	for _, pkg := range p.Pkgs {
		rel, _ := core.Rel(pkg.Types)
		scope := pkg.Types.Scope()
		var named []*types.Named
		for _, n := range scope.Names() {
			if tn, ok := scope.Lookup(n).(*types.TypeName); ok && !tn.IsAlias() {
				if nt, ok := tn.Type().(*types.Named); ok && nt.TypeParams().Len() == 0 {
					named = append(named, nt)
				}
			}
		}
		for _, it := range named {
			iface, ok := it.Underlying().(*types.Interface)
			if !ok {
				continue
			}
			antlr := core.IsGeneratedRel(rel) && strings.HasPrefix(it.Obj().Name(), "I") && strings.HasSuffix(it.Obj().Name(), "Context")
			if !antlr && !sealed(iface, pkg.Types) {
				continue
			}
			if core.IsGeneratedRel(rel) && !antlr {
				continue
			}
			s := &Sum{Iface: it, ByValue: map[*types.Named]bool{}, Antlr: antlr}
			for _, ct := range named {
				if _, isIface := ct.Underlying().(*types.Interface); isIface {
					continue
				}
				// a type that only satisfies the interface through an embedded member of the sum
				// (SourceAccount embeds ValueExpr) is a wrapper, not a member
				if !antlr && !declaresMarker(ct, iface, pkg.Types) {
					continue
				}
				if types.Implements(ct, iface) {
					s.Impls = append(s.Impls, ct)
					s.ByValue[ct] = true
				} else if types.Implements(types.NewPointer(ct), iface) {
					s.Impls = append(s.Impls, ct)
				}
			}
			if len(s.Impls) > 0 {
				sort.Slice(s.Impls, func(i, j int) bool { return s.Impls[i].Obj().Name() < s.Impls[j].Obj().Name() })
				m.Sums[it] = s
			}
		}
	}
	return m
}

// declaresMarker: every unexported method of the sealed interface is declared on ct itself.
func declaresMarker(ct *types.Named, iface *types.Interface, pkg *types.Package) bool {
	for i := 0; i < iface.NumMethods(); i++ {
		m := iface.Method(i)
		if m.Exported() || m.Pkg() != pkg {
			continue
		}
		found := false
		for j := 0; j < ct.NumMethods(); j++ {
			if ct.Method(j).Name() == m.Name() {
				found = true
			}
		}
		if !found {
			return false
		}
	}
	return true
}

func sealed(iface *types.Interface, pkg *types.Package) bool {
	for i := 0; i < iface.NumMethods(); i++ {
		if !iface.Method(i).Exported() && iface.Method(i).Pkg() == pkg {
			return true
		}
	}
	return false
}

// SumOf returns the closed sum for a (possibly aliased) interface type.
func (m *Model) SumOf(t types.Type) *Sum {
	if n, ok := types.Unalias(t).(*types.Named); ok {
		return m.Sums[n]
	}
	return nil
}

// IsASTSum reports whether s is one of the AST sums of internal/parser.
func (m *Model) IsASTSum(s *Sum) bool {
	rel, ok := core.Rel(s.Iface.Obj().Pkg())
	return ok && rel == "internal/parser" && !s.Antlr
}

// ChildField is a field through which a traversal descends.
type ChildField struct {
	Owner *types.Named // node or item struct that declares/promotes the field
	Var   *types.Var
	Kind  string // "sum", "ptr-sum", "slice-sum", "ptr-node", "slice-item"
	Sum   *Sum   // for sum kinds
	Item  *types.Named
}

// Children lists the child fields of an AST struct type (embedded sums count, e.g.
// SourceAccount.ValueExpr).
func (m *Model) Children(n *types.Named) []ChildField {
	st, ok := n.Underlying().(*types.Struct)
	if !ok {
		return nil
	}
	var out []ChildField
	for i := 0; i < st.NumFields(); i++ {
		f := st.Field(i)
		t := types.Unalias(f.Type())
		if s := m.astSum(t); s != nil {
			out = append(out, ChildField{Owner: n, Var: f, Kind: "sum", Sum: s})
			continue
		}
		switch tt := t.(type) {
		case *types.Pointer:
			if s := m.astSum(tt.Elem()); s != nil {
				out = append(out, ChildField{Owner: n, Var: f, Kind: "ptr-sum", Sum: s})
			} else if en, ok := types.Unalias(tt.Elem()).(*types.Named); ok && m.isParserStruct(en) && len(m.Children(en)) > 0 {
				out = append(out, ChildField{Owner: n, Var: f, Kind: "ptr-node", Item: en})
			}
		case *types.Slice:
			if s := m.astSum(tt.Elem()); s != nil {
				out = append(out, ChildField{Owner: n, Var: f, Kind: "slice-sum", Sum: s})
			} else if en, ok := types.Unalias(tt.Elem()).(*types.Named); ok && m.isParserStruct(en) && len(m.Children(en)) > 0 {
				out = append(out, ChildField{Owner: n, Var: f, Kind: "slice-item", Item: en})
			}
		}
	}
	return out
}

func (m *Model) astSum(t types.Type) *Sum {
	s := m.SumOf(t)
	if s != nil && m.IsASTSum(s) {
		return s
	}
	return nil
}

func (m *Model) isParserStruct(n *types.Named) bool {
	rel, ok := core.Rel(n.Obj().Pkg())
	if !ok || rel != "internal/parser" {
		return false
	}
	_, isStruct := n.Underlying().(*types.Struct)
	return isStruct
}

// TypeSwitch describes one type switch over a closed sum in hand-written module code.
type TypeSwitch struct {
	Pkg     *packages.Package
	Func    *types.Func // enclosing declared function (closures attribute to it)
	Stmt    *ast.TypeSwitchStmt
	Tag     ast.Expr
	Sum     *Sum
	Clauses []*Clause
	Default *Clause
}

type Clause struct {
	CC      *ast.CaseClause
	Types   []types.Type // listed case types (nil entry for `case nil`)
	HasNil  bool
	BoundTo types.Object // implicit object of the clause (x in `switch x := v.(type)`), may be nil
}

// TypeSwitches enumerates type switches over closed sums.
func (m *Model) TypeSwitches() []*TypeSwitch {
	var out []*TypeSwitch
	for _, pkg := range m.P.Pkgs {
		rel, _ := core.Rel(pkg.Types)
		if core.IsGeneratedRel(rel) {
			continue
		}
		for _, f := range pkg.Syntax {
			for _, d := range f.Decls {
				fd, ok := d.(*ast.FuncDecl)
				if !ok || fd.Body == nil {
					continue
				}
				fobj, _ := pkg.TypesInfo.Defs[fd.Name].(*types.Func)
				ast.Inspect(fd.Body, func(n ast.Node) bool {
					ts, ok := n.(*ast.TypeSwitchStmt)
					if !ok {
						return true
					}
					tag := tagExpr(ts)
					if tag == nil {
						return true
					}
					tv, ok := pkg.TypesInfo.Types[tag]
					if !ok {
						return true
					}
					sum := m.SumOf(tv.Type)
					if sum == nil {
						return true
					}
					sw := &TypeSwitch{Pkg: pkg, Func: fobj, Stmt: ts, Tag: tag, Sum: sum}
					for _, st := range ts.Body.List {
						cc := st.(*ast.CaseClause)
						cl := &Clause{CC: cc, BoundTo: pkg.TypesInfo.Implicits[cc]}
						if cc.List == nil {
							sw.Default = cl
							continue
						}
						for _, e := range cc.List {
							if id, ok := e.(*ast.Ident); ok && id.Name == "nil" && pkg.TypesInfo.Types[e].IsNil() {
								cl.HasNil = true
								cl.Types = append(cl.Types, nil)
								continue
							}
							cl.Types = append(cl.Types, pkg.TypesInfo.Types[e].Type)
						}
						sw.Clauses = append(sw.Clauses, cl)
					}
					out = append(out, sw)
					return true
				})
			}
		}
	}
	return out
}

func tagExpr(ts *ast.TypeSwitchStmt) ast.Expr {
	var x ast.Expr
	switch a := ts.Assign.(type) {
	case *ast.AssignStmt:
		if len(a.Rhs) == 1 {
			x = a.Rhs[0]
		}
	case *ast.ExprStmt:
		x = a.X
	}
	if ta, ok := x.(*ast.TypeAssertExpr); ok {
		return ta.X
	}
	return nil
}

// Covers reports which clause (if any) handles implementer impl: an explicit *T / T case,
// or an interface-typed case that T implements.
func (sw *TypeSwitch) Covers(impl *types.Named, byValue bool) (*Clause, bool) {
	ptr := types.NewPointer(impl)
	for _, cl := range sw.Clauses {
		for _, t := range cl.Types {
			if t == nil {
				continue
			}
			if types.Identical(t, ptr) || (byValue && types.Identical(t, impl)) {
				return cl, true
			}
			if it, ok := t.Underlying().(*types.Interface); ok {
				if types.Implements(ptr, it) || types.Implements(impl, it) {
					return cl, false
				}
			}
		}
	}
	return nil, false
}

// HasNilCase reports whether some clause lists nil.
func (sw *TypeSwitch) HasNilCase() bool {
	for _, cl := range sw.Clauses {
		if cl.HasNil {
			return true
		}
	}
	return false
}

// Panics reports whether the statement list certainly ends in a panic-like call
// (panic, utils.NonExhaustiveMatchPanic) on its straight-line path.
func Panics(info *types.Info, body []ast.Stmt) bool {
	for _, st := range body {
		found := false
		ast.Inspect(st, func(n ast.Node) bool {
			if _, ok := n.(*ast.FuncLit); ok {
				return false
			}
			call, ok := n.(*ast.CallExpr)
			if !ok {
				return true
			}
			if IsPanicCall(info, call) {
				found = true
			}
			return true
		})
		if found {
			return true
		}
	}
	return false
}

// IsPanicCall: builtin panic, or a module function that never returns (every path of its
// body ends in a panic, e.g. utils.NonExhaustiveMatchPanic) - decided on its SSA form.
func IsPanicCall(info *types.Info, call *ast.CallExpr) bool {
	fun := ast.Unparen(call.Fun)
	if ix, ok := fun.(*ast.IndexExpr); ok {
		fun = ix.X
	}
	if ix, ok := fun.(*ast.IndexListExpr); ok {
		fun = ix.X
	}
	switch f := fun.(type) {
	case *ast.Ident:
		if b, ok := info.Uses[f].(*types.Builtin); ok && b.Name() == "panic" {
			return true
		}
		if fn, ok := info.Uses[f].(*types.Func); ok {
			return NeverReturns(fn)
		}
	case *ast.SelectorExpr:
		if fn, ok := info.Uses[f.Sel].(*types.Func); ok {
			return NeverReturns(fn)
		}
	}
	return false
}

var neverReturns = map[*types.Func]bool{}
var theProgram *core.Program

// NeverReturns reports whether fn is a module function without any return instruction
// (all paths panic).
func NeverReturns(fn *types.Func) bool {
	fn = fn.Origin()
	if v, ok := neverReturns[fn]; ok {
		return v
	}
	res := false
	if _, ok := core.Rel(fn.Pkg()); ok && theProgram != nil {
		if sf := theProgram.SSA.FuncValue(fn); sf != nil {
			cands := []*ssa.Function{sf}
			if len(sf.Blocks) == 0 {
				cands = theProgram.Instances(sf)
			}
			for _, c := range cands {
				if len(c.Blocks) == 0 {
					continue
				}
				hasPanic := false
				for _, b := range c.Blocks {
					if _, ok := b.Instrs[len(b.Instrs)-1].(*ssa.Panic); ok {
						hasPanic = true
					}
				}
				res = hasPanic && len(core.Returns(c)) == 0
				break
			}
		}
	}
	neverReturns[fn] = res
	return res
}
