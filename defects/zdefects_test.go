package numscript_test

// Demonstrations of the genuine defects D1..D15 of /verif/DESIGN.md section 5.
// Not part of any registered check (static analysis decides the properties); this file is
// the "failing input against the real code" that justifies each fix:/finding entry.
// Usage: cp to /repo/zdefects_test.go, go test -run TestDefect ./ , remove.

import (
	"context"
	"fmt"
	"math/big"
	"strings"
	"testing"

	"github.com/formancehq/numscript"
	"github.com/formancehq/numscript/internal/analysis"
	"github.com/formancehq/numscript/internal/interpreter"
	"github.com/formancehq/numscript/internal/parser"
)

func bal(kv ...any) interpreter.Balances {
	b := interpreter.Balances{}
	for i := 0; i < len(kv); i += 2 {
		b[kv[i].(string)] = interpreter.AccountBalance{"USD": big.NewInt(int64(kv[i+1].(int)))}
	}
	return b
}

func runD(t *testing.T, script string, b interpreter.Balances, vars map[string]string) (res numscript.ExecutionResult, err error) {
	t.Helper()
	defer func() {
		if r := recover(); r != nil {
			err = fmt.Errorf("PANIC: %v", r)
			t.Errorf("panic: %v", r)
		}
	}()
	p := numscript.Parse(script)
	if len(p.GetParsingErrors()) != 0 {
		t.Fatalf("parse errors: %v", p.GetParsingErrors())
	}
	r, e := p.Run(context.Background(), vars, interpreter.StaticStore{Balances: b})
	if e != nil {
		return r, e
	}
	return r, nil
}

func postings(r numscript.ExecutionResult) string {
	var sb strings.Builder
	for _, p := range r.Postings {
		fmt.Fprintf(&sb, "%s->%s %s;", p.Source, p.Destination, p.Amount.String())
	}
	return sb.String()
}

func noNegative(t *testing.T, r numscript.ExecutionResult) {
	t.Helper()
	for _, p := range r.Postings {
		if p.Amount.Sign() <= 0 {
			t.Errorf("non-positive posting %s->%s %s", p.Source, p.Destination, p.Amount)
		}
	}
}

func TestDefectD1DoubleSpend(t *testing.T) {
	_, err := runD(t, `send [USD 20] (source = {@a @a} destination = @b)`, bal("a", 10), nil)
	if err == nil {
		t.Errorf("expected missing funds, got success")
	}
	r, err := runD(t, `send [USD *] (source = {@a @a} destination = @b)`, bal("a", 10), nil)
	if err != nil || postings(r) != "a->b 10;" {
		t.Errorf("send-all twice: %v %s", err, postings(r))
	}
}

func TestDefectD2SaveRaisesNegative(t *testing.T) {
	r, err := runD(t, `save [USD 0] from @a
send [USD 3] (source = @a allowing overdraft up to [USD 3] destination = @b)`, bal("a", -5), nil)
	if err == nil {
		t.Errorf("expected failure (a=-5, grant 3), got %s", postings(r))
	}
	r, err = runD(t, `save [USD *] from @a
send [USD 3] (source = @a allowing overdraft up to [USD 3] destination = @b)`, bal("a", -5), nil)
	if err == nil {
		t.Errorf("expected failure (save all), got %s", postings(r))
	}
}

func TestDefectD3NegativeSafeAmount(t *testing.T) {
	r, err := runD(t, `send [USD 20] (source = {@a @world} destination = @b)`, bal("a", -5), nil)
	if err != nil {
		t.Fatal(err)
	}
	noNegative(t, r)
	r, err = runD(t, `send [USD *] (source = @a allowing overdraft up to [USD -50] destination = @b)`, bal("a", 10), nil)
	if err != nil {
		t.Fatal(err)
	}
	noNegative(t, r)
}

func TestDefectD4NegativeDestCap(t *testing.T) {
	r, err := runD(t, `send [USD 20] (source = @world destination = {max [USD -5] to @a remaining to @b})`, bal(), nil)
	if err != nil {
		t.Fatal(err)
	}
	noNegative(t, r)
	if postings(r) != "world->b 20;" {
		t.Errorf("got %s", postings(r))
	}
}

func TestDefectD5RemainingOverOne(t *testing.T) {
	r, err := runD(t, `send [USD 100] (source = @world destination = {3/2 to @a remaining to @b})`, bal(), nil)
	if err == nil {
		t.Errorf("expected invalid allotment, got %s", postings(r))
	}
}

func TestDefectD6KeptSpansSenders(t *testing.T) {
	r, err := runD(t, `send [USD 20] (source = {@a @world} destination = {max [USD 15] kept remaining to @b})`, bal("a", 5), nil)
	if err != nil {
		t.Fatal(err)
	}
	noNegative(t, r)
	if postings(r) != "world->b 5;" {
		t.Errorf("got %s", postings(r))
	}
}

func TestDefectD7ZeroDenominator(t *testing.T) {
	defer func() {
		if r := recover(); r != nil {
			t.Errorf("panic: %v", r)
		}
	}()
	src := `send [USD 100] (source = @world destination = {1/0 to @a remaining to @b})`
	analysis.CheckSource(src)
	p := numscript.Parse(src)
	_, err := p.Run(context.Background(), nil, interpreter.StaticStore{})
	if err == nil {
		t.Errorf("expected an error for 1/0")
	}
	p = numscript.Parse(`set_tx_meta("k", 1/0)`)
	_, err = p.Run(context.Background(), nil, interpreter.StaticStore{})
	if err == nil {
		t.Errorf("expected an error for 1/0 in expression")
	}
}

type exactStore struct {
	b     interpreter.Balances
	calls int
}

func (s *exactStore) GetBalances(_ context.Context, q interpreter.BalanceQuery) (interpreter.Balances, error) {
	s.calls++
	out := interpreter.Balances{}
	for acc, assets := range q {
		out[acc] = interpreter.AccountBalance{}
		for _, a := range assets {
			if v, ok := s.b[acc][a]; ok {
				out[acc][a] = v
			}
		}
	}
	return out, nil
}
func (s *exactStore) GetAccountsMetadata(context.Context, interpreter.MetadataQuery) (interpreter.AccountsMetadata, error) {
	return interpreter.AccountsMetadata{}, nil
}

func TestDefectD8CacheReplacedAndCallerMutated(t *testing.T) {
	script := `vars { monetary $m = balance(@a, USD) }
send $m (source = {@a @c} destination = @b)`
	p := numscript.Parse(script)
	st := &exactStore{b: bal("a", 10, "c", 5)}
	r, err := p.Run(context.Background(), nil, st)
	if err != nil || postings(r) != "a->b 10;" {
		t.Errorf("exact store: err=%v postings=%s", err, postings(r))
	}
	// caller's map must not be mutated; second identical run gives the same result
	b := bal("a", 10)
	p2 := numscript.Parse(`send [USD 10] (source = @a destination = @b)`)
	for i := 0; i < 2; i++ {
		_, err := p2.Run(context.Background(), nil, interpreter.StaticStore{Balances: b})
		if err != nil {
			t.Errorf("run %d: %v", i, err)
		}
	}
	if b["a"]["USD"].Cmp(big.NewInt(10)) != 0 {
		t.Errorf("caller's balance mutated: %s", b["a"]["USD"])
	}
}

func TestDefectD9Percentages(t *testing.T) {
	defer func() {
		if r := recover(); r != nil {
			t.Errorf("panic: %v", r)
		}
	}()
	r, err := runD(t, `send [USD 10000] (source = @world destination = {0.10% to @a remaining to @b})`, bal(), nil)
	if err != nil || !strings.HasPrefix(postings(r), "world->a 10;") {
		t.Errorf("0.10%%: %v %s", err, postings(r))
	}
	r, err = runD(t, `send [USD 100] (source = @world destination = {08% to @a remaining to @b})`, bal(), nil)
	if err != nil || !strings.HasPrefix(postings(r), "world->a 8;") {
		t.Errorf("08%%: %v %s", err, postings(r))
	}
	// more digits than uint64
	r, err = runD(t, `send [USD 100] (source = @world destination = {50.0000000000000000000000% to @a remaining to @b})`, bal(), nil)
	if err != nil || !strings.HasPrefix(postings(r), "world->a 50;") {
		t.Errorf("long: %v %s", err, postings(r))
	}
}

func TestDefectD10PortionVariable(t *testing.T) {
	r, err := runD(t, `vars { portion $p }
send [USD 100] (source = @world destination = {$p to @a remaining to @b})`, bal(), map[string]string{"p": "1/010"})
	if err != nil || !strings.HasPrefix(postings(r), "world->a 10;") {
		t.Errorf("1/010: %v %s", err, postings(r))
	}
	r, err = runD(t, `vars { portion $p }
send [USD 1000] (source = @world destination = {$p to @a remaining to @b})`, bal(), map[string]string{"p": "010.5%"})
	if err != nil || !strings.HasPrefix(postings(r), "world->a 105;") {
		t.Errorf("010.5%%: %v %s", err, postings(r))
	}
}

func TestDefectD11HugeNumber(t *testing.T) {
	defer func() {
		if r := recover(); r != nil {
			t.Errorf("panic: %v", r)
		}
	}()
	parser.Parse(`send [USD 99999999999999999999999] (source = @world destination = @b)`)
}

func TestDefectD12RuneColumns(t *testing.T) {
	res := parser.Parse(`set_tx_meta("é", @a)`)
	call := res.Value.Statements[0].(*parser.FnCall)
	rng := call.Args[0].GetRange()
	if rng.Start.Character != 12 || rng.End.Character != 15 {
		t.Errorf("string range %v", rng)
	}
	if call.Range.End.Character != 20 {
		t.Errorf("call range %v", call.Range)
	}
	res = parser.Parse(`é`)
	for _, e := range res.Errors {
		if e.Range.End.Character > 1 {
			t.Errorf("error range in bytes: %v", e.Range)
		}
	}
}

func TestDefectD13BoundedOverdraftSendAll(t *testing.T) {
	src := `send [USD *] (source = @a allowing overdraft up to [USD 1] destination = @b)`
	res := analysis.CheckSource(src)
	if res.GetErrorsCount() != 0 {
		t.Errorf("checker rejects a script that runs: %v", res.Diagnostics[0].Kind.Message())
	}
	if _, err := runD(t, src, bal("a", 3), nil); err != nil {
		t.Errorf("run: %v", err)
	}
	// still rejected when unbounded
	res = analysis.CheckSource(`send [USD *] (source = @a allowing unbounded overdraft destination = @b)`)
	if res.GetErrorsCount() == 0 {
		t.Errorf("unbounded overdraft in send-all must be an error")
	}
}

func TestDefectD14InfixTyping(t *testing.T) {
	src := `set_tx_meta("k", 1 + @a)`
	res := analysis.CheckSource(src)
	_, err := runD(t, src, bal(), nil)
	if err != nil && res.GetErrorsCount() == 0 {
		t.Errorf("clean check but run-time error: %v", err)
	}
	src = `send [USD 1] + 2 (source = @world destination = @b)`
	res = analysis.CheckSource(src)
	_, err = runD(t, src, bal(), nil)
	if err != nil && res.GetErrorsCount() == 0 {
		t.Errorf("clean check but run-time error: %v", err)
	}
	// valid ones stay clean
	for _, ok := range []string{
		`set_tx_meta("k", 1 + 2 - 3)`,
		`send [USD 1] + [USD 2] (source = @world destination = @b)`,
		`vars { number $n monetary $m } send $m + [USD 2] - $m (source = @world destination = @b) set_tx_meta("k", $n + 1)`,
	} {
		if c := analysis.CheckSource(ok); c.GetErrorsCount() != 0 {
			t.Errorf("false error on %q: %s", ok, c.Diagnostics[0].Kind.Message())
		}
	}
}

func TestDefectD15CheckVarOriginNil(t *testing.T) {
	defer func() {
		if r := recover(); r != nil {
			t.Errorf("panic: %v", r)
		}
	}()
	res := analysis.CheckSource(`vars { number = balance(@a, USD) }`)
	res.GetSymbols()
}

func TestDefectD16OriginSeesOwnAndLaterVariables(t *testing.T) {
	for _, src := range []string{
		`vars { account $a = meta($a, "k") }
send [USD 1] (source = @world destination = $a)`,
	} {
		res := analysis.CheckSource(src)
		p := numscript.Parse(src)
		_, err := p.Run(context.Background(), nil, interpreter.StaticStore{Meta: interpreter.AccountsMetadata{"x": {"k": "y"}}})
		if err != nil && res.GetErrorsCount() == 0 {
			t.Errorf("clean check but run-time error on %q: %v", src, err)
		}
	}
}
